#!/usr/bin/env python3
"""C13 - concurrent use of a collection filesystem never loses or mixes file data.

GEN   specs/collfs/CollFSFlush.tla  MC_CollFSFlush_C13*.cfg: two files, throttle of 1-2 writers, failing Keep
                                    writes: refinement, content stable under background steps, copy-on-write
                                    (NoHazard), no deadlock on throttle/locks
                                    Gen_CollFSFlush_C13*.cfg: every behaviour = a SCHEDULE (which foreground call
                                    happens between start and completion of which Keep write, completion order,
                                    failures)
      specs/collfs/CollFSDir.tla    MC_CollFSDir_C13*.cfg: directory level (lookup / lock / commit steps of Mkdir,
                                    O_CREATE, Remove, Rename with the fs-wide mutex and root-first ancestor
                                    locks, MarshalManifest) for 2 workers: refinement of CollFS, deadlock
                                    freedom, nothing added to an unlinked directory (KF-C13-1, fixed);
                                    Gen_CollFSDir_C13.cfg emits the schedules in which the removed flag decides
RUN   harness/C08+C09+C13_arvados   (a) schedules replayed through a gated fake Keep; (b) 2-8 worker goroutines
                                    with random gate delays / failures under `go test -race`
JUDGE specs/collfs/CollFSConcTrace.tla (CollFSConc: call/return linearisation over CollFS, saved manifests,
                                    race / deadlock events are not actions)
"""
import os
import random
import re
import sys

sys.path.insert(0, os.path.join(os.path.dirname(os.path.abspath(__file__)), "..", "lib"))
sys.path.insert(0, os.path.dirname(os.path.abspath(__file__)))
import vlib  # noqa
import C08   # noqa

SD = "specs/collfs"
PKG = "sdk/go/arvados"
ANCHORED = ("fs_collection.go", "fs_base.go", "fs_filehandle.go", "fs_backend.go", "contextgroup.go", "throttle.go")


def race_reports(out):
    """Race-detector reports, attributed to the scenario whose VERIF-SCN marker precedes them.
    A report counts against the code only if one racing access happens in an anchored file
    (innermost frame outside the Go runtime/stdlib) and the other one too, or in the fake Keep's
    PutB/ReadAt touching the buffer it was handed (what a real Keep client does as well); anything
    else (an access in the harness, in the test runtime) is infrastructure information."""
    reports = []
    scn = None
    lines = out.splitlines()
    i = 0
    while i < len(lines):
        m = re.match(r"VERIF-SCN (\d+)", lines[i])
        if m:
            scn = int(m.group(1))
        if lines[i].startswith("WARNING: DATA RACE"):
            j = i + 1
            block = []
            while j < len(lines) and not lines[j].startswith("=================="):
                block.append(lines[j])
                j += 1
            # split into access stanzas: [(function, file:line), ...]
            stanzas = []
            cur = None
            fn = ""
            for ln in block:
                st = ln.strip()
                if re.match(r"^(Read|Write|Previous read|Previous write|Atomic|Previous atomic)", st) and " at 0x" in st:
                    cur = []
                    stanzas.append(cur)
                elif ln.startswith("Goroutine ") or ln.startswith("Mutex "):
                    cur = None
                elif cur is not None and st.startswith("/"):
                    cur.append((fn, st.split(" ")[0]))
                elif cur is not None and st:
                    fn = st
            tops = []
            kinds = []
            for st in stanzas[:2]:
                top = next((f for f in st if "/sdk/go/arvados/" in f[1]), st[0] if st else ("", ""))
                tops.append("%s %s" % top)
                base = top[1].split(":")[0].rsplit("/", 1)[-1]
                if base in ANCHORED:
                    kinds.append("code")
                elif "vcfsKeep).PutB" in top[0] or "vcfsKeep).ReadAt" in top[0]:
                    kinds.append("keep")      # the Keep client reading/writing a buffer it was handed
                else:
                    kinds.append("other")
            in_code = len(kinds) == 2 and "code" in kinds and all(k in ("code", "keep") for k in kinds)
            reports.append({"scn": scn, "tops": tops, "in_code": in_code, "text": "\n".join(block[:40])})
            i = j
        i += 1
    return reports


def run(ctx):
    rnd = random.Random(ctx.seed)
    if C08.SKIP_MC:
        ctx.log("VERIF_SKIP_MC=1: model checking stage skipped")
    else:
        ctx.tlc(SD, "CollFSFlush", "MC_CollFSFlush_C13_big.cfg" if ctx.thorough else "MC_CollFSFlush_C13.cfg",
            timeout=2400, label="exhaustive: 2 files, throttle 1-2, failing writes: refinement, content stable, copy-on-write, no deadlock")
    if ctx.thorough and not C08.SKIP_MC:      # (quick tier: the Gen configuration below checks the same invariants, 1 call per worker)
        ctx.tlc(SD, "CollFSDir", "MC_CollFSDir_C13_big.cfg", timeout=2400,
                label="exhaustive: directory operations of 2 workers with the code's locks: refinement (outside KF_detached), tree agreement, no deadlock")
    dsched, r = ctx.gen(SD, "CollFSDir", "Gen_CollFSDir_C13.cfg", timeout=2400,
                        label="directory level, 1 call per worker: refinement, tree agreement, nothing lost, no deadlock; emits the schedules in which the removed flag decides (regression for KF-C13-1)")
    seen = set()
    dsched = [d for d in dsched if not (repr(d) in seen or seen.add(repr(d)))]
    dsched.sort(key=lambda d: repr(d))
    ctx.extra["dir_schedules_emitted"] = len(dsched)
    sched, r = ctx.gen(SD, "CollFSFlush", "Gen_CollFSFlush_C13_big.cfg" if ctx.thorough else "Gen_CollFSFlush_C13.cfg",
                       timeout=2400, label="schedules: foreground calls x completion order / failure of Keep writes")
    ctx.extra["schedules_emitted"] = len(sched)
    sched.sort(key=lambda s: repr(s))
    rnd.shuffle(sched)
    sched = sched[:(5000 if ctx.thorough else 500)]
    scns = []
    sid = 0
    for s in sched:
        sid += 1
        scns.append({"id": sid, "mode": "schedule", "bs": s["bs"], "w": s["w"], "steps": s["steps"], "nfiles": 1,
                     "second": False, "rseed": ctx.seed})
    # hand-written schedules for "a call between the start and the completion of an asynchronous flush's
    # block write" with two files packed into one block (beyond the Gen bounds: block size 8, 2 files)
    for what in ("grow", "shrink", "overwrite", "append", "grow_fail"):
        mid = {"grow": [{"op": "trunc", "h": 1, "n": 5}], "grow_fail": [{"op": "trunc", "h": 1, "n": 6}],
               "shrink": [{"op": "trunc", "h": 1, "n": 1}],
               "overwrite": [{"op": "seek", "h": 1, "off": 0}, {"op": "write", "h": 1, "d": "y"}],
               "append": [{"op": "write", "h": 1, "d": "yx"}]}[what]
        sid += 1
        scns.append({"id": sid, "mode": "schedule", "bs": 8, "w": 4, "nfiles": 2, "second": False, "rseed": ctx.seed,
                     "steps": [{"op": "write", "h": 1, "d": "xyx"}, {"op": "write", "h": 2, "d": "yy"},
                               {"op": "flush", "short": True}] + mid +
                              [{"op": "put", "data": "xyxyy", "ok": what != "grow_fail", "kind": "async"},
                               {"op": "read", "h": 2, "n": 2}]})
    # every asynchronous flush write fails, as many times as the throttle has slots (2 and 4): afterwards a
    # save must still get through (a slot leaked per failed write leaves it waiting for ever: deadlock event)
    for w in (2, 4):
        steps = []
        for k in range(w):
            steps += [{"op": "write", "h": 1, "d": "x"}, {"op": "flush", "short": True},
                      {"op": "put", "data": "x" * (k + 1), "ok": False, "kind": "async"}]
        sid += 1
        scns.append({"id": sid, "mode": "schedule", "bs": 8, "w": w, "nfiles": 1, "second": False, "rseed": ctx.seed,
                     "steps": steps})
    rscns = []
    nrand = 16 if ctx.thorough else 5
    for i in range(nrand):
        sid += 1
        workers = [2, 3, 4, 5, 2, 3, 6, 8][i % 8] if ctx.thorough else [2, 3, 4, 5, 2][i % 5]
        nops = 40 if workers <= 4 else (20 if workers <= 6 else 12)
        if not ctx.thorough:
            nops = 30 if workers <= 3 else 18
        rscns.append({"id": sid, "mode": "random", "bs": [1, 2, 3, 4][i % 4], "w": [4, 2, 4][i % 3],
                      "rseed": ctx.seed * 7919 + i, "workers": workers, "nops": nops, "failpct": [0, 10, 25][i % 3],
                      "savers": 1 if workers >= 6 else 1 + i % 2})
    # (c) directory schedules: Rename variants replayed exactly (fs-wide mutex held by the driver while the
    # other call runs), the others started together `reps` times
    dscns = []
    for d in dsched:
        sid += 1
        dscns.append({"id": sid, "mode": "dirsched", "bs": 4, "w": 4, "dir": d["steps"], "rseed": ctx.seed,
                      "reps": 40 if ctx.thorough else 6})
    # Rename against a top-down reader (Readdir of the root stopped inside the root by a lock the driver holds)
    sid += 1
    dscns.append({"id": sid, "mode": "lockorder", "bs": 4, "w": 4, "rseed": ctx.seed, "reps": 24 if ctx.thorough else 10})
    scns_all = scns + dscns
    by_id = {s["id"]: s for s in scns_all + rscns}
    ctx.extra["scenarios"] = {"schedules": len(scns), "random_concurrent": len(rscns), "dir_schedules": len(dsched)}
    ov = ctx.harness_overlay(PKG, "harness/C08_arvados")
    ov.update(ctx.harness_overlay(PKG, "harness/C09_arvados"))
    ov.update(ctx.harness_overlay(PKG, "harness/C13_arvados"))
    # RUN (a): schedules through the gated Keep
    ev1, out1 = C08.run_driver(ctx, PKG, ov, "TestVerifC13$", scns_all, timeout=2400)
    # RUN (b): random concurrency under the race detector
    ev2, out2 = C08.run_driver(ctx, PKG, ov, "TestVerifC13$", rscns, timeout=2400, race=True)
    traces = vlib.split_traces(ev1) + vlib.split_traces(ev2)
    traces.sort(key=lambda t: t[0].get("mode") in ("dirsched", "lockorder"))     # (stable: the directory schedules are judged last)
    stuck = any(e["ev"] in ("deadlock", "panic") for t in traces for e in t)
    unapplied = [t[0].get("unapplied", 0) for t in traces if t[0].get("mode") == "schedule"
                 and not any(e["ev"] in ("deadlock", "panic") for e in t)]
    nun = sum(1 for u in unapplied if u)
    if stuck:
        # the driver stops early after two proven deadlocks: the judge gets what was recorded
        ctx.log("driver recorded a deadlock/panic event; %d of %d scenarios were run" % (len(traces), len(scns_all) + len(rscns)))
    if nun:
        ctx.drift.append("%d of %d schedules had Keep writes the code did not issue as the model predicted" % (nun, len(unapplied)))
    if not stuck and unapplied and nun > len(unapplied) // 2:
        raise vlib.InfraError("more than half of the schedules could not be applied")
    # race-detector reports: race freedom is not in the statement -> DRIFT (with the report), never a verdict
    reps = race_reports(out1) + race_reports(out2)
    code = [r for r in reps if r["in_code"]]
    if code:
        ctx.drift.append("%d race-detector report(s) with both accesses in the anchored files (first: scenario %s, %s)"
                         % (len(code), code[0]["scn"], code[0]["tops"]))
    ctx.extra["race_reports"] = {"in_anchored_code": len(code), "harness": len(reps) - len(code)}
    # C09's obligations on a saved manifest (published grammar, locator provenance) are not C13's: drift
    bad = [(t[0].get("scn"), e["id"]) for t in traces for e in t
           if e["ev"] == "call" and e.get("op") == "marshal" and e.get("ok")
           and (not e["m"]["gok"] or any(not ((b["orig"] or b["put"]) and b["known"] and b["md5"] and b["sz"] == len(b["d"]))
                                         for st in e["m"]["streams"] for b in st["blocks"]))]
    if bad:
        ctx.drift.append("%d saved manifest(s) fail C09's grammar / locator obligations (first: scenario %s call %s)"
                         % (len(bad), bad[0][0], bad[0][1]))
    inapp = [t[0].get("scn") for t in traces if t[0].get("inapplicable")]
    if inapp:
        ctx.drift.append("%d directory schedule(s) could not be replayed: the other call blocked on the filesystem-wide mutex" % len(inapp))
    deferred = None
    for t in traces:
        for i, e in enumerate(t):
            if e["ev"] == "panic" and not e.get("incode", False) and not t[0].get("crash"):
                deferred = deferred or ("a panic recovered by the driver was not raised in the code under test (scenario %s: %s at %s)"
                                        % (t[0].get("scn"), str(e.get("what"))[:200], e.get("at")))
                del t[i:]
                break
    events = [e for t in traces for e in t]
    ctx.evaluations = len(traces)
    ctx.extra["events_judged"] = len(events)
    C08.install_classifier(ctx)
    C08.judge_fast(ctx, SD, "CollFSConcTrace", "Judge_CollFSConc_C13.cfg", events, scenario_of=by_id, timeout=3000,
                   max_rejects=8)
    C08.raise_deferred(ctx, deferred)
    nontrivial = set()
    overlap = 0
    for t in traces:
        sig = []
        depth = 0
        mx = 0
        for e in t:
            if e["ev"] == "call":
                depth += 1
                mx = max(mx, depth)
                sig.append((e["op"], e.get("ok", e.get("res"))))
            elif e["ev"] == "ret":
                depth -= 1
            elif e["ev"] == "putb":
                sig.append(("putb", e["ok"]))
        if any(x[0] == "putb" for x in sig):
            nontrivial.add((t[0].get("bs"), t[0].get("w"), tuple(sig)))
        overlap = max(overlap, mx)
    ctx.extra["distinct_nontrivial"] = len(nontrivial)
    ctx.extra["max_overlapping_calls"] = overlap
    ctx.rule = ("scenarios = schedules (behaviours of CollFSFlush.tla: which foreground call falls between start and "
                "completion of which Keep write, completion order, which writes fail; sampled in the quick tier) replayed "
                "through a gated Keep, plus random concurrent runs of 2-8 workers (+1-2 concurrent Flush/Marshal/Sync "
                "callers) under the race detector; non-trivial = at least one Keep write happened; distinct by (block "
                "size, throttle, sequence of calls/outcomes and write completions)")
    ctx.samples = [{"scenario": by_id.get(t[0].get("scn")), "trace": t[:14]} for t in traces[:2]]
    ctx.trusted_base = ["gated fake Keep; release by data content", "call/return logging under one mutex; results attached to the call record",
                        "race report attribution (both accesses in anchored files) in checks/C13.py",
                        "deadlock = no call returned for 240 s and every unfinished worker parked > 1 min per the Go runtime",
                        "everything listed for C08 and C09"]
    ctx.assumptions = ["schedule fidelity (that a released write's goroutine finishes before the next call) is best effort; "
                       "the verdict does not depend on it: the contract accepts every linearisation",
                       "one foreground call inside its critical section at a time in the model (CollFSFlush.tla header)"]


if __name__ == "__main__":
    vlib.main("C13", run)
