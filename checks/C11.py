#!/usr/bin/env python3
"""C11 - Keep client reports a successful write only when enough replicas are confirmed.

GEN   specs/keepclient/KeepPut.tla   MC_KeepPut.cfg (refinement of KeepPutContract, accounting, termination)
                                     Gen_KeepPut*.cfg (every completion order x outcome assignment)
RUN   harness/C11_keepclient/put_driver_test.go  (real PutB/PutHR/putReplicas, gated fake HTTPClient)
JUDGE specs/keepclient/KeepPutTrace.tla      (KeepPutContract)
"""
import os
import random
import sys

sys.path.insert(0, os.path.join(os.path.dirname(os.path.abspath(__file__)), "..", "lib"))
import vlib  # noqa


def run(ctx):
    sd = "specs/keepclient"
    pkg = "sdk/go/keepclient"
    # GEN: design-level check, exhaustive over the bounded instance
    if ctx.thorough:
        ctx.tlc(sd, "KeepPut", "MC_KeepPut_bigA.cfg", timeout=3000, label="exhaustive (4 services, want<=3, 1 retry)")
        ctx.tlc(sd, "KeepPut", "MC_KeepPut_bigB.cfg", timeout=3000, label="exhaustive (3 services, want<=3, 2 retries)")
    else:
        ctx.tlc(sd, "KeepPut", "MC_KeepPut.cfg", timeout=1500, label="exhaustive: refinement, accounting, termination")
    # GEN: scenarios = every path (completion order x outcomes) of the bounded instance
    scns, r = ctx.gen(sd, "KeepPut", "Gen_KeepPut_big.cfg" if ctx.thorough else "Gen_KeepPut.cfg",
                      timeout=1500, label="scenario emission")
    rnd = random.Random(ctx.seed)
    ctx.extra["scenarios_emitted_by_model"] = len(scns)
    if ctx.thorough and len(scns) > 40000:
        rnd.shuffle(scns)
        scns = scns[:40000]
    if not ctx.thorough and len(scns) > 2500:
        # quick tier: all short scenarios, a seeded sample of the rest
        scns.sort(key=lambda s: (len(s["steps"]), s["id"]))
        head = [s for s in scns if len(s["steps"]) <= 3]
        rest = [s for s in scns if len(s["steps"]) > 3]
        rnd.shuffle(rest)
        scns = head + rest[:max(0, 2500 - len(head))]
    for i, s in enumerate(scns):
        s["ro"] = i % 3
    if ctx.replay_scn:
        scns = [ctx.replay_scn]
    ctx.extra["scenarios_emitted"] = len(scns)
    # random scenarios beyond the model's bounds (1-5 writable, want 1-3, retries 0-3, all 11 kinds)
    nrand = 0 if ctx.replay_scn else (3000 if ctx.thorough else 400)
    base = 10 ** 6
    for i in range(nrand):
        scns.append({"id": base + i, "mode": "random", "rseed": ctx.seed * 1000003 + i,
                     "n": rnd.randint(1, 5), "want": rnd.randint(1, 3), "retries": rnd.randint(0, 3),
                     "disk": rnd.random() < 0.6, "ro": rnd.randint(0, 2), "steps": []})
    by_id = {s["id"]: s for s in scns}
    # RUN
    ov = ctx.harness_overlay(pkg, "harness/C11_keepclient")
    events, out = ctx.go_run_driver(pkg, ov, "TestVerifC11$", scns, timeout=1500)
    traces = vlib.split_traces(events)
    ctx.evaluations = len(traces)
    hangs = [t for t in traces if any(e["ev"] == "hang" for e in t)]
    if hangs:
        # the driver gave up waiting (overloaded machine, or the code stopped making requests): not judged
        if len(hangs) > max(3, len(traces) // 20):
            raise vlib.InfraError("%d of %d scenarios timed out in the driver" % (len(hangs), len(traces)))
        ctx.drift.append("%d scenario(s) were given up by the driver (no request and no return for 30 s) and are not "
                         "judged; first scn=%s" % (len(hangs), hangs[0][0].get("scn")))
        events = [e for t in traces if t not in hangs for e in t]
        traces = [t for t in traces if t not in hangs]
    unused = [t[0] for t in traces if t[0].get("unused_steps")]
    ctx.extra["scripts_abandoned"] = len(unused)
    if len(unused) > len(traces) // 50:
        ctx.drift.append("%d scenarios ended before all model steps were used (first scn=%s)"
                         % (len(unused), unused[0].get("scn")))
    if len(unused) > len(traces) // 2:
        raise vlib.InfraError("more than half of the scenarios could not be applied")
    # JUDGE
    ctx.judge(sd, "KeepPutTrace", "Judge_KeepPut.cfg", events, scenario_of=by_id)
    nontrivial = set()
    for t in traces:
        kinds = tuple((e["s"], e["k"]) for e in t if e["ev"] == "resp")
        if len(kinds) >= 2:
            nontrivial.add((t[0]["want"], t[0]["retries"], len(t[0]["writable"]), kinds))
    ctx.extra["distinct_nontrivial"] = len(nontrivial)
    ctx.extra["hang_traces"] = len(hangs)
    ctx.rule = ("scenarios = all paths of KeepPut.tla (which active upload completes next x outcome) within the "
                "Gen bounds, plus seeded random completion orders/outcomes over 1-5 writable services, want 1-3, "
                "retries 0-3, 11 outcome kinds; non-trivial = at least two responses; distinct by "
                "(want, retries, n, response sequence)")
    ctx.samples = [{"scenario": by_id.get(t[0].get("scn")), "trace": t} for t in traces[:2] + traces[-2:]]
    ctx.trusted_base = ["fake HTTPClient (gated responses)", "server numbering by the client's own rendezvous order",
                        "response-consumed signal = Close() of the response body"]
    ctx.assumptions = ["'slow response' is modelled as completion order only",
                       "a 200 response with an unreadable body is not generated"]


if __name__ == "__main__":
    vlib.main("C11", run)
