#!/usr/bin/env python3
"""Composed write-then-read executions (specs/keepclient/KeepE2E.tla) bound to BOTH real components:
the real keepclient.KeepClient (PutB, Get) over real HTTP against N real keepstore handlers with
Directory volumes, in one process (harness/C12_keepstore/e2e_real_driver_test.go), judged by
specs/keepclient/KeepE2ETrace.tla.  Called from checks/C12.py:

    import C12_e2e_real
    C12_e2e_real.run_part(ctx, scenarios)     # scenarios: dicts {id, n, want, wr, refuse, downs, rseed}

KeepE2E's refusal assumption holds for real keepstores: a keepstore whose only volume is read-only or
carries the "full" marker answers 503, which keepclient never retries; the driver prints the observed
statuses (recorded in ctx.extra["e2e_real_refusal_statuses"]).  No KeepE2EReal-specific operators were needed.
"""
import json
import os
import re
import sys

sys.path.insert(0, os.path.join(os.path.dirname(os.path.abspath(__file__)), "..", "lib"))
import vlib  # noqa

PKG = "services/keepstore"
SD = "specs/keepclient"


def run_part(ctx, scenarios, max_scenarios=None, timeout=1800):
    """RUN + JUDGE for the given KeepE2E scenarios. Returns the number of traces recorded."""
    scns = list(scenarios)
    if max_scenarios is not None and len(scns) > max_scenarios:
        import random
        random.Random(ctx.seed).shuffle(scns)
        scns = scns[:max_scenarios]
    for s in scns:
        s.setdefault("rseed", ctx.seed)
        for k in ("wr", "refuse", "downs"):
            s[k] = sorted(s.get(k) or [])
    ov = ctx.harness_overlay(PKG, "harness/C12_keepstore")
    events, out = ctx.go_run_driver(PKG, ov, "TestVerifC12E2EReal$", scns, timeout=timeout)
    traces = vlib.split_traces(events)
    if len(traces) != len(scns):
        raise vlib.InfraError("e2e-real driver recorded %d traces for %d scenarios" % (len(traces), len(scns)))
    m = re.search(r"VERIF-E2EREAL-REFUSALS (\{.*\})", out)
    if m:
        ctx.extra["e2e_real_refusal_statuses"] = json.loads(m.group(1))
    ctx.extra["e2e_real_traces"] = len(traces)
    # the judge reads only ev/n/want/wr/refuse/downs/ok/holders/askedw/seq; drop the rest (objects with
    # numeric-looking keys are of no use to TLC)
    keep = ("ev", "scn", "n", "want", "wr", "refuse", "downs", "ok", "holders", "askedw", "seq")
    slim = [{k: v for k, v in e.items() if k in keep} for e in events]
    # growth of the specification beyond C12's statement: rejections are drift (see checks/C12.py)
    ctx.judge_as_drift("e2e_real_keepstores", SD, "KeepE2ETrace", "Judge_KeepE2E.cfg", slim,
                       scenario_of={s["id"]: s for s in scns}, max_rejects=8)
    return len(traces)


def _selftest():
    """Standalone: the scenarios of MC_KeepE2E.cfg plus 300 random ones with n <= 8 (no evidence written)."""
    import random
    import time
    ctx = vlib.Ctx("C12")
    rnd = random.Random(ctx.seed)
    e2e, _ = ctx.gen(SD, "KeepE2E", "MC_KeepE2E.cfg", timeout=1800, label="composed write/read configurations")
    for i, s in enumerate(e2e):
        s["id"] = 5 * 10 ** 6 + i
        s["rseed"] = ctx.seed
    for i in range(300):
        n = rnd.randint(1, 8)
        wr = [x for x in range(1, n + 1) if rnd.random() < 0.8]
        e2e.append({"id": 6 * 10 ** 6 + i, "n": n, "want": rnd.randint(1, 3), "wr": wr,
                    "refuse": [x for x in wr if rnd.random() < 0.3],
                    "downs": [x for x in range(1, n + 1) if rnd.random() < 0.3], "rseed": ctx.seed * 13 + i})
    t = time.time()
    n = run_part(ctx, e2e)
    print("e2e-real: %d traces, accepted %d, violations %d, refusals %s, RUN+JUDGE %.1fs"
          % (n, ctx.traces_validated, len(ctx.violations), ctx.extra.get("e2e_real_refusal_statuses"), time.time() - t))
    for v in ctx.violations[:3]:
        print("VIOLATION", v["replay"], v["what"][:300])
    sys.exit(1 if ctx.violations else 0)


if __name__ == "__main__":
    _selftest()
