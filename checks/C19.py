#!/usr/bin/env python3
"""C19 - A user's token secret never leaves the cluster unsalted.

GEN   specs/federation/TokenSalt.tla   MC_TokenSalt.cfg (decision table of SaltToken, saltedTokenProvider,
                                       Handler.saltAuthToken, keepstore remoteClient stays within
                                       TokenSaltContract outside the two known defects)
                                       Gen_TokenSalt.cfg (every site x token classes x placements, 1-2 tokens)
RUN   harness/C19_auth        SaltToken
      harness/C19_federation  saltedTokenProvider behind rpc.Conn -> recording HTTP server
      harness/C19_controller  legacy handler stack -> remoteClusterRequest -> saltAuthToken -> proxy.Do
                              -> recording HTTP server (fake api_client_authorizations database)
      harness/C19_keepstore   remoteProxy.Get -> remoteClient (client built through service discovery on the first
                              fetch, reused on the second) -> recording API server + keep service of the remote
JUDGE specs/federation/TokenSaltTrace.tla  (TokenSaltContract)

Second part: ONE request context served at several destinations (remote R1, remote R2, local, fan-out by PDH)
GEN   specs/federation/TokenSeq.tla      Gen_TokenSeq.cfg (1-2 tokens x plans of 2-3 destinations)
RUN   harness/C19_federation/provseq_driver_test.go  (real federation.Conn, two rpc.Conn remotes with
                                          saltedTokenProvider, recording servers, recording local stub)
JUDGE specs/federation/TokenSeqTrace.tla  (TokenSeqContract: salted for THAT destination, never a token salted for
                                          another cluster, the context's credentials unchanged)
"""
import concurrent.futures
import os
import random
import subprocess
import sys
import time

sys.path.insert(0, os.path.join(os.path.dirname(os.path.abspath(__file__)), "..", "lib"))
import vlib  # noqa
import C20_route  # noqa  (per-object routing traces; their salting clause is C19's statement)

PAM = {"lib/controller/localdb/login_pam.go": "harness/stubs/login_pam_stub.go"}
SITES = {
    "salt": ("sdk/go/auth", "harness/C19_auth", "TestVerifC19Salt$", None),
    "provider": ("lib/controller/federation", "harness/C19_federation", "TestVerifC19Provider$", PAM),
    "legacy": ("lib/controller", "harness/C19_controller", "TestVerifC19Legacy$", PAM),
    "keepstore": ("services/keepstore", "harness/C19_keepstore", "TestVerifC19Keepstore$", None),
}
PROTECTED = {"v2s39", "v2s41", "v2s50", "v2extra", "legLocal"}
CLASSES = ["v2s39", "v2s41", "v2s50", "v2extra", "v2non40", "saltR", "saltX", "saltH",
           "legLocal", "legRemote", "legUnknown", "opaque"]


def random_scenario(rnd, sid):
    """Three tokens in one request (beyond the model's two)."""
    site = rnd.choice(["provider", "legacy", "legacy"])
    if site == "provider":
        toks = [{"c": rnd.choice(CLASSES), "p": "ctx"} for _ in range(3)]
    else:
        pls = [rnd.choice(["oauth2", "bearer", "basic"]), "cookie", "form", "query", "query"]
        rnd.shuffle(pls)
        toks = [{"c": rnd.choice(CLASSES), "p": p} for p in pls[:3]]
    return {"id": sid, "site": site, "toks": toks, "origin": "random"}


def run_driver(ctx, pkg, ovpath, test, scns, tag):
    """go_run_driver of vlib for one site, safe to call from several threads (own file names)."""
    sp = os.path.join(ctx.scratch, "c19scn-%s.ndjson" % tag)
    tp = os.path.join(ctx.scratch, "c19trace-%s.ndjson" % tag)
    vlib.write_ndjson(sp, scns)
    e = dict(os.environ)
    e.update(vlib.GOENV)
    e.update({"VERIF_SEED": str(ctx.seed), "VERIF_TIER": ctx.tier, "VERIF_SCRATCH": ctx.scratch,
              "VERIF_SCENARIOS": sp, "VERIF_TRACES": tp})
    cmd = ["go", "test", "-tags", "verif", "-overlay", ovpath, "-vet=off", "-count=1", "-v", "-run", test,
           "-timeout", "1500s", "./" + pkg]
    t = time.time()
    try:
        p = subprocess.run(cmd, cwd=vlib.REPO, env=e, stdout=subprocess.PIPE, stderr=subprocess.STDOUT,
                           timeout=1700, text=True, errors="replace")
    except subprocess.TimeoutExpired:
        raise vlib.InfraError("go test timeout on %s %s" % (pkg, test))
    ctx.log("go test %s -run %s: rc=%d in %.1fs" % (pkg, test, p.returncode, time.time() - t))
    if "VERIF-DRIVER-DONE" not in p.stdout or not os.path.exists(tp):
        raise vlib.InfraError("driver %s %s did not complete (rc=%d):\n%s"
                              % (pkg, test, p.returncode, "\n".join(p.stdout.splitlines()[-60:])))
    return vlib.read_ndjson(tp)


def leak_class(scn, ev):
    """Input/observation class of a forwarded request, for known-finding matching: which protected tokens
    had their secret seen, and was it only where KF-C19-1 (form token -> body) / KF-C19-2 (cookie token ->
    Cookie header) put it."""
    kinds = set()
    for tok, o in zip(scn["toks"], ev.get("obs", [])):
        if tok["c"] not in PROTECTED or not o.get("where"):
            continue
        if tok["p"] == "form" and o["where"] == ["body"]:
            kinds.add("form_body")
        elif tok["p"] == "cookie" and o["where"] == ["header:cookie"]:
            kinds.add("token_cookie")
        else:
            return "other"
    return "+".join(sorted(kinds)) or "none"


def common_copies_identical():
    base = None
    for d in ("C19_auth", "C19_federation", "C19_controller", "C19_keepstore"):
        src = open(os.path.join(vlib.VERIF, "harness", d, "c19_common_test.go")).read()
        src = "\n".join(ln for ln in src.splitlines() if not ln.startswith("package "))
        if base is None:
            base = src
        elif src != base:
            return False
    return True


def run(ctx):
    sd = "specs/federation"
    rnd = random.Random(ctx.seed)
    if not common_copies_identical():
        raise vlib.InfraError("harness/C19_*/c19_common_test.go copies differ")
    mc = (lambda *a, **k: None) if os.environ.get("VERIF_DEV_SKIP_MC") else ctx.tlc   # development aid only
    if ctx.thorough:
        mc(sd, "TokenSalt", "MC_TokenSalt.cfg", timeout=900, extra=["-coverage", "1"],
           label="decision table within the contract outside KF_form/KF_cookie; every scenario decided (liveness)")
    # the Gen configuration checks the same invariants (TypeOK, Decided, Covered) on the complete table
    got, r = ctx.gen(sd, "TokenSalt", "Gen_TokenSalt.cfg", timeout=900,
                     label="scenario emission + table within the contract outside KF_form/KF_cookie, every row decided")
    ctx.extra["scenarios_emitted"] = len(got)
    ctx.exhaustive = True      # the finite table of classes x placements x sites is enumerated completely
    scns = []
    reps = 6 if ctx.thorough else 1          # concretisations (token strings, request shapes) per table row
    # one scenario per table row; a row may have two outcomes in the model (DecideCrash)
    rows = {}
    for s in got:
        key = (s["site"], tuple((t["c"], t["p"]) for t in s["toks"]))
        if key in rows:
            rows[key]["expect_any"].append(list(s["expect"]))
        else:
            s["expect_any"] = [list(s["expect"])]
            rows[key] = s
    got = list(rows.values())
    ctx.extra["table_rows"] = len(got)
    for rep in range(reps):
        for s in got:
            s = dict(s)
            s["id"] = len(scns) + 1
            s["origin"] = "model"
            s["rseed"] = ctx.seed * 31 + rep
            scns.append(s)
    base = 10 ** 6
    for i in range(3000 if ctx.thorough else 600):
        s = random_scenario(rnd, base + i)
        s["rseed"] = ctx.seed * 31
        scns.append(s)
    by_id = {s["id"]: s for s in scns}
    # RUN: the four drivers side by side (overlays are prepared first, sequentially)
    jobs = []
    for site, (pkg, hdir, test, extra) in SITES.items():
        mine = [s for s in scns if s["site"] == site]
        jobs.append((pkg, ctx.overlay(ctx.harness_overlay(pkg, hdir, extra=extra)), test, mine, site))
    with concurrent.futures.ThreadPoolExecutor(max_workers=4) as ex:
        futs = [ex.submit(run_driver, ctx, *j) for j in jobs]
        events = [ev for f in futs for ev in f.result()]
    for t in vlib.split_traces(events):
        for ev in t[1:]:
            if ev["ev"] == "forward":
                ev["leakclass"] = leak_class(by_id[t[0]["scn"]], ev)
    # second part: one request context, several destinations
    if ctx.thorough:
        mc(sd, "TokenSeq", "MC_TokenSeq.cfg", timeout=900, label="one context, 2-3 destinations: within TokenSeqContract, terminates")
    seqgot, r = ctx.gen(sd, "TokenSeq", "Gen_TokenSeq.cfg", timeout=900,
                        label="scenario emission (one context, several destinations) + invariants")
    ctx.extra["provseq_scenarios_emitted"] = len(seqgot)
    rnd.shuffle(seqgot)
    seqscns = []
    for s in seqgot[:None if ctx.thorough else 900]:
        s["id"] = 5 * base + len(seqscns)
        s["rseed"] = ctx.seed * 31
        seqscns.append(s)
    ov = ctx.harness_overlay("lib/controller/federation", "harness/C19_federation", extra=PAM)
    seqevents, out = ctx.go_run_driver("lib/controller/federation", ov, "TestVerifC19ProvSeq$", seqscns, timeout=1500)
    seq_by_id = {s["id"]: s for s in seqscns}
    ctx.judge(sd, "TokenSeqTrace", "Judge_TokenSalt.cfg", seqevents, scenario_of=seq_by_id, timeout=1200,
              max_rejects=25 if ctx.thorough else 6)
    ctx.extra["provseq_traces"] = len(vlib.split_traces(seqevents))
    # implementation-level observations, not in the statement: drift
    nctx = sum(1 for e in seqevents if e["ev"] == "end" and not e["ctxsame"])
    nloc = sum(1 for e in seqevents if e["ev"] == "deliver" and e["dest"] == "local" and any(o["foreign"] for o in e["obs"]))
    if nctx:
        ctx.drift.append("%d requests: the context's credentials were modified by serving a destination" % nctx)
    if nloc:
        ctx.drift.append("%d deliveries to the local cluster carried a token salted for a remote" % nloc)
    # third part: every routed API method of federation.Conn (FedRoute.tla); judged here is only what a remote sees
    # of the caller's token (FedRouteSaltTrace); the routing itself is judged, as drift, under checks/C20.py
    nroute = C20_route.salt_part(ctx)
    traces = vlib.split_traces(events)
    ctx.evaluations = len(traces) + ctx.extra["provseq_traces"] + nroute
    # impl-model prediction vs. recorded outcome (drift only)
    form_of = lambda o: ("both" if o["salted"] and o["same"] else "salted" if o["salted"] else
                         "same" if o["same"] else "dropped")
    nd = 0
    for t in traces:
        s = by_id.get(t[0]["scn"])
        if not s or s.get("origin") != "model" or len(t) < 2:
            continue
        e = t[1]
        if e["ev"] == "refuse":
            got_out = ["refuse"]
        elif e["ev"] == "salt":
            got_out = [e["r"]]
        else:
            got_out = [form_of(o) for o in e["obs"]]
            if s["site"] == "keepstore" and got_out == ["dropped"]:
                got_out = ["refuse"]    # only the token-less service discovery reached the remote
            # an already salted token is its own "salted form"
            got_out = ["same" if g == "both" and tk["c"] in ("saltR", "saltX", "saltH") else g
                       for g, tk in zip(got_out, s["toks"])]
        exp = s["expect_any"]
        if got_out not in exp:
            nd += 1
            if nd <= 3:
                ctx.drift.append("TokenSalt.tla predicted %s, code did %s (scn %s site %s toks %s)"
                                 % (exp, got_out, s["id"], s["site"], s["toks"]))
    if nd:
        ctx.drift.append("%d scenarios differ from the decision table" % nd)
    # JUDGE.  Requests that fall into the recorded known findings (a protected token in a form body or in
    # the token cookie of a request to the legacy site): ALL of them are judged by the contract with the
    # narrow waiver of TokenSaltContract.AllowedW (so nothing else can hide in them), and a seeded sample
    # also by the contract proper (re-confirms KF-C19-1/2 on every run).
    def kf_kind(s):
        if s["site"] != "legacy":
            return None
        kinds = sorted(set(t["p"] for t in s["toks"] if t["p"] in ("form", "cookie") and t["c"] in PROTECTED))
        return ",".join(kinds) or None
    strict, sample, waived, sample_count = [], [], [], {}
    order = list(range(len(traces)))
    rnd.shuffle(order)
    in_sample = set()
    for i in order:
        k = kf_kind(by_id[traces[i][0]["scn"]])
        if k and sample_count.get(k, 0) < (6 if ctx.thorough else 2):
            sample_count[k] = sample_count.get(k, 0) + 1
            in_sample.add(i)
    for i, t in enumerate(traces):
        k = kf_kind(by_id[t[0]["scn"]])
        if k:
            waived.extend(t)             # every KF-class trace, the sample included
            if i in in_sample:
                sample.extend(t)
        else:
            strict.extend(t)
    ctx.extra["kf_sample_judged_strictly"] = len(in_sample)
    ctx.extra["kf_traces_judged_with_waiver"] = len(vlib.split_traces(waived))
    ctx.judge(sd, "TokenSaltTrace", "Judge_TokenSalt.cfg", strict, scenario_of=by_id, timeout=1800, max_rejects=10)
    if sample:
        ctx.judge(sd, "TokenSaltTrace", "Judge_TokenSalt.cfg", sample, scenario_of=by_id, timeout=600,
                  max_rejects=len(in_sample) + 1)
    if waived:
        # whatever the waiver spec still rejects is a VIOLATION: its rejections are never matched against the
        # known findings (those apply to the strict judge's rejections only)
        saved_kf, ctx.kf = ctx.kf, []
        try:
            ctx.judge(sd, "TokenSaltTraceKF", "Judge_TokenSalt.cfg", waived, scenario_of=by_id, timeout=1800,
                      max_rejects=10)
        finally:
            ctx.kf = saved_kf
    nontrivial = set()
    for t in traces:
        if len(t) >= 2:
            h = t[0]
            nontrivial.add((h["site"], tuple((x["c"], x["p"]) for x in h["toks"])))
    ctx.extra["distinct_nontrivial"] = len(nontrivial)
    ctx.extra["forwarded"] = sum(1 for t in traces if len(t) > 1 and t[1]["ev"] == "forward")
    ctx.extra["refused"] = sum(1 for t in traces if len(t) > 1 and t[1]["ev"] == "refuse")
    ctx.rule = ("scenarios = every row of the decision table TokenSalt.tla: site (SaltToken, saltedTokenProvider, "
                "legacy saltAuthToken, keepstore remoteClient) x 1-2 tokens x 12 token classes x placements "
                "(Authorization OAuth2/Bearer/Basic, api_token query, form body, cookie), each concretised with "
                "several random token strings, plus random 3-token requests; distinct by (site, classes, placements)")
    fw = [t for t in traces if len(t) > 1 and t[1]["ev"] == "forward"]
    ctx.samples = [{"scenario": by_id.get(t[0].get("scn")), "trace": t} for t in fw[:2] + traces[-2:]]
    ctx.trusted_base = ["token concretiser (class -> token string)", "independent HMAC-SHA1 of the remote id",
                        "recording HTTP server + search of URL, header values, body (also base64 cookie/Basic and "
                        "percent-decoded forms) for the secret",
                        "fake api_client_authorizations database (database/sql driver)",
                        "stub local backend resolving legacy tokens", "pre-seeded keepclient for the remote cluster",
                        "pure-Go stub replacing localdb/login_pam.go (build only)"]
    ctx.assumptions = ["a 40-character non-hex secret and a legacy token unknown locally: nothing required",
                       "refusing to forward is always accepted",
                       "the legacy handlers are driven with workflow requests (GET, and POST with _method=GET)"]


if __name__ == "__main__":
    vlib.main("C19", run)
