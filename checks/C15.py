#!/usr/bin/env python3
"""C15 - Every runnable container reaches a final state; idle instances are released.

GEN   specs/dispatch/Dispatch.tla   MC_Dispatch_live*.cfg: LiveSpec (fairness, no state constraint):
                                    Converges, Released, NotStuck, BrokenGoes
RUN   harness/C14_dispatchcloud     real dispatcher + worker.Pool + stub cloud: randomised fault schedules,
                                    cancels/holds, operator hold/drain, one dispatcher restart per run
      harness/C15_dispatchcloud     scripted Executors against the real worker.Pool: deterministic regression
                                    scenarios for the two pool crashes found earlier (KF-C15-1, KF-C15-2, both fixed)
JUDGE specs/dispatch/DispatchLiveTrace.tla (DispatchLiveContract: bounded liveness at a deadline >= 100 x the
                                    fault-free completion time measured in the same run)
"""
import importlib.util
import os
import random
import sys

sys.path.insert(0, os.path.join(os.path.dirname(os.path.abspath(__file__)), "..", "lib"))
import vlib  # noqa

SD = "specs/dispatch"


def _c14():
    spec = importlib.util.spec_from_file_location("vC14", os.path.join(os.path.dirname(os.path.abspath(__file__)), "C14.py"))
    m = importlib.util.module_from_spec(spec)
    spec.loader.exec_module(m)
    return m


def run(ctx):
    rnd = random.Random(ctx.seed * 7919 + 15)
    ctx.tlc(SD, "Dispatch", "MC_Dispatch_live.cfg", timeout=1800,
            label="liveness 1 x 1, crash + cancel/hold: Converges, Released, NotStuck under Fairness")
    if ctx.thorough:
        ctx.tlc(SD, "Dispatch", "MC_Dispatch_live2.cfg", timeout=3000,
                label="liveness 1 x 1, restart + StaleLockTimeout + crash + unresponsive VM: + BrokenGoes")
    if ctx.thorough:
        ctx.tlc(SD, "Dispatch", "MC_Dispatch_live3.cfg", timeout=3000,
                label="liveness 1 x 1, two faults on one instance (operator drain, then deaf / reports broken) + crash")
    # scenarios: one calm calibration run first, then faulty runs
    scns = [{"id": 1, "n": 30, "prios": 5, "rseed": rnd.randrange(1 << 30), "faults": False, "calm": True, "deadlinefactor": 100}]
    nfaulty = 8 if ctx.thorough else 3
    for i in range(nfaulty):
        n = rnd.choice([20, 50, 100, 200, 350, 500]) if ctx.thorough else rnd.choice([20, 40, 60, 80])
        scns.append({"id": 2 + i, "n": n, "prios": rnd.choice([1, 5, 20]), "rseed": rnd.randrange(1 << 30), "faults": True,
                     "errdestroy": rnd.choice([0.0, 0.1, 0.3, 0.5]), "crashrate": rnd.choice([0.05, 0.1, 0.3, 0.6]),
                     "deadlockrate": rnd.choice([0.0, 0.1, 0.3]), "cancels": rnd.randint(0, 6), "holds": rnd.randint(0, 4),
                     "ibops": rnd.randint(0, 4), "restart": rnd.random() < 0.8, "stalems": 3000,
                     "execms": rnd.choice([0, 5, 20]), "deadlinefactor": 100})
    # targeted schedules: instances vanish under Running containers; every second Destroy fails
    scns.append({"id": 50, "n": 12, "prios": 2, "rseed": rnd.randrange(1 << 30), "faults": False, "breakfirst": 6,
                 "stalems": 3000, "deadlinefactor": 100})
    scns.append({"id": 51, "n": 20, "prios": 3, "rseed": rnd.randrange(1 << 30), "faults": False, "errdestroy": 0.5,
                 "stalems": 3000, "deadlinefactor": 100})
    # the cloud's list call is rate limited (every other list fails), Destroy fails half of the time, one restart
    scns.append({"id": 52, "n": 30, "prios": 3, "rseed": rnd.randrange(1 << 30), "faults": False, "errdestroy": 0.5,
                 "listlimitms": 15, "restart": True, "stalems": 3000, "deadlinefactor": 100})
    # instances are scarce (create rate limit) and the first two start reporting "broken" while they are busy
    scns.append({"id": 53, "n": 40, "prios": 2, "rseed": rnd.randrange(1 << 30), "faults": False, "onetype": True,
                 "createlimitms": 250, "reportbroken": 2, "reportbrokenms": 200, "execms": 60, "stalems": 3000,
                 "deadlinefactor": 100})
    # the cloud answers the first Create call with a quota error, then has capacity; one container per instance type
    scns.append({"id": 54, "n": 3, "prios": 1, "rseed": rnd.randrange(1 << 30), "faults": False, "quotafirst": 1,
                 "stalems": 3000, "deadlinefactor": 100})
    # two faults on one instance: drained by the operator while busy, then deaf
    scns.append({"id": 55, "n": 8, "prios": 2, "rseed": rnd.randrange(1 << 30), "faults": False, "onetype": True, "draindeaf": 3,
                 "stalems": 3000, "deadlinefactor": 100})
    # the same fault-free run once more at the end: a machine that has become much slower during the
    # check makes the deadlines meaningless
    scns.append(dict(scns[0], id=99))
    by_id = {s["id"]: s for s in scns}
    events = _c14().run_e2e(ctx, scns)
    # regression scenarios for KF-C15-1 / KF-C15-2 (both fixed): scripted Executors against the real worker.Pool, no timing
    pkg = "lib/dispatchcloud"
    rev, rout = ctx.go_run_driver(pkg, _c14().e2e_overlay(ctx), "TestVerifC15Repro$", [], timeout=900)
    rev = _c14().drop_infra(ctx, rev, "regression")
    if "VERIF-NOTE" in rout:
        ctx.drift.append("a scripted regression scenario (KF-C15-1/2) could not be applied")
    by_id[9001] = {"id": 9001, "repro": "KF-C15-1: probe reaps a runner whose Start() has not returned yet"}
    by_id[9002] = {"id": 9002, "repro": "KF-C15-2: host key callback after the instance left the pool"}
    events += rev
    traces = vlib.split_traces(events)
    finals = [t[-1] for t in traces if t[-1]["ev"] == "final"]
    calm = [f for f in finals if f.get("calm")]
    if not calm:
        raise vlib.InfraError("the fault-free calibration run did not finish")
    if len(calm) > 1 and calm[-1]["elapsed_ms"] > 3 * max(calm[0]["elapsed_ms"], 1000):
        raise vlib.InfraError("machine slowed down during the check: the fault-free run took %d ms at the beginning and %d ms "
                              "at the end; deadline-based judgement disabled" % (calm[0]["elapsed_ms"], calm[-1]["elapsed_ms"]))
    if calm[0]["elapsed_ms"] > 30000 or any(f["timedout"] for f in calm):
        raise vlib.InfraError("machine too slow: the fault-free run of 30 containers took %d ms; deadline-based "
                              "judgement disabled" % calm[0]["elapsed_ms"])
    ctx.judge(SD, "DispatchLiveTrace", "Judge_DispatchLive.cfg", events, scenario_of=by_id, timeout=900)
    ctx.evaluations = len(traces)
    ctx.extra["finals"] = finals
    ctx.extra["runs_crashed"] = sum(1 for t in traces if t[-1]["ev"] == "crashed")
    ctx.extra["containers"] = sum(s["n"] for s in scns)
    ctx.extra["distinct_nontrivial"] = sum(1 for f in finals if not f.get("calm"))
    ctx.extra["calibration_ms"] = calm[0]["elapsed_ms"]
    ctx.samples = [{"scenario": by_id[t[0]["scn"]], "trace": [e for e in t if e["ev"] in ("reset", "restart", "setib", "final", "crashed")][:20]}
                   for t in traces[:4]]
    ctx.exhaustive = False
    ctx.rule = ("model: all fair behaviours of Dispatch.tla (LiveSpec) for 1 container x 1-2 instances with crash, cancel/hold, "
                "restart, StaleLockTimeout, unresponsive VM; real code: seeded random fault schedules of the stub cloud (per-VM "
                "boot delay, broken-after time, missing crunch-run, report-broken time, crash / arv-mount deadlock rates, "
                "destroy error rate), user cancels / holds, operator hold / drain and a dispatcher restart at random moments, "
                "20-500 containers; non-trivial = a faulty run judged at its end")
    ctx.trusted_base = ["end-to-end driver (shared with C14): drain detection reads the API truth (test.Queue.Containers) and "
                        "the cloud's instance list", "test.StubDriver / test.Queue (repository test support)"]
    ctx.assumptions = ["liveness beyond the wall-clock bound is a model-level result under the fairness / timing assumptions "
                       "stated in Dispatch.tla (TimeoutIdle and TimeoutBooting longer than the scheduler / a working VM needs)",
                       "deadline = max(60 s, 100 x fault-free completion time of the same run); a run that is over the "
                       "deadline with work left is a violation, a calibration run slower than 30 s is exit 2",
                       "operator holds are released at Quiesce (held instances are never shut down by design)"]


if __name__ == "__main__":
    vlib.main("C15", run)
