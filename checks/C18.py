#!/usr/bin/env python3
"""C18 - Federated collection fetches are verified and only signatures are rewritten.

GEN   specs/federation/FedFetch.tla   MC_FedFetch.cfg (refinement of FedFetchContract, what reaches `first`
                                      passed the hash check, errchan capacity, termination)
                                      Gen_FedFetch.cfg (every plan of local + <=3 remotes x every answer order)
RUN   harness/C18_federation/fetch_driver_test.go  (real Conn.CollectionGet / tryLocalThenRemotes /
                                      rewriteManifest, gated stub backends, generated manifests, tamperings)
      harness/C18_controller/legacy_fetch_driver_test.go  (legacy path: real handler stack ->
                                      fetchRemoteCollectionByPDH/ByUUID -> rewriteSignatures, gated HTTP servers
                                      as local Rails API and remote clusters; FedFetch.tla with Variant = "legacy")
JUDGE specs/federation/FedFetchTrace.tla           (FedFetchContract, both paths)
"""
import os
import random
import sys

sys.path.insert(0, os.path.join(os.path.dirname(os.path.abspath(__file__)), "..", "lib"))
import vlib  # noqa
import fedlib  # noqa

PAM = {"lib/controller/localdb/login_pam.go": "harness/stubs/login_pam_stub.go"}
PLANS = ["match", "mismatch", "s404", "s5xx", "hang"]


def random_scenario(rnd, sid, seed):
    """Same format as the model's scenarios, beyond its bounds: 4 remotes, local hangs, early cancels."""
    n = rnd.randint(1, 4)
    mode = "pdh" if rnd.random() < 0.85 else "uuid"
    plan = [rnd.choice(PLANS) for _ in range(5)]
    if mode == "pdh" and rnd.random() < 0.8:
        plan[0] = "s404"
    for b in range(n + 1, 5):
        plan[b] = "s404"
    home = rnd.randint(0, n) if mode == "uuid" else 0
    steps = []
    if mode == "uuid":
        steps.append({"b": home, "k": plan[home]})
    else:
        steps.append({"b": 0, "k": plan[0]})
        order = list(range(1, n + 1))
        rnd.shuffle(order)
        steps += [{"b": b, "k": plan[b]} for b in order if plan[b] != "hang"]
    if rnd.random() < 0.1:
        steps.insert(rnd.randint(0, len(steps)), {"b": -1, "k": "cancel"})
    return dict(id=sid, n=n, mode=mode, home=home, plan=plan, steps=steps, rseed=seed * 1000003 + sid,
                req=rnd.choice(["exact"] * 5 + ["hints", "hints", "hexoff", "len"]), origin="random")


def common_copies_identical():
    srcs = []
    for d in ("C18_federation", "C18_controller"):
        src = open(os.path.join(vlib.VERIF, "harness", d, "c18_common_test.go")).read()
        srcs.append("\n".join(ln for ln in src.splitlines() if not ln.startswith("package ")))
    return srcs[0] == srcs[1]


def legacy_stage(ctx, sd, rnd, mc):
    """The legacy path lib/controller/fed_collections.go, same contract."""
    pkg = "lib/controller"
    if ctx.thorough:
        mc(sd, "FedFetch", "MC_FedFetch_legacy.cfg", timeout=2400,
           label="legacy variant, exhaustive: refinement, FirstIsHonest, ChanFits, termination")
    got, r = ctx.gen(sd, "FedFetch", "Gen_FedFetch_legacy.cfg", timeout=2400,
                     label="scenario emission (legacy variant) + invariants/refinement on every emitted path")
    ctx.extra["legacy_scenarios_emitted"] = len(got)
    scns = []
    base = 3 * 10 ** 6
    for rep in range(3 if ctx.thorough else 1):
        for s in got:
            s = dict(s)
            s["id"] = base + len(scns) + 1
            s["origin"] = "model"
            s["path"] = "legacy"
            s["rseed"] = ctx.seed * 11 + rep
            s["req"] = ["exact", "exact", "hexoff", "exact", "len"][(s["id"] + rep + ctx.seed) % 5]
            scns.append(s)
    if not ctx.thorough:
        # quick tier: a seeded sample (HTTP round trips are slow); the thorough tier runs all, three times
        rnd.shuffle(scns)
        scns = scns[:1000]
    for i in range(4000 if ctx.thorough else 250):
        s = random_scenario(rnd, base + 500000 + i, ctx.seed)
        s["path"] = "legacy"
        s["steps"] = [st for st in s["steps"] if st["k"] != "cancel"]     # no early cancels over HTTP (see driver)
        if s["req"] == "hints":
            s["req"] = "exact"              # a hash with hints is not a legacy by-PDH request (regexp), goes to Rails
        s["seq"] = rnd.random() < 0.3      # MaxRequestAmplification = 1: sequential remote requests
        if s["mode"] == "uuid" and s["home"] == 0:
            s["home"] = 1                   # a local UUID is not handled by the legacy federation code
            s["steps"] = [{"b": 1, "k": s["plan"][1]}]
        scns.append(s)
    scns.append(dict(id=base + 900000, n=1, mode="uuid", home=1, plan=["s404", "match", "s404", "s404", "s404"],
                     steps=[{"b": 1, "k": "match"}], rseed=ctx.seed, req="exact", origin="crafted", craft="loc_eol",
                     path="legacy"))
    # regression scenario for KF-C18-2 (repaired by 139e9e0): a remote sends the honest manifest without its
    # final newline; it must be refused, not normalised
    scns.append(dict(id=base + 900001, n=2, mode="pdh", home=0, plan=["s404", "match", "s404", "s404", "s404"],
                     steps=[{"b": 0, "k": "s404"}, {"b": 2, "k": "s404"}, {"b": 1, "k": "match"}], rseed=ctx.seed,
                     req="exact", origin="crafted", craft="no_final_newline", path="legacy"))
    for s in scns:
        s["mm"] = "empty" if s["id"] % 4 == 0 else "tamper"
    ov = ctx.harness_overlay(pkg, "harness/C18_controller", extra=PAM)
    events, out = ctx.go_run_driver(pkg, ov, "TestVerifC18Legacy$", scns, timeout=1500)
    return scns, events


def run(ctx):
    sd = "specs/federation"
    pkg = "lib/controller/federation"
    rnd = random.Random(ctx.seed)
    if not common_copies_identical():
        raise vlib.InfraError("harness/C18_*/c18_common_test.go copies differ")
    mc = (lambda *a, **k: None) if os.environ.get("VERIF_DEV_SKIP_MC") else ctx.tlc   # development aid only
    mc(sd, "FedFetch", "MC_FedFetch_big.cfg" if ctx.thorough else "MC_FedFetch.cfg", timeout=2400,
       extra=["-coverage", "1"] if ctx.thorough else [],
       label="exhaustive: refinement, FirstIsHonest, ChanFits, termination")
    got, r = ctx.gen(sd, "FedFetch", "Gen_FedFetch.cfg", timeout=2400,
                     label="scenario emission + invariants/refinement on every emitted path")
    ctx.extra["scenarios_emitted"] = len(got)
    scns = []
    reps = 4 if ctx.thorough else 1
    for rep in range(reps):
        for s in got:
            s = dict(s)
            s["id"] = len(scns) + 1
            s["origin"] = "model"
            s["rseed"] = ctx.seed * 7 + rep
            # requested hash: mostly the honest one (with or without hints), sometimes one that
            # no manifest sent can match
            s["req"] = ["exact", "hints", "exact", "hexoff", "exact", "len", "hints"][(s["id"] + rep + ctx.seed) % 7]
            scns.append(s)
    nrand = 8000 if ctx.thorough else 800
    base = 10 ** 6
    for i in range(nrand):
        scns.append(random_scenario(rnd, base + i, ctx.seed))
    # two crafted by-UUID fetches: regression scenarios for KF-C18-1 (repaired by 145376f; a block locator
    # at the end of a line followed by a stream whose name contains "+A")
    for i in range(2):
        scns.append(dict(id=2 * base + i, n=1 + i, mode="uuid", home=1, plan=["s404", "mismatch", "s404", "s404", "s404"],
                         steps=[{"b": 1, "k": "mismatch"}], rseed=ctx.seed, req="exact", origin="crafted",
                         craft="loc_eol"))
    for s in scns:
        s["mm"] = "empty" if s["id"] % 4 == 0 else "tamper"      # what a "mismatch" answer is made of
    by_id = {s["id"]: s for s in scns}
    ov = ctx.harness_overlay(pkg, "harness/C18_federation", extra=PAM)
    events, out = ctx.go_run_driver(pkg, ov, "TestVerifC18$", scns, timeout=1500, race=ctx.thorough)
    lscns, levents = legacy_stage(ctx, sd, rnd, mc)
    scns += lscns
    by_id.update({s["id"]: s for s in lscns})
    events += levents
    ctx.extra["legacy_traces"] = len(vlib.split_traces(levents))
    events = fedlib.drop_infra_traces(ctx, events, "fetch")
    traces = vlib.split_traces(events)
    ctx.evaluations = len(traces)
    # impl-model prediction vs. real outcome, where what was really sent is what the model planned
    # (a "mismatch" whose tampering only touched hints still hashes to the requested value)
    nd = nu = 0
    for t in traces:
        s = by_id.get(t[0].get("scn"))
        d = [e for e in t if e["ev"] == "done"]
        if s and s["origin"] == "model" and s["req"] in ("exact", "hints") and d:
            planned = {e["b"]: e["k"] for e in t if e["ev"] == "answer"}
            same = all(s["plan"][b] == k or k == "cancelled" for b, k in planned.items())
            if same and t[0].get("unused_steps"):
                nu += 1
            if same and ("ok" if d[0]["ok"] else "err") != s["expect"]:
                nd += 1
                if nd <= 3:
                    ctx.drift.append("FedFetch.tla predicted %s, code returned ok=%s (scn %s)" % (s["expect"], d[0]["ok"], s["id"]))
    if nu:
        ctx.drift.append("%d model scenarios ended before all steps were used" % nu)
    ctx.judge(sd, "FedFetchTrace", "Judge_FedFetch.cfg", events, scenario_of=by_id, timeout=2400,
              max_rejects=25 if ctx.thorough else 6)
    nontrivial = set()
    nrew = 0
    for t in traces:
        answers = tuple((e["b"], e["k"]) for e in t if e["ev"] == "answer")
        d = [e for e in t if e["ev"] == "done"]
        if len(answers) >= 2 and d:
            nontrivial.add((t[0].get("path", "conn"), t[0]["n"], t[0]["mode"], t[0].get("req"), answers, d[0]["ok"]))
        if d and d[0]["ok"] and any(d[0]["rel"][1:]):
            nrew += 1
    ctx.extra["distinct_nontrivial"] = len(nontrivial)
    ctx.extra["remote_manifests_relayed"] = nrew
    ctx.extra["hang_traces"] = sum(1 for t in traces if any(e["ev"] == "hang" for e in t))
    ctx.rule = ("scenarios = all paths of FedFetch.tla (plan of local + <=3 remotes over match/mismatch/404/5xx/hang x "
                "order of answers x client cancel when stuck), each with a generated manifest (signed, unsigned, "
                "multiply hinted locators, awkward names), a tampering (or, in a quarter of the scenarios, an empty manifest text) for every mismatch, and a requested hash "
                "variant; plus seeded random scenarios with up to 4 remotes and early cancels; non-trivial = at "
                "least two backend answers; distinct by (n, mode, request variant, answer sequence, outcome)")
    ctx.samples = [{"scenario": by_id.get(t[0].get("scn")), "trace": t}
                   for t in traces[:1] + traces[len(traces) // 3:len(traces) // 3 + 1] + traces[-2:]]
    ctx.trusted_base = ["gated stub backends", "gated HTTP servers as Rails API / remote clusters (legacy path)", "manifest generator and single-token tamperings",
                        "independent portable-data-hash (line/field tokenizer)",
                        "token-wise only-signatures-rewritten relation",
                        "pure-Go stub replacing localdb/login_pam.go (build only)"]
    ctx.assumptions = ["manifests sent by honest backends are well formed (every stream has a file token)",
                       "a token 'hash+size' followed directly by junk without '+' is not generated (the Go and "
                       "Rails hash definitions disagree on it)",
                       "hang = no answer until the context is cancelled; the client cancels only when nothing "
                       "else can happen (model) or at a random point (random scenarios)",
                       "legacy path: honest backends send only manifests rewriteSignatures can digest (every hinted "
                       "locator has exactly one +A hint): it hashes any other token verbatim, so an honest manifest "
                       "with a hinted but unsigned locator, or with two +A hints, is refused with 502 (fail-safe; such "
                       "manifests are not what a Rails API returns to a reader); no early client cancel over HTTP; "
                       "a requested hash with hints is not a legacy by-PDH request",
                       "the local cluster's own answer may be handed over unverified (legacy path does that); the "
                       "statement speaks about collections fetched from a remote cluster"]


if __name__ == "__main__":
    vlib.main("C18", run)
