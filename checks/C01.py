#!/usr/bin/env python3
"""C01 - keepstore never serves or accepts a block whose content mismatches its hash.

GEN   specs/keepstore/KeepHandlers.tla   MC_C01_KeepHandlers.cfg  (handler loops refine KeepstoreContract;
                                         design invariants; termination) for EVERY configuration of
                                         1-3 volumes x ro/rw/full x 7 copy classes x round-robin position
                                         x {get, head, put+get, put+head, badput+get} x {non-empty, empty} hash
                                         Gen_C01_KeepHandlers.cfg (one scenario per configuration)
RUN   harness/C01_keepstore/c01_driver_test.go  (real Directory volumes, handler.setup/MakeRESTRouter behind
                                         an httptest.Server; seeded concretisation of sizes/corruptions)
JUDGE specs/keepstore/KeepstoreContractTrace.tla (KeepstoreContract)
"""
import json
import os
import random
import re
import sys

sys.path.insert(0, os.path.join(os.path.dirname(os.path.abspath(__file__)), "..", "lib"))
import vlib  # noqa

OPS_OF = {"get": ["get"], "head": ["head"], "putget": ["put", "get"], "puthead": ["put", "head"],
          "putbadget": ["putbad", "get"]}
CLASSES = ["absent", "intact", "flip", "trunc", "ext", "subst", "empty"]
CLASSES_EMPTY = ["absent", "intact", "ext", "subst"]
SMALL = [1, 2, 3, 17, 511, 4096, 5000]
BOUNDARY = [2 ** 18 - 1, 2 ** 18, 2 ** 18 + 1, 2 ** 20 - 1, 2 ** 20, 2 ** 20 + 1]
BLOCKSIZE = 64 * 1024 * 1024


def pick_size(rnd, p_boundary):
    if rnd.random() < p_boundary:
        return rnd.choice(BOUNDARY)
    if rnd.random() < 0.3:
        return rnd.randint(1, 9000)
    return rnd.choice(SMALL)


def norm(cls, emptyh):
    if cls == "intact" or (emptyh and cls == "empty"):
        return "intact"
    return "absent" if cls == "absent" else "other"


def abstract_key(trace):
    """The part of a trace the contract reads (everything else is concretisation detail)."""
    h = trace[0]
    out = [("reset", h["nvol"], tuple(h["ro"]), tuple(h["copy"]), h["emptyh"])]
    for e in trace[1:]:
        if e["ev"] == "corrupt":
            out.append(("corrupt", e["v"], e["kind"]))
        elif e["ev"] in ("get", "head"):
            out.append((e["ev"], e["status"], e["bodyok"], e["lenok"], tuple(e["post"])))
        elif e["ev"] == "put":
            out.append(("put", e["bodyok"], e["status"], tuple(e["post"])))
        else:
            out.append((e["ev"], json.dumps(e, sort_keys=True)))
    return tuple(out)


def run(ctx):
    sd = "specs/keepstore"
    pkg = "services/keepstore"
    rnd = random.Random(ctx.seed)
    # GEN: design-level check, exhaustive over the whole configuration space
    mc = ctx.tlc(sd, "KeepHandlers", "MC_C01_KeepHandlers.cfg", timeout=1500,
            label="exhaustive: handler loops refine the contract; design invariants; termination",
            extra=["-coverage", "1"] if ctx.thorough else [])
    if ctx.thorough:   # -coverage 1: actions of the model that were never taken would make the check vacuous
        ctx.extra["vacuous_actions"] = re.findall(r"^<(\w+) line [^>]*>: 0:0", mc.out, re.M)
    gen, r = ctx.gen(sd, "KeepHandlers", "Gen_C01_KeepHandlers.cfg", timeout=1500, label="scenario emission")
    if len(gen) < 1000:
        raise vlib.InfraError("Gen emitted only %d scenarios" % len(gen))
    gen.sort(key=lambda s: json.dumps(s, sort_keys=True))
    ctx.extra["scenarios_emitted"] = len(gen)
    if not ctx.thorough:
        # quick tier: every configuration of 1-2 volumes and a seeded sample of the 3-volume read and
        # PUT configurations (the thorough tier replays all of them)
        keep = [g for g in gen if g["n"] <= 2]
        reads = [g for g in gen if g["n"] > 2 and g["kind"] in ("get", "head")]
        puts = [g for g in gen if g["n"] > 2 and g["kind"] not in ("get", "head")]
        rnd.shuffle(reads)
        rnd.shuffle(puts)
        gen = keep + reads[:3000] + puts[:3000]
    ctx.extra["scenarios_replayed"] = len(gen)
    scns = []
    conc = 2 if ctx.thorough else 1
    p_boundary = 0.12 if ctx.thorough else 0.04
    nid = 0
    for k in range(conc):
        for g in gen:
            nid += 1
            s = dict(g)
            s["gen_id"] = g["id"]
            s["id"] = nid
            s["mode"] = "gen"
            s["ops"] = [{"op": o, "v": 0, "kind": ""} for o in OPS_OF[g["kind"]]]
            s["size"] = 0 if g["emptyh"] else pick_size(rnd, p_boundary)
            s["cseed"] = k
            scns.append(s)
    ctx.extra["concretisations"] = conc
    # random request sequences beyond the model's bounds (longer, harness corruptions in between,
    # up to 4 volumes)
    nrand = 4000 if ctx.thorough else 600
    for i in range(nrand):
        nid += 1
        n = rnd.choice([1, 2, 2, 3, 3, 3, 4])
        emptyh = rnd.random() < 0.15
        cl = CLASSES_EMPTY if emptyh else CLASSES
        ro = [rnd.random() < 0.3 for _ in range(n)]
        full = [(not ro[v]) and rnd.random() < 0.25 for v in range(n)]
        ops = []
        for _ in range(rnd.randint(3, 10)):
            o = rnd.choice(["get", "head", "put", "putbad", "corrupt", "corrupt", "get"])
            if o == "corrupt":
                ops.append({"op": o, "v": rnd.randint(1, n), "kind": rnd.choice(cl)})
            else:
                ops.append({"op": o, "v": 0, "kind": ""})
        ops.append({"op": rnd.choice(["get", "head"]), "v": 0, "kind": ""})
        scns.append({"id": nid, "mode": "random", "n": n, "ro": ro, "full": full,
                     "copy": [rnd.choice(cl) for _ in range(n)], "emptyh": emptyh,
                     "rr": rnd.randint(0, 3), "ops": ops,
                     "size": 0 if emptyh else pick_size(rnd, 0.1), "cseed": i})
    if ctx.thorough:
        # one-block-sized blocks (64 MiB, and 64 MiB - 1): "ext" makes the file longer than BlockSize
        big = [
            (2, [False, False], ["ext", "intact"], "get"), (2, [True, False], ["flip", "intact"], "head"),
            (1, [False], ["trunc"], "putget"), (1, [False], ["ext"], "putget"),
            (2, [False, True], ["subst", "absent"], "putbadget"), (1, [False], ["intact"], "get"),
            (2, [False, False], ["ext", "flip"], "get"),
        ]
        for j, (n, ro, cp, kind) in enumerate(big):
            nid += 1
            scns.append({"id": nid, "mode": "big", "n": n, "ro": ro, "full": [False] * n, "copy": cp,
                         "emptyh": False, "rr": 0, "ops": [{"op": o, "v": 0, "kind": ""} for o in OPS_OF[kind]],
                         "size": BLOCKSIZE - (j % 2), "cseed": j})
    by_id = {s["id"]: s for s in scns}
    # RUN
    ov = ctx.harness_overlay(pkg, "harness/C01_keepstore")
    events, out = ctx.go_run_driver(pkg, ov, "TestVerifC01$", scns, timeout=3000,
                                    env={"VERIF_C01_WORKERS": os.environ.get("VERIF_C01_WORKERS", "8" if ctx.thorough else "6")})
    traces = vlib.split_traces(events)
    if len(traces) != len(scns):
        raise vlib.InfraError("driver recorded %d traces for %d scenarios" % (len(traces), len(scns)))
    # a client transport error (no reply, and no panic of the keepstore handler) is not an observation
    # of keepstore: such traces are dropped and counted, never judged
    infra = [t for t in traces if any(e["ev"] == "infra" for e in t)]
    traces = [t for t in traces if not any(e["ev"] == "infra" for e in t)]
    ctx.extra["traces_dropped_transport_error"] = len(infra)
    if len(infra) > 5:
        raise vlib.InfraError("%d scenarios hit a client transport error (first: %s)"
                              % (len(infra), [e for e in infra[0] if e["ev"] == "infra"][0].get("why")))
    ctx.evaluations = len(traces)
    # drift: model's predicted replies / final files vs what the code did (never a verdict)
    ndrift = 0
    for t in traces:
        s = by_id.get(t[0]["scn"])
        if not s or s.get("mode") != "gen":
            continue
        got = [e["status"] for e in t[1:] if e["ev"] in ("get", "head", "put")]
        fin = [norm(c, s["emptyh"]) for c in t[-1].get("post", [])]
        if got != s["expect"] or fin != [norm(c, s["emptyh"]) for c in s["final"]]:
            ndrift += 1
            if ndrift <= 3:
                ctx.drift.append("KeepHandlers.tla predicts replies %s final %s, code gave %s %s (scenario %s)"
                                 % (s["expect"], s["final"], got, t[-1].get("post"),
                                    json.dumps({k: s[k] for k in ("n", "ro", "full", "copy", "emptyh", "rr", "kind")})))
    if ndrift > 3:
        ctx.drift.append("... %d scenarios in total differ from the model's prediction" % ndrift)
    ctx.extra["drift_scenarios"] = ndrift
    # JUDGE: one representative per distinct abstract trace (the contract reads nothing else)
    reps = {}
    mult = {}
    for t in traces:
        k = abstract_key(t)
        if k not in reps:
            reps[k] = t
            mult[k] = 0
        mult[k] += 1
    flat = [e for t in reps.values() for e in t]
    before = len(ctx.violations) + len(ctx.known_seen)
    ctx.judge(sd, "KeepstoreContractTrace", "Judge_C01.cfg", flat, scenario_of=by_id, timeout=1500, max_rejects=6)
    if len(ctx.violations) + len(ctx.known_seen) == before:
        ctx.traces_validated += len(traces) - len(reps)
    ctx.extra["distinct_abstract_traces_judged"] = len(reps)
    nontrivial = set()
    for k in reps:
        corrupt = any(c not in ("absent", "intact") for c in k[0][3]) or any(e[0] == "corrupt" for e in k[1:])
        if corrupt:
            nontrivial.add(k)
    ctx.extra["distinct_nontrivial"] = len(nontrivial)
    ctx.exhaustive = ctx.thorough   # quick samples the 3-volume configurations
    ctx.rule = ("scenarios = every configuration enumerated by KeepHandlers.tla (1-3 volumes x read-only/writable/"
                "full x copy classes {absent,intact,flip,trunc,ext,subst,empty} x round-robin position x "
                "{get, head, put+get, put+head, bad put+get} x non-empty/empty hash; the quick tier replays all 1-2 "
                "volume configurations and seeded samples of 3000 3-volume read and 3000 3-volume PUT "
                "configurations, the thorough tier all of them), each replayed on real "
                "Directory volumes under %d seeded concretisation(s), plus seeded random request sequences "
                "(1-4 volumes, harness corruptions between requests); traces identical in every field the "
                "contract reads are judged once; non-trivial = a corrupt copy is present at some point; "
                "distinct by abstract trace" % conc)
    ctx.samples = [{"scenario": by_id.get(t[0].get("scn")), "trace": t} for t in traces[:2] + traces[-2:]]
    ctx.trusted_base = ["concretiser: content classes -> bytes on disk (bit flip, truncation, extension, other block)",
                        "abstraction: crypto/md5 of received body, Content-Length comparison, reading files back",
                        "volume order/ro flags read back through VolumeManager.AllReadable()",
                        "net/http client and httptest.Server"]
    ctx.assumptions = ["block contents are classes under seeded concretisation, not all byte strings",
                       "Directory volumes only; quiescent server, one request at a time",
                       "MD5 collisions (CollisionError path) are not generated",
                       "exhaustive = the abstract configuration space of the model, not all byte contents"]


if __name__ == "__main__":
    vlib.main("C01", run)
