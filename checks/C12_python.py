#!/usr/bin/env python3
"""C12, Python client part: binds sdk/python/arvados/keep.py (KeepClient.weighted_service_roots) to
specs/keepclient/RendezvousContract.tla through specs/keepclient/RendezvousPy.tla.

Called from checks/C12.py after the Go run:   import C12_python; n = C12_python.run_part(ctx, traces)
`traces` are the traces of harness/C12_keepclient (reset{ref, writable, hints, uuids, hash, size, ids}, read, write,
change{ref, writable, ids}, ...): the Python client is put into the SAME concrete configuration (same service uuids,
block hash, hint list, writable set, added/removed service) by harness/C12_python/rdv_py_driver.py (a child
process; the real keep.py is loaded under stub modules for future / pycurl / apiclient / arvados.util), and what it
reports as probe order for reading and for writing is judged by TLC (RendezvousPy: PyRead / PyWrite = the clauses
of Read / Write).  Returns the number of executions judged.
"""
import os
import subprocess
import sys

sys.path.insert(0, os.path.join(os.path.dirname(os.path.abspath(__file__)), "..", "lib"))
import vlib  # noqa

SIG = "+A0123456789abcdef0123456789abcdef01234567@ffffffff"   # keep.py insists on a 40-digit hex signature
UNKNOWN_GW = "zzzzz-bi6l4-nosuchgateway00"                      # 27 characters, the uuid of no known service


def locator_of(reset):
    """The locator the Go driver used (harness/C12_keepclient/rdv_driver_test.go), rebuilt from the abstract hints."""
    loc = "%s+%d" % (reset["hash"], reset["size"])
    for i, h in enumerate(reset["hints"]):
        if h == 0 and i % 2 == 0:
            loc += "+K@" + UNKNOWN_GW
        elif h == 0:
            loc += "+K@abcdefgh"                  # neither 5 nor 27 characters
        elif h >= 100:
            loc += "+K@abcd%d" % (h - 100)
        else:
            loc += "+K@" + reset["uuids"][str(h)]
    return loc + SIG


def run_part(ctx, traces, sdkdir=None, max_scenarios=None):
    sd = "specs/keepclient"
    sdkdir = sdkdir or os.path.join(vlib.REPO, "sdk/python/arvados")
    scns, heads = [], {}
    for t in traces:
        r = t[0]
        if r.get("skipped") or "uuids" not in r:
            continue
        phases = [{"ids": r["ids"], "writable": r["writable"]}]
        phases += [{"ids": e["ids"], "writable": e["writable"]} for e in t if e["ev"] == "change"]
        scns.append({"id": r["scn"], "locator": locator_of(r), "uuids": r["uuids"], "phases": phases, "rseed": ctx.seed})
        heads[r["scn"]] = t
        if max_scenarios and len(scns) >= max_scenarios:
            break
    sp = os.path.join(ctx.scratch, "c12py_scn.ndjson")
    tp = os.path.join(ctx.scratch, "c12py_trace.ndjson")
    vlib.write_ndjson(sp, scns)
    cmd = [sys.executable, os.path.join(vlib.VERIF, "harness/C12_python/rdv_py_driver.py"), sdkdir, sp, tp]
    try:
        p = subprocess.run(cmd, stdout=subprocess.PIPE, stderr=subprocess.STDOUT, text=True, timeout=1500)
    except subprocess.TimeoutExpired:
        raise vlib.InfraError("C12 python driver timed out")
    if p.returncode != 0 or "VERIF-DRIVER-DONE" not in p.stdout:
        raise vlib.InfraError("C12 python driver failed (rc=%d):\n%s" % (p.returncode, p.stdout[-3000:]))
    py = {}
    for ev in vlib.read_ndjson(tp):
        if ev["ev"] == "pyreset":
            cur = py.setdefault(ev["scn"], {})
        else:
            cur.setdefault(ev.get("phase", 0), []).append(ev)
    merged = []
    for scn in scns:
        t = heads[scn["id"]]
        phase = 0
        merged.append({k: v for k, v in t[0].items() if k != "uuids"})
        merged += [{k: v for k, v in e.items() if k != "phase"} for e in py.get(scn["id"], {}).get(0, [])]
        for e in t[1:]:
            if e["ev"] == "change":
                phase += 1
                merged.append(e)
                merged += [{k: v for k, v in x.items() if k != "phase"} for x in py.get(scn["id"], {}).get(phase, [])]
    # C12's statement names the Go client; the Python client is growth of the spec: rejections are drift
    ctx.judge_as_drift("python_client", sd, "RendezvousPy", "Judge_RendezvousPy.cfg", merged,
              scenario_of=lambda head: {"scn": head.get("scn"), "codec": "python keep.py"})
    ctx.extra["python_client_traces"] = len(scns)
    ctx.trusted_base.append("python driver: stub modules for future/pycurl/apiclient/arvados.util (is_hex taken verbatim), "
                            "fake api_client.keep_services().accessible(); locator rebuilt from the abstract hints")
    return len(scns)
