#!/usr/bin/env python3
"""C08 - a collection filesystem behaves like an ordinary in-memory filesystem.

GEN   specs/collfs/CollFSFlush.tla MC_CollFSFlush_C08*.cfg: implementation-shaped model of filenode.Write /
                                   truncate / seek / Read / flush over a segment list; refines the byte-array
                                   contract (content == concatenation of segments) for every block size
      specs/collfs/CollFSGen.tla   Gen_CollFS_C08*.cfg: TLC explores the CollFS contract itself over a tiny
                                   world and emits the shortest call sequence to every distinct state
RUN   harness/C08_arvados/collfs_driver_test.go   real CollectionFileSystem, fake Keep; TLC call sequences
                                   under several block sizes / flush placements + long seeded random sequences
JUDGE specs/collfs/CollFSTrace.tla (CollFS contract), every event carries arguments and results
"""
import os
import random
import sys

sys.path.insert(0, os.path.join(os.path.dirname(os.path.abspath(__file__)), "..", "lib"))
import vlib  # noqa

SD = "specs/collfs"
PKG = "sdk/go/arvados"
# VERIF_SKIP_MC=1 skips the (repo-independent) exhaustive model checking stage; meant for mutation
# experiments on the code, where only RUN + JUDGE can change.
SKIP_MC = os.environ.get("VERIF_SKIP_MC") == "1"
FLUSHES = ["none", "flushall", "flushlong", "flushdir", "marshal", "sync", "mixed"]
NAMES = ["a", "b", "d"]
PATHS = [[n] for n in NAMES] + [[m, n] for m in ("a", "d") for n in NAMES]


def tiny_op(rnd):
    """One call from the alphabet of CollFSGen.tla (any call: failing and observing ones included)."""
    k = rnd.choice(["open", "open", "write", "read", "seek", "trunc", "mkdir", "rename", "rename", "remove",
                    "removeall", "stat", "readdir", "size", "close"])
    h = rnd.randint(1, 2)
    if k == "open":
        acc = rnd.choice(["r", "w", "rw"])
        return {"op": "open", "h": h, "p": rnd.choice(PATHS), "acc": acc, "cr": rnd.random() < 0.5,
                "ex": rnd.random() < 0.25, "tr": rnd.random() < 0.25, "ap": rnd.random() < 0.25}
    if k == "write":
        return {"op": "write", "h": h, "d": rnd.choice(["", "x", "yx", "xyy"])}
    if k == "read":
        return {"op": "read", "h": h, "n": rnd.randint(0, 3)}
    if k == "seek":
        return {"op": "seek", "h": h, "off": rnd.randint(0, 3), "wh": rnd.randint(0, 2)}   # (never to a negative offset)
    if k == "trunc":
        return {"op": "trunc", "h": h, "n": rnd.randint(0, 4)}
    if k in ("size", "close"):
        return {"op": k, "h": h}
    if k == "rename":
        return {"op": "rename", "p": rnd.choice(PATHS), "q": rnd.choice(PATHS)}
    if k in ("stat", "readdir"):
        return {"op": k, "p": rnd.choice(PATHS + [[]])}
    return {"op": k, "p": rnd.choice(PATHS)}


def derive(trace, offset):
    """Facts about a rejected trace that known-finding matches may refer to (vlib.kf_matches only
    compares values, so the predicates are computed here): the last API call before the rejected
    event and two specific shapes."""
    prev = None
    for e in trace[:max(0, offset - 1)][::-1]:
        if e.get("ev") not in ("snap", "flush", "reset", "save", "putb"):
            prev = e
            break
    d = {"prev_call": prev or {}, "self_rename_of_file": False}
    # C13 directory schedules: did an entry-adding call and Remove of its target directory both succeed?
    calls = [e for e in trace if e.get("ev") == "call" and e.get("w", 0) > 0]
    d["into_dir_and_remove_both_ok"] = bool(
        len(calls) == 2 and all(c.get("ok") for c in calls)
        and any(c.get("op") == "remove" for c in calls)
        and any(c.get("op") in ("rename", "mkdir", "open") and (c.get("q") or c.get("p"))[:-1] == r.get("p")
                for c in calls for r in calls if r.get("op") == "remove"))
    if prev and prev.get("ev") == "rename" and prev.get("ok") and prev.get("p") == prev.get("q"):
        # was p a regular file in the last snapshot before the call?
        idx = trace.index(prev)
        for e in trace[:idx][::-1]:
            if e.get("ev") == "snap":
                d["self_rename_of_file"] = any(x[0] == prev["p"] and x[1] == "f" for x in e["ents"])
                break
    return d


def install_classifier(ctx):
    """ctx.classify with a 'derived' section added to the subject handed to the known-finding
    matcher (vlib has no hook for derived predicates; reported to the coordinator)."""
    import json as _json

    def classify(rj, scenario_of=None):
        t = rj["trace"]
        head = t[0]
        scn = None
        if scenario_of is not None:
            scn = scenario_of(head) if callable(scenario_of) else scenario_of.get(head.get("scn"))
        ev = t[rj["offset"] - 1] if 0 < rj["offset"] <= len(t) else None
        subject = {"scenario": scn, "reset": head, "rejected_event": ev, "why": rj["why"], "trace": t,
                   "derived": derive(t, rj["offset"])}
        for k in ctx.kf:
            if k.get("status") == "known" and vlib.kf_matches(k.get("match", {}), subject):
                ctx.known_seen.append((k["id"], k.get("what", "")))
                return
        ctx.add_violation("contract rejected trace at event %d (%s): %s; previous call: %s"
                          % (rj["offset"], rj["why"], _json.dumps(ev)[:300],
                             _json.dumps(subject["derived"]["prev_call"])[:300]), subject)
    ctx.classify = classify


def judge_fast(ctx, specdirs, module, cfg, events, scenario_of=None, timeout=900, max_rejects=6, env=None):
    """Like vlib.Ctx.judge, but after a rejection only the traces AFTER the rejected one are judged
    again (every trace before the first unconsumable line was consumed completely: a reset event
    is always enabled), so a change that breaks many traces does not cost rejections x all traces.
    (vlib.judge re-reads everything; reported to the coordinator.)"""
    import os as _os
    traces = vlib.split_traces(events)
    total = len(traces)
    rejected = []
    pos = 0
    while pos < len(traces):
        flat = [ev for t in traces[pos:] for ev in t]
        ctx.nrun += 1
        tp = _os.path.join(ctx.scratch, "judge%d.ndjson" % ctx.nrun)
        vlib.write_ndjson(tp, flat)
        e = dict(env or {})
        e["VERIF_TRACE"] = tp
        r = ctx.tlc(specdirs, module, cfg, env=e, workers=1, timeout=timeout, count=False,
                    must_pass=False, dfs=True)
        if r.ok:
            break
        line, why = vlib.judge_rejection(r, len(flat))
        if line is None:
            raise vlib.InfraError("judge %s/%s failed without a rejection point (rc=%d):\n%s"
                                  % (module, cfg, r.rc, r.tail(60)))
        n = 0
        idx = None
        for i in range(pos, len(traces)):
            if n < line <= n + len(traces[i]):
                idx, off = i, line - n
                break
            n += len(traces[i])
        if idx is None:
            raise vlib.InfraError("judge: rejected line %d outside trace file (%d lines)" % (line, len(flat)))
        rejected.append({"trace": traces[idx], "offset": off, "why": why})
        pos = idx + 1
        if len(rejected) >= max_rejects:
            ctx.log("judge: %d rejections, not examining the remaining %d traces" % (len(rejected), len(traces) - pos))
            total -= len(traces) - pos
            break
    ctx.traces_validated += total - len(rejected)
    for rj in rejected:
        ctx.classify(rj, scenario_of)
    return total - len(rejected)


def run_driver(ctx, pkg, overlay_map, run, scenarios, env=None, **kw):
    """ctx.go_run_driver, except that a CRASH of the test process that is provably a panic raised in
    the code under test is turned into a one-event trace {"ev":"panic"} for the scenario announced
    last ("VERIF-SCN <id>" on stderr), which no contract has an action for.  Provably = the output
    has a line `panic: ...` that is not the test timeout, followed by the stack of the panicking
    goroutine whose first frame outside the Go runtime / standard library lies in a source file of
    the package itself (not in the injected zz_verif_* harness).  Everything else - `go test`
    timeout, `fatal error:` (out of memory, concurrent map writes, all goroutines asleep), a panic
    in the harness, a killed process - is an infrastructure error (exit 2), never a verdict: a
    deadlock or hang has to be recorded by the driver's own watchdog events."""
    import os as _os
    import re as _re
    ctx.nrun += 1
    sp = _os.path.join(ctx.scratch, "scn%d.ndjson" % ctx.nrun)
    tp = _os.path.join(ctx.scratch, "trace%d.ndjson" % ctx.nrun)
    vlib.write_ndjson(sp, scenarios)
    e = dict(env or {})
    e["VERIF_SCENARIOS"] = sp
    e["VERIF_TRACES"] = tp
    rc, out = ctx.go_test(pkg, overlay_map, run, env=e, **kw)
    if "VERIF-DRIVER-DONE" in out and _os.path.exists(tp):
        return vlib.read_ndjson(tp), out
    lines = out.splitlines()
    scn = None
    for i, ln in enumerate(lines):
        m = _re.match(r"VERIF-SCN (\d+)", ln)
        if m:
            scn = int(m.group(1))
        if ln.startswith("panic: ") and "test timed out" not in ln and scn:
            # the panicking goroutine is the first one printed after the message
            j = i + 1
            while j < len(lines) and not lines[j].startswith("goroutine "):
                j += 1
            frames = []
            for x in lines[j + 1:j + 120]:
                if x.startswith("goroutine ") or not x.strip():
                    break
                if x.startswith("\t") or x.startswith("        /") or x.strip().startswith("/"):
                    frames.append(x.strip().split(" ")[0])
            own = [f for f in frames if "/src/runtime/" not in f and "/src/testing/" not in f
                   and not _re.search(r"/go[-0-9.]*/src/", f)]
            top = own[0] if own else ""
            if top and "/sdk/go/arvados/" in top and "zz_verif_" not in top:
                ctx.log("driver process crashed by a panic in the code under test (%s at %s), scenario %s" % (ln[:120], top, scn))
                return [{"ev": "reset", "scn": scn, "nodes": [{"k": "d", "e": {}}], "crash": True},
                        {"ev": "panic", "what": ln[:300], "at": top, "stack": "\n".join(lines[i:i + 30])[:2000]}], out
            break
    raise vlib.InfraError("driver %s %s did not complete (rc=%d):\n%s" % (pkg, run, rc, "\n".join(lines[-60:])))


def infra_events(ctx, traces, save_hang_ok=False):
    """Watchdog and walker events that say nothing about the property: a `hang` (a call that did not
    return, goroutine parked for minutes) where the statement has no termination clause, and the
    snapshot walker's depth guard.  They are infrastructure errors (exit 2).  With save_hang_ok
    (C09) one case is left to the contract: a SAVE that does not return although Keep writes
    failed before it ("a later save can still succeed"); earlier hang events of such a trace are
    dropped so that the contract rejects exactly the save.
    The error is DEFERRED: the trace is cut before the event and the message returned, so that the
    other traces (and the prefix of this one) are still judged; the caller raises the InfraError
    after judging only if no violation was found (a violation elsewhere in the run stands on its own).
    """
    msg = None
    for t in traces:
        for i, e in enumerate(t):
            # a panic recovered inside the driver process counts against the code only if the stack
            # attributes it to the code under test (harness code runs under the same recover())
            if e["ev"] == "panic" and not e.get("incode", False) and not t[0].get("crash"):
                msg = msg or ("a panic recovered by the driver was not raised in the code under test (scenario %s: %s at %s)"
                              % (t[0].get("scn"), str(e.get("what"))[:200], e.get("at")))
                del t[i:]
                break
            if e["ev"] == "snap" and any(x[0] and x[0][-1] == "!toodeep" for x in e["ents"]):
                msg = msg or "snapshot walker hit its depth guard (scenario %s)" % t[0].get("scn")
                del t[i:]
                break
        hangs = [e for e in t if e["ev"] == "hang"]
        if not hangs:
            continue
        failed = any(e["ev"] == "putb" and not e["ok"] for e in t)
        if save_hang_ok and failed and any(h.get("op") == "save" for h in hangs):
            t[:] = [e for e in t if not (e["ev"] == "hang" and e.get("op") != "save")]
            continue
        msg = msg or ("a call did not return (scenario %s: %s); the statement has no termination clause for it"
                      % (t[0].get("scn"), hangs[0]))
        del t[t.index(hangs[0]):]
    return msg


def raise_deferred(ctx, msg):
    if msg and not ctx.violations:
        raise vlib.InfraError(msg)


def kf_scenarios(sid0, seed):
    """Regression scenarios for the two defects this check found (KF-C08-1, KF-C08-2, both fixed in
    /repo; known_findings.d/C08.json keeps them as "fixed", which suppresses nothing).  The general
    generators produce their triggers too (self-rename, zero-length tokens inside a block)."""
    o = lambda h, p, acc="rw", cr=True: {"op": "open", "h": h, "p": p, "acc": acc, "cr": cr, "ex": False,
                                         "tr": False, "ap": False}
    out = []
    # KF-C08-1: Rename(x, x) of a regular file deletes it
    for i, (bs, fl) in enumerate([(1, "none"), (2, "marshal"), (4, "flushall")]):
        out.append({"id": sid0 + i, "mode": "steps", "bs": bs, "flush": fl, "rseed": seed, "init": "empty",
                    "gen": "reg1", "ops": [o(1, ["a"]), {"op": "write", "h": 1, "d": "xy"},
                                          {"op": "rename", "p": ["a"], "q": ["a"]}, {"op": "stat", "p": ["a"]}]})
    # KF-C08-2: a zero-length file token inside a block leaves a zero-length segment; after the file
    # grows, reads at offset 0 report EOF
    for i, (bs, fl) in enumerate([(4, "none"), (64, "flushlong")]):
        out.append({"id": sid0 + 10 + i, "mode": "steps", "bs": bs, "flush": fl, "rseed": seed,
                    "init": "manifest_kf2", "gen": "reg2",
                    "ops": [o(1, ["b"], "w", False), {"op": "trunc", "h": 1, "n": 5}, {"op": "stat", "p": ["b"]}]})
    return out


def pattern_scenarios(sid0, seed, rnd):
    """Two LONG-LIVED handles on one file (the tiny TLC world has one handle slot): a reader seeks
    strictly beyond EOF and reads there, a writer appends at EOF through another handle until the
    file has grown past the reader's offset, the reader reads again without seeking (its cached
    position must have been invalidated or still be right).  Under every block size 1-4 and flush
    placement, with block-aligned and unaligned appends."""
    o = lambda h, p, acc="rw", cr=True, ap=False: {"op": "open", "h": h, "p": p, "acc": acc, "cr": cr, "ex": False,
                                                  "tr": False, "ap": ap}
    out = []
    i = 0
    for bs in (1, 2, 3, 4):
        for fl in FLUSHES:
            first = "".join(rnd.choice("xy") for _ in range(bs * rnd.randint(1, 2)))
            delta = rnd.randint(1, 2 * bs)
            grow = "".join(rnd.choice("abcdefgh") for _ in range(delta + rnd.randint(1, 2 * bs)))
            more = "".join(rnd.choice("klmnopq") for _ in range(bs * rnd.randint(1, 2)))
            ops = [o(1, ["a"]), {"op": "write", "h": 1, "d": first},
                   o(2, ["a"], "r", False), {"op": "seek", "h": 2, "off": len(first) + delta, "wh": 0},
                   {"op": "read", "h": 2, "n": 2},
                   {"op": "write", "h": 1, "d": grow}, {"op": "read", "h": 2, "n": 2},
                   {"op": "write", "h": 1, "d": more}, {"op": "read", "h": 2, "n": 3},
                   {"op": "trunc", "h": 1, "n": len(first) + len(grow) + len(more) + 2 * bs}, {"op": "read", "h": 2, "n": 64}]
            out.append({"id": sid0 + i, "mode": "steps", "bs": bs, "flush": fl, "rseed": seed + i, "init": "empty",
                        "gen": "pattern", "ops": ops})
            i += 1
    out += pending_flush_scenarios(sid0 + i, seed, rnd)
    return out


def pending_flush_scenarios(sid0, seed, rnd):
    """A call that happens while the block write of an asynchronous Flush is still PENDING (hold mode
    of the driver: background Keep writes return only after the next call): two small files packed
    into one block; then a pure Truncate GROW (no write afterwards), a shrink, an overwrite or an
    append of the first file; then the write completes and everything is read back."""
    o = lambda h, p: {"op": "open", "h": h, "p": p, "acc": "rw", "cr": True, "ex": False, "tr": False, "ap": False}
    out = []
    i = 0
    for bs in (8, 16, 64):
        for what in ("grow", "grow2", "shrink", "overwrite", "append"):
            la, lb = rnd.randint(1, bs // 2 - 1), rnd.randint(1, bs // 2 - 1)
            a = "".join(rnd.choice("ab") for _ in range(la))
            b = "".join(rnd.choice("xyz") for _ in range(lb))
            mid = {"grow": [{"op": "trunc", "h": 1, "n": la + rnd.randint(1, bs - la)}],
                   "grow2": [{"op": "trunc", "h": 1, "n": la + 1}, {"op": "flushnow", "d": "flushall"},
                             {"op": "trunc", "h": 1, "n": la + 2}],
                   "shrink": [{"op": "trunc", "h": 1, "n": rnd.randint(0, la - 1)}],
                   "overwrite": [{"op": "seek", "h": 1, "off": 0, "wh": 0}, {"op": "write", "h": 1, "d": "q"}],
                   "append": [{"op": "write", "h": 1, "d": "qq"}]}[what]
            ops = [o(1, ["a"]), {"op": "write", "h": 1, "d": a}, o(2, ["b"]), {"op": "write", "h": 2, "d": b},
                   {"op": "flushnow", "d": "flushall"}] + mid + [{"op": "stat", "p": ["a"]}, {"op": "stat", "p": ["b"]}]
            out.append({"id": sid0 + i, "mode": "steps", "bs": bs, "flush": "none", "rseed": seed + i, "init": "empty",
                        "gen": "pending", "hold": True, "ops": ops})
            i += 1
    return out


def boundary_scenarios(sid0, seed):
    """An overwrite that starts inside a STORED segment and ends exactly at that segment's end, then a
    positioned read that begins at the boundary through another handle (a zero-length segment left
    behind there makes such a read report EOF early while sequential reads skip it).  Stored segments
    of exactly `bs` bytes come from writing 3*bs bytes and saving before the overwrite."""
    o = lambda h, p, acc="rw", cr=True: {"op": "open", "h": h, "p": p, "acc": acc, "cr": cr, "ex": False,
                                         "tr": False, "ap": False}
    out = []
    i = 0
    for bs in (2, 3, 4):
        data = "abcdefghijkl"[:3 * bs]
        for k in (1, 2):                 # boundary at k*bs
            for j in range(1, bs):       # overwrite the last j bytes of segment k
                for fl in ("marshal", "sync"):
                    ops = [o(1, ["a"]), {"op": "write", "h": 1, "d": data}, {"op": "flushnow", "d": fl},
                           {"op": "seek", "h": 1, "off": k * bs - j, "wh": 0}, {"op": "write", "h": 1, "d": "XYZ"[:j]},
                           o(2, ["a"], "r", False), {"op": "seek", "h": 2, "off": k * bs, "wh": 0},
                           {"op": "read", "h": 2, "n": bs}, {"op": "seek", "h": 2, "off": k * bs - j, "wh": 0},
                           {"op": "read", "h": 2, "n": 2 * bs}, {"op": "stat", "p": ["a"]}]
                    out.append({"id": sid0 + i, "mode": "steps", "bs": bs, "flush": "none", "rseed": seed + i,
                                "init": "empty", "gen": "boundary", "ops": ops})
                    i += 1
    return out


def build_scenarios(ctx, paths, rnd):
    scns = []
    sid = 0
    # TLC call sequences: shortest path to every distinct contract state (+ seeded suffix), each under
    # several (block size, flush placement) pairs - the driver dimensions the contract cannot see
    ncombo = 3 if ctx.thorough else 2
    for p in paths:
        ops = list(p["ops"]) + [tiny_op(rnd) for _ in range(3)]
        for _ in range(ncombo):
            sid += 1
            scns.append({"id": sid, "mode": "steps", "ops": ops, "bs": rnd.choice([1, 1, 2, 2, 3, 4]),
                         "flush": rnd.choice(FLUSHES), "rseed": ctx.seed, "init": "empty", "gen": "tlc"})
    # long seeded random call sequences beyond the model's bounds
    nrand = 150 if ctx.thorough else 30
    nops = 400 if ctx.thorough else 200
    bss = [1, 2, 3, 4, 5, 7, 8, 13, 16, 31, 32, 64]
    for i in range(nrand):
        sid += 1
        scns.append({"id": sid, "mode": "random", "ops": [], "bs": bss[i % len(bss)],
                     "flush": FLUSHES[(i // len(bss) + i) % len(FLUSHES)], "rseed": ctx.seed * 7919 + i,
                     "nops": nops, "init": "manifest" if i % 2 else "empty", "gen": "random"})
        if scns[-1]["flush"] in ("flushall", "flushlong", "flushdir", "mixed") and i % 3 != 0:
            scns[-1]["hold"] = True       # background block writes stay pending across the next call
    # smoke run with the production block size limit (64 MiB)
    for i in range(4 if ctx.thorough else 2):
        sid += 1
        scns.append({"id": sid, "mode": "random", "ops": [], "bs": 0, "flush": FLUSHES[(i * 3 + 1) % len(FLUSHES)],
                     "rseed": ctx.seed * 104729 + i, "nops": 120, "init": "manifest" if i % 2 else "empty",
                     "gen": "smoke"})
    scns += kf_scenarios(sid + 1, ctx.seed)
    scns += pattern_scenarios(sid + 100, ctx.seed, rnd)
    scns += boundary_scenarios(sid + 400, ctx.seed)
    return scns


def run(ctx):
    rnd = random.Random(ctx.seed)
    # GEN (1): implementation-shaped segment model refines the byte-array contract
    if SKIP_MC:
        ctx.log("VERIF_SKIP_MC=1: model checking stage skipped")
    else:
        ctx.tlc(SD, "CollFSFlush", "MC_CollFSFlush_C08_big.cfg" if ctx.thorough else "MC_CollFSFlush_C08.cfg",
            timeout=1500, label="exhaustive: segment-list model of Write/truncate/seek/Read/prune/flush refines the byte-array contract")
    # GEN (2): the contract explored by TLC: one call sequence per distinct reachable state
    paths, r = ctx.gen(SD, "CollFSGen", "Gen_CollFS_C08_big.cfg" if ctx.thorough else "Gen_CollFS_C08.cfg",
                       timeout=1500,
                       label="contract state space (TreeOK, SizeOK) + call sequence emission")
    if len(paths) != r.distinct:
        ctx.drift.append("Gen emitted %d sequences for %d distinct states" % (len(paths), r.distinct))
    ctx.extra["contract_states_reached_by_tlc"] = len(paths)
    paths = [p for p in paths if p["ops"]]
    paths.sort(key=lambda p: (len(p["ops"]), repr(p["ops"])))
    limit = 8000 if ctx.thorough else 1000
    if len(paths) > limit:
        head = [p for p in paths if len(p["ops"]) <= 2]
        rest = [p for p in paths if len(p["ops"]) > 2]
        rnd.shuffle(rest)
        paths = head + rest[:max(0, limit - len(head))]
    scns = build_scenarios(ctx, paths, rnd)
    by_id = {s["id"]: s for s in scns}
    ctx.extra["scenarios"] = {"tlc_paths": len(paths), "total": len(scns)}
    # RUN
    ov = ctx.harness_overlay(PKG, "harness/C08_arvados")
    events, out = run_driver(ctx, PKG, ov, "TestVerifC08$", scns, timeout=2400)
    traces = vlib.split_traces(events)
    ctx.evaluations = len(traces)
    ctx.extra["events_judged"] = len(events)
    deferred = infra_events(ctx, traces)
    events = [e for t in traces for e in t]
    # JUDGE
    install_classifier(ctx)
    judge_fast(ctx, SD, "CollFSTrace", "Judge_CollFS_C08.cfg", events, scenario_of=by_id, timeout=2400)
    raise_deferred(ctx, deferred)
    nontrivial = set()
    calls = 0
    for t in traces:
        sig = []
        for e in t:
            if e["ev"] in ("reset", "snap", "flush"):
                continue
            calls += 1
            sig.append((e["ev"], e.get("ok", e.get("res")), len(e.get("d", ""))))
        if len(sig) >= 2:
            nontrivial.add((t[0].get("bs"), t[0].get("flush"), tuple(sig)))
    ctx.extra["distinct_nontrivial"] = len(nontrivial)
    ctx.extra["api_calls_judged"] = calls
    ctx.rule = ("scenarios = shortest call sequence to every distinct state of the CollFS contract over the tiny "
                "world (sampled in the quick tier) plus 3 seeded calls, each under several (block size, flush "
                "placement) pairs; plus long seeded random call sequences (block limits 1-64 and 64 MiB, up to 6 "
                "handles, empty or generated initial manifest); after every call the whole tree is re-read "
                "through fresh handles. non-trivial = at least two API calls; distinct by (block size, flush "
                "placement, sequence of (call, outcome, data length))")
    ctx.samples = [{"scenario": by_id.get(t[0].get("scn")), "trace": t[:12]} for t in traces[:2]]
    ctx.trusted_base = ["fake in-memory Keep (PutB/ReadAt/LocalLocator) that never fails",
                        "path/flag concretiser and byte abstraction ('.' = 0x00) in collfs_driver_test.go",
                        "snapshot walker (Readdir + read to EOF through fresh O_RDONLY handles)"]
    ctx.assumptions = ["only success/failure (and io.EOF) of a call is compared, not error identities",
                       "modification times, permissions, MemorySize and '..' paths are not modelled",
                       "outcomes the statement is silent on are accepted either way (list at the top of CollFS.tla)"]


if __name__ == "__main__":
    vlib.main("C08", run)
