#!/usr/bin/env python3
"""C12 - readers, writers and the balancer share one rendezvous probe order.

GEN   specs/keepclient/Rendezvous.tla   every configuration (service count, weight order, writable set, hint
                                        list, single add/remove) up to MaxN services; lemmas (permutation,
                                        the ideal sort satisfies the contract in every configuration)
RUN   harness/C12_keepclient  (real Get / PutB request order against a recording HTTPClient)
      harness/C12_keepbalance (real balanceBlock pull targets for desired = 1..n)
JUDGE specs/keepclient/RendezvousTrace.tla (RendezvousContract)
"""
import os
import random
import sys

sys.path.insert(0, os.path.join(os.path.dirname(os.path.abspath(__file__)), "..", "lib"))
import vlib  # noqa


def run(ctx):
    sd = "specs/keepclient"
    rnd = random.Random(ctx.seed)
    scns, r = ctx.gen(sd, "Rendezvous", "Gen_Rendezvous_big.cfg" if ctx.thorough else "Gen_Rendezvous.cfg",
                      timeout=2400, label="configuration enumeration + lemmas")
    ctx.extra["scenarios_emitted_by_model"] = len(scns)
    cap = 30000 if ctx.thorough else 3000
    if len(scns) > cap:
        rnd.shuffle(scns)
        scns = scns[:cap]
    else:
        ctx.exhaustive = not ctx.thorough  # quick tier replays every configuration of the small instance
    for i, s in enumerate(scns):
        s["id"] = i + 1
        s["mode"] = "model"
        s["rseed"] = ctx.seed
    if ctx.replay_scn:
        scns = [ctx.replay_scn]
    nrand = 0 if ctx.replay_scn else (1500 if ctx.thorough else 300)
    for i in range(nrand):
        scns.append({"id": 10 ** 6 + i, "mode": "random", "n": rnd.randint(1, 32), "rseed": ctx.seed * 31 + i,
                     "order": [], "writable": [], "hints": [], "chg": {"op": "none", "s": 0, "pos": 0}})
    by_id = {s["id"]: s for s in scns}
    ov = ctx.harness_overlay("sdk/go/keepclient", "harness/C12_keepclient")
    events, _ = ctx.go_run_driver("sdk/go/keepclient", ov, "TestVerifC12$", scns, timeout=1800)
    traces = vlib.split_traces(events)
    skipped = [t for t in traces if t[0].get("skipped")]
    traces = [t for t in traces if not t[0].get("skipped")]
    if len(skipped) > len(traces):
        raise vlib.InfraError("concretiser failed on most scenarios")
    # keep-balance side: same concrete uuids and block
    bscn = []
    for t in traces:
        phases = [{"ids": t[0]["ids"]}] + [{"ids": e["ids"]} for e in t if e["ev"] == "change"]
        bscn.append({"id": t[0]["scn"], "hash": t[0]["hash"], "size": t[0]["size"], "uuids": t[0]["uuids"],
                     "phases": phases})
    ov = ctx.harness_overlay("services/keep-balance", "harness/C12_keepbalance")
    bev, _ = ctx.go_run_driver("services/keep-balance", ov, "TestVerifC12Bal$", bscn, timeout=1800)
    bal = {(e["scn"], e["phase"]): e["seq"] for e in bev if e["ev"] == "bal"}
    unknown = sum(1 for e in bev if e["ev"] == "balunknown")
    if unknown:
        ctx.drift.append("keep-balance rank could not be read off balanceBlock's decisions in %d of %d cases "
                         "(pull targets and trash targets disagree: pull/trash policy differs from the model)"
                         % (unknown, len(bev)))
    if unknown > len(bev) // 2:
        ctx.extra["balancer_rank_unobservable"] = True
    if bev and unknown == len(bev):
        # the keep-balance clause would be entirely unjudged: not a verdict, but not a pass either
        raise vlib.InfraError("keep-balance's rank could not be observed in any case (pull/trash policy changed?)")
    merged = []
    for t in traces:
        phase = 0
        scn = t[0]["scn"]
        for e in t:
            e = {k: v for k, v in e.items() if k not in ("uuids",)}
            if e["ev"] == "change":
                phase = 1
            merged.append(e)
            if e["ev"] == "write" and (scn, phase) in bal:
                merged.append({"ev": "bal", "seq": bal[(scn, phase)]})
    ctx.evaluations = len(traces)
    ctx.extra["scenarios_skipped"] = len(skipped)
    ctx.judge(sd, "RendezvousTrace", "Judge_Rendezvous.cfg", merged, scenario_of=by_id)
    # The Python client (sdk/python/arvados/keep.py weighted_service_roots) on the same concrete configurations
    if not ctx.replay_scn:
        import C12_python
        ctx.extra["python_client_executions"] = C12_python.run_part(ctx, traces)
        ctx.evaluations += ctx.extra["python_client_executions"]
    # Composition (growth beyond the three call sites): real PutB then real Get against fake stores that
    # accept/refuse writes and are up/down at read time -- "a block written with enough replicas is found at
    # the first positions a reader tries" (KeepE2E.tla; lemmas L1 fault tolerance, L2 first position)
    if not ctx.replay_scn:
        e2e, _ = ctx.gen(sd, "KeepE2E", "MC_KeepE2E_big.cfg" if ctx.thorough else "MC_KeepE2E.cfg", timeout=1800,
                         label="composed write/read: configurations + lemmas L1, L2")
        if len(e2e) > (20000 if ctx.thorough else 3200):
            rnd.shuffle(e2e)
            e2e = e2e[:20000 if ctx.thorough else 3200]
        for i, s in enumerate(e2e):
            s["id"] = 3 * 10 ** 6 + i
            s["rseed"] = ctx.seed
        for i in range(2000 if ctx.thorough else 300):
            n = rnd.randint(1, 8)
            wr = [x for x in range(1, n + 1) if rnd.random() < 0.8]
            e2e.append({"id": 4 * 10 ** 6 + i, "n": n, "want": rnd.randint(1, 3), "wr": wr,
                        "refuse": [x for x in wr if rnd.random() < 0.3],
                        "downs": [x for x in range(1, n + 1) if rnd.random() < 0.3], "rseed": ctx.seed * 13 + i})
        ov = ctx.harness_overlay("sdk/go/keepclient", "harness/C12_keepclient")
        ev2, _ = ctx.go_run_driver("sdk/go/keepclient", ov, "TestVerifC12E2E$", e2e, timeout=1800)
        ctx.extra["e2e_traces"] = len(vlib.split_traces(ev2))
        # the composed clauses restate C11 (counting) and ask for read liveness that C03 declines to judge:
        # under C12's id they are growth of the specification, reported as drift only
        ctx.judge_as_drift("e2e_fake_stores", sd, "KeepE2ETrace", "Judge_KeepE2E.cfg", ev2,
                           scenario_of={s["id"]: s for s in e2e})
        ctx.evaluations += ctx.extra["e2e_traces"]
        # the same scenarios against REAL keepstore handlers (Directory volumes) behind the real keepclient
        import C12_e2e_real
        ctx.evaluations += C12_e2e_real.run_part(ctx, e2e, max_scenarios=(None if ctx.thorough else 1500))
    nontrivial = set()
    for t in traces:
        if len(t[0]["ref"]) >= 2:
            nontrivial.add((tuple(t[0]["ref"]), tuple(t[0]["writable"]), tuple(t[0]["hints"]),
                            tuple(tuple(e["ref"]) for e in t if e["ev"] == "change")))
    ctx.extra["distinct_nontrivial"] = len(nontrivial)
    ctx.rule = ("configurations enumerated by TLC: 1..MaxN services x every weight order x every writable subset x hint "
                "lists (unusable / known gateway / cluster form) x one add or remove; each concretised by searching a block "
                "whose reference weight order equals the abstract order; plus seeded random sets of 1-32 services; "
                "non-trivial = at least 2 services; distinct by (order, writable, hints, change)")
    ctx.samples = [merged[:8]]
    ctx.trusted_base = ["reference weight MD5(hash ++ last 15 chars of uuid) in the driver",
                        "recovery of keep-balance's rank from pull targets for desired = 1..n",
                        "recording HTTPClient"]
    ctx.assumptions = ["27-character service uuids only (the statement's formula); Python client not covered"]


if __name__ == "__main__":
    vlib.main("C12", run)
