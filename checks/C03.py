#!/usr/bin/env python3
"""C03 - Keep client and collection reads never deliver bytes that mismatch the locator.

GEN   specs/keepclient/KeepGet.tla  MC_KeepGet*.cfg  (getOrHead rounds + BlockCache entry states refine KeepGetContract)
                                    Gen_KeepGet_*.cfg (every answer sequence over outcome classes x op sequences)
RUN   harness/C03_keepclient/get_driver_test.go (real Get/HashCheckingReader, BlockCache.ReadAt,
                                    CollectionFileReader; gated fake HTTPClient)
JUDGE specs/keepclient/KeepGetTrace.tla (KeepGetContract)
"""
import os
import random
import sys

sys.path.insert(0, os.path.join(os.path.dirname(os.path.abspath(__file__)), "..", "lib"))
import vlib  # noqa

BAD200 = ["flip", "short", "long", "cl_short", "cl_long", "chunked_flip", "chunked_short", "chunked_long",
          "chunked_flip_err", "chunked_long_err", "chunked_ok_err"]
RETRYABLE = ["connerr", "s408", "s429", "s500", "s502", "s503"]
ALLKINDS = ["ok", "chunked_ok"] + BAD200 + RETRYABLE + ["s404", "s403"]


def concretise(scn, rnd):
    """Model steps are outcome classes; pick a concrete kind of the class (seeded)."""
    out = []
    for k in scn["steps"]:
        if k == "ok":
            out.append(rnd.choice(["ok", "ok", "chunked_ok"]) if scn["hint"] else "ok")
        elif k == "flip":
            out.append(rnd.choice(BAD200 + ([] if scn["hint"] else ["chunked_ok"])))
        elif k == "s500":
            out.append(rnd.choice(RETRYABLE))
        elif k == "s404":
            out.append(rnd.choice(["s404", "s404", "s403"]))
        else:
            out.append(k)
    scn["classes"] = scn["steps"]
    scn["steps"] = out
    return scn


def run(ctx):
    sd = "specs/keepclient"
    pkg = "sdk/go/keepclient"
    rnd = random.Random(ctx.seed)
    ctx.tlc(sd, "KeepGet", "MC_KeepGet_big.cfg" if ctx.thorough else "MC_KeepGet.cfg", timeout=3000,
            label="exhaustive: refinement of KeepGetContract, CacheSound, termination")
    scns = []
    if ctx.thorough:
        s, _ = ctx.gen(sd, "KeepGet", "Gen_KeepGet_big.cfg", timeout=1800, label="scenario emission (2 ops, 2 servers, 1 retry)")
        rnd.shuffle(s)
        scns += s[:40000]
        ctx.extra["scenarios_emitted_by_model"] = len(s)
    else:
        s1, _ = ctx.gen(sd, "KeepGet", "Gen_KeepGet_q1.cfg", timeout=900, label="scenario emission (1 op)")
        s2, _ = ctx.gen(sd, "KeepGet", "Gen_KeepGet_q2.cfg", timeout=900, label="scenario emission (2 ops, 1 server)")
        ctx.extra["scenarios_emitted_by_model"] = len(s1) + len(s2)
        rnd.shuffle(s2)
        scns += s1 + s2[:max(0, 3000 - len(s1))]
    for i, s in enumerate(scns):
        s["id"] = i + 1
        concretise(s, rnd)
    if ctx.replay_scn:
        scns = [ctx.replay_scn]
    # random scenarios beyond the model's bounds
    nrand = 0 if ctx.replay_scn else (4000 if ctx.thorough else 500)
    for i in range(nrand):
        hint = rnd.random() < 0.7
        ops = [rnd.choice(["get", "readat", "readat2"] + (["file"] if hint else [])) for _ in range(rnd.randint(1, 6))]
        steps = [rnd.choice(ALLKINDS) if rnd.random() < 0.6 else "ok" for _ in range(40)]
        scns.append({"id": 10 ** 6 + i, "n": rnd.randint(1, 4), "retries": rnd.randint(0, 3), "hint": hint,
                     "ops": ops, "steps": steps, "rseed": ctx.seed * 7919 + i})
    # storms: 8 concurrent cached readers retrying at once, answers mostly bad (unscheduled concurrency;
    # the contract judges whatever interleaving happened)
    for i in range(0 if ctx.replay_scn else (600 if ctx.thorough else 120)):
        steps = [rnd.choice(BAD200) if rnd.random() < 0.8 else rnd.choice(ALLKINDS) for _ in range(rnd.randint(2, 12))] + ["ok"] * 30
        scns.append({"id": 2 * 10 ** 6 + i, "n": rnd.randint(1, 3), "retries": rnd.randint(0, 1), "hint": True,
                     "ops": ["storm"] + [rnd.choice(["readat", "get", "file"]) for _ in range(rnd.randint(0, 2))],
                     "steps": steps, "rseed": ctx.seed * 7919 + i})
    by_id = {s["id"]: s for s in scns}
    ov = ctx.harness_overlay(pkg, "harness/C03_keepclient")
    events, out = ctx.go_run_driver(pkg, ov, "TestVerifC03$", scns, timeout=2400)
    traces = vlib.split_traces(events)
    ctx.evaluations = len(traces)
    hangs = sum(1 for t in traces if any(e["ev"] == "hang" for e in t))
    if hangs:
        raise vlib.InfraError("%d scenarios hung in the driver" % hangs)
    extra = [t[0] for t in traces if t[0].get("extra_steps") and t[0]["scn"] < 10 ** 6]
    if len(extra) > len(scns) // 20:
        ctx.drift.append("%d model scenarios needed more answers than the model predicted (first scn=%s)"
                         % (len(extra), extra[0]["scn"]))
    ctx.judge(sd, "KeepGetTrace", "Judge_KeepGet.cfg", events, scenario_of=by_id)
    nontrivial = set()
    for t in traces:
        ks = tuple(e["k"] for e in t if e["ev"] == "resp")
        if any(k in BAD200 or k == "chunked_ok" for k in ks):
            nontrivial.add((t[0]["hint"], tuple(t[0]["ops"]), ks))
    ctx.extra["distinct_nontrivial"] = len(nontrivial)
    ctx.rule = ("scenarios = all paths of KeepGet.tla (sequence of read ops x answer class per request) within the Gen "
                "bounds, each class concretised to a seeded concrete kind (bit flip, short/long body with honest or "
                "lying Content-Length, chunked, 404/403, 408/429/5xx, connection error), plus seeded random op/answer "
                "sequences over 1-4 services, retries 0-3, up to 6 ops; non-trivial = at least one 200 answer with "
                "wrong bytes or wrong size; distinct by (hint, ops, answer sequence)")
    ctx.samples = [{"scenario": by_id.get(t[0].get("scn")), "trace": t} for t in traces[:2] + traces[-2:]]
    ctx.trusted_base = ["fake HTTPClient building the bad bodies", "byte comparison in the driver (match)"]
    ctx.assumptions = ["one block per recorded execution; block lengths from {1,2,3,17,1000,4097,70001}",
                       "liveness (a good server is eventually used) is not part of the statement and not judged"]


if __name__ == "__main__":
    vlib.main("C03", run)
