//go:build verif

// RUN stage of C06 (b), reader 1 (DESIGN.md section 6, C06): feeds arvados.KeepService's index
// reader (Index / IndexMount -> index) the first `cut` bytes of a well-formed index response and
// records whether it reported an error.  Judged by specs/balance/IndexFramingTrace.tla.
//
// Scenario fields: shape [[size digits, mtime digits]..], cut, eof ("clean": the body simply ends;
// "unexpected": the transport reports io.ErrUnexpectedEOF after the bytes, as when Content-Length
// promised more).  Concretisation: random hex hashes and digits (seeded), first digit non-zero.
// The driver decides nothing.

package arvados

import (
	"context"
	"fmt"
	"io"
	"math/rand"
	"net/http"
	"os"
	"strconv"
	"testing"
)

type vIdxScn struct {
	ID    int     `json:"id"`
	Mode  string  `json:"mode"`
	Shape [][]int `json:"shape"`
	Cut   int     `json:"cut"`
	EOF   string  `json:"eof"`
}

func vIdxDigits(rng *rand.Rand, n int) string {
	b := make([]byte, n)
	for i := range b {
		b[i] = byte('0' + rng.Intn(10))
	}
	if n > 0 && (b[0] == '0' || b[0] == '9') {
		b[0] = '1' // no leading zero; a 19-digit mtime must fit in int64
	}
	return string(b)
}

func vIdxBytes(rng *rand.Rand, shape [][]int) []byte {
	var out []byte
	for _, e := range shape {
		h := make([]byte, 16)
		rng.Read(h)
		out = append(out, fmt.Sprintf("%x+%s %s\n", h, vIdxDigits(rng, e[0]), vIdxDigits(rng, e[1]))...)
	}
	return append(out, '\n')
}

type vIdxBody struct {
	data []byte
	err  error
}

func (b *vIdxBody) Read(p []byte) (int, error) {
	if len(b.data) == 0 {
		return 0, b.err
	}
	// deliver in small pieces so that chunk boundaries fall inside lines
	n := len(p)
	if n > 7 {
		n = 7
	}
	n = copy(p[:n], b.data)
	b.data = b.data[n:]
	return n, nil
}
func (b *vIdxBody) Close() error { return nil }

type vIdxTransport struct {
	body func() io.ReadCloser
	clen int64
}

func (tr vIdxTransport) RoundTrip(req *http.Request) (*http.Response, error) {
	return &http.Response{StatusCode: 200, Status: "200 OK", Header: http.Header{}, Body: tr.body(),
		ContentLength: tr.clen, Request: req, Proto: "HTTP/1.1", ProtoMajor: 1, ProtoMinor: 1}, nil
}

func TestVerifC06Index(t *testing.T) {
	seed, _ := strconv.ParseInt(os.Getenv("VERIF_SEED"), 10, 64)
	var scns []*vIdxScn
	vReadNDJSON(os.Getenv("VERIF_SCENARIOS"), func() interface{} {
		s := &vIdxScn{}
		scns = append(scns, s)
		return s
	})
	tw := vNewTraceWriter(os.Getenv("VERIF_TRACES"))
	for _, s := range scns {
		if s.Mode != "read" {
			continue
		}
		rng := rand.New(rand.NewSource(seed*1000003 + int64(s.ID)))
		whole := vIdxBytes(rng, s.Shape)
		cut := s.Cut
		if cut > len(whole) {
			cut = len(whole)
		}
		eofErr := io.EOF
		clen := int64(-1)
		if s.EOF == "unexpected" && cut < len(whole) {
			eofErr = io.ErrUnexpectedEOF
			clen = int64(len(whole))
		}
		tr := vIdxTransport{clen: clen, body: func() io.ReadCloser {
			return &vIdxBody{data: append([]byte(nil), whole[:cut]...), err: eofErr}
		}}
		client := &Client{Scheme: "http", APIHost: "verif.invalid", AuthToken: "xyzzy", Client: &http.Client{Transport: tr}}
		ks := &KeepService{UUID: "zzzzz-bi6l4-000000000000000", ServiceHost: "keep0.verif", ServicePort: 25107}
		var ents []KeepServiceIndexEntry
		var err error
		if s.ID%2 == 0 {
			ents, err = ks.IndexMount(context.Background(), client, "zzzzz-ivpuk-000000000000000", "")
		} else {
			ents, err = ks.Index(context.Background(), client, "")
		}
		tw.Write(map[string]interface{}{"ev": "reset", "scn": s.ID, "part": "framing", "rdr": "index", "shape": s.Shape,
			"cut": cut, "n": len(whole), "eof": s.EOF})
		ev := map[string]interface{}{"ev": "read", "reader": "index", "err": err != nil, "entries": len(ents)}
		if err != nil {
			ev["msg"] = err.Error()
		}
		tw.Write(ev)
	}
	tw.Close()
	fmt.Println("VERIF-DRIVER-DONE index", len(scns))
}
