//go:build verif

// RUN stage of C11 (DESIGN.md section 6, C11): drives the real keepclient Put path
// (PutB / PutHR -> putReplicas -> uploadToKeepServer) against a scripted, gated HTTPClient and
// records the abstract trace judged by specs/keepclient/KeepPutTrace.tla.
//
// The driver decides nothing.  Scenario fields (from KeepPut.tla's Gen configuration, or
// "random" scenarios made by checks/C11.py):
//   n, want, retries, disk    configuration
//   steps [[server, kind]..]  which pending upload completes next, with which outcome
//   mode "random", rseed      instead of steps: completion order and outcomes drawn at random
// Servers are numbered by their position in the rendezvous order of the block written, which is
// the order putReplicas starts uploads in; 0 is any read-only service.

package keepclient

import (
	"bytes"
	"crypto/md5"
	"errors"
	"fmt"
	"io"
	"math/rand"
	"net/http"
	"os"
	"regexp"
	"strconv"
	"strings"
	"sync"
	"testing"
	"time"

	"git.arvados.org/arvados.git/sdk/go/arvadosclient"
)

type vPutScenario struct {
	ID      int             `json:"id"`
	N       int             `json:"n"`
	Want    int             `json:"want"`
	Retries int             `json:"retries"`
	Disk    bool            `json:"disk"`
	Steps   [][]interface{} `json:"steps"`
	Mode    string          `json:"mode"`
	RSeed   int64           `json:"rseed"`
	RO      int             `json:"ro"`
}

type vPutReq struct {
	srv     int
	release chan string
}

type vPutGate struct {
	mu       sync.Mutex
	closed   bool
	events   []map[string]interface{}
	rank     map[string]int // host:port -> rendezvous rank (0 = read-only)
	arrivals chan *vPutReq
	consumed chan int
	hash     string
	size     int
	ncut     int
}

func (g *vPutGate) log(ev map[string]interface{}) {
	g.mu.Lock()
	defer g.mu.Unlock()
	if !g.closed {
		g.events = append(g.events, ev)
	}
}

type vErrReader struct{}

func (vErrReader) Read([]byte) (int, error) { return 0, io.ErrUnexpectedEOF }

type vTrackedBody struct {
	io.Reader
	once sync.Once
	f    func()
}

func (b *vTrackedBody) Close() error { b.once.Do(b.f); return nil }

var vStatusOf = map[string]int{"s400": 400, "s403": 403, "s408": 408, "s429": 429, "s500": 500, "s502": 502, "s503": 503}

func (g *vPutGate) Do(req *http.Request) (*http.Response, error) {
	if req.Body != nil {
		io.Copy(io.Discard, req.Body)
		req.Body.Close()
	}
	g.mu.Lock()
	closed := g.closed
	g.mu.Unlock()
	if closed {
		return nil, errors.New("verif: scenario over")
	}
	srv := g.rank[req.URL.Host]
	r := &vPutReq{srv: srv, release: make(chan string, 1)}
	g.log(map[string]interface{}{"ev": "req", "s": srv})
	g.arrivals <- r
	k := <-r.release
	if k == "connerr" || k == "" {
		return nil, errors.New("verif: connection refused")
	}
	hdr := http.Header{}
	status := 200
	body := ""
	switch k {
	case "ok1", "okcut":
		hdr.Set(XKeepReplicasStored, "1")
	case "ok2":
		hdr.Set(XKeepReplicasStored, "2")
	case "oknh":
	default:
		status = vStatusOf[k]
		body = "refused " + k
	}
	if status == 200 {
		body = fmt.Sprintf("%s+%d+Asrv%d@ffffffff\n", g.hash, g.size, srv)
	}
	var rdr io.Reader = strings.NewReader(body)
	if k == "okcut" {
		// 200 with the replicas header, but the connection breaks while the body (the locator) is read
		g.mu.Lock()
		g.ncut++
		cut := (g.ncut * 7) % len(body)
		g.mu.Unlock()
		rdr = io.MultiReader(strings.NewReader(body[:cut]), vErrReader{})
	}
	tb := &vTrackedBody{Reader: rdr, f: func() {
		select {
		case g.consumed <- srv:
		default:
		}
	}}
	return &http.Response{
		StatusCode: status, Status: fmt.Sprintf("%d %s", status, http.StatusText(status)),
		Header: hdr, Body: tb, ContentLength: int64(len(body)), Request: req,
		Proto: "HTTP/1.1", ProtoMajor: 1, ProtoMinor: 1,
	}, nil
}

var vIssuerRe = regexp.MustCompile(`\+Asrv(\d+)@`)

var vAllPutKinds = []string{"okcut", "ok1", "ok2", "oknh", "s400", "s403", "s408", "s429", "s500", "s502", "s503", "connerr"}

func vRunPutScenario(scn vPutScenario) []map[string]interface{} {
	rng := rand.New(rand.NewSource(int64(scn.ID)*7919 + scn.RSeed))
	size := []int{0, 1, 5, 1000, 70000}[rng.Intn(5)]
	data := make([]byte, size)
	rng.Read(data)
	hash := fmt.Sprintf("%x", md5.Sum(data))

	// service list: n writable (+ ro read-only), disk unless !Disk (then the first writable one is a proxy)
	var items []string
	hostOf := map[int]string{}
	for i := 0; i < scn.N+scn.RO; i++ {
		ro := i >= scn.N
		typ := "disk"
		if !scn.Disk && i == 0 {
			typ = "proxy"
		}
		host := fmt.Sprintf("keep%d.verif", i)
		hostOf[i] = host + ":25107"
		items = append(items, fmt.Sprintf(`{"uuid":"zzzzz-bi6l4-%015x","service_host":%q,"service_port":25107,"service_ssl_flag":false,"service_type":%q,"read_only":%v}`,
			rng.Int63n(1<<50)*64+int64(i), host, typ, ro))
	}
	// shuffle the listing order: it must not matter
	rng.Shuffle(len(items), func(i, j int) { items[i], items[j] = items[j], items[i] })

	g := &vPutGate{rank: map[string]int{}, arrivals: make(chan *vPutReq, 64), consumed: make(chan int, 64), hash: hash, size: size}
	kc := &KeepClient{
		Arvados:       &arvadosclient.ArvadosClient{ApiToken: "verif-token", ApiServer: "localhost:9"},
		Want_replicas: scn.Want,
		Retries:       scn.Retries,
		HTTPClient:    g,
	}
	if err := kc.LoadKeepServicesFromJSON(`{"items":[` + strings.Join(items, ",") + `]}`); err != nil {
		panic(err)
	}
	// rank = position in the order the client itself would use for the writable services; the
	// order as such is C12's business, here it only names servers.
	wr := map[string]string{}
	for uuid, url := range kc.LocalRoots() {
		h := strings.TrimPrefix(url, "http://")
		idx, _ := strconv.Atoi(strings.TrimSuffix(strings.TrimPrefix(h, "keep"), ".verif:25107"))
		if idx < scn.N {
			wr[uuid] = url
		}
	}
	for i, root := range NewRootSorter(wr, hash).GetSortedRoots() {
		g.rank[strings.TrimPrefix(root, "http://")] = i + 1
	}
	writable := []int{}
	for i := 1; i <= scn.N; i++ {
		writable = append(writable, i)
	}
	g.events = append(g.events, map[string]interface{}{"ev": "reset", "scn": scn.ID, "writable": writable,
		"want": scn.Want, "retries": scn.Retries, "disk": scn.Disk, "ro": scn.RO, "size": size, "mode": scn.Mode})

	done := make(chan struct{})
	go func() {
		defer close(done)
		var loc string
		var n int
		var err error
		if scn.ID%2 == 0 {
			loc, n, err = kc.PutB(data)
		} else {
			loc, n, err = kc.PutHR(hash, bytes.NewReader(data), int64(size))
		}
		issuer := 0
		if m := vIssuerRe.FindStringSubmatch(loc); m != nil {
			issuer, _ = strconv.Atoi(m[1])
		}
		locok := strings.HasPrefix(loc, fmt.Sprintf("%s+%d+", hash, size))
		g.log(map[string]interface{}{"ev": "done", "ok": err == nil, "n": n, "issuer": issuer, "locok": locok})
	}()

	pending := map[int][]*vPutReq{}
	npending := 0
	isDone := func() bool {
		select {
		case <-done:
			return true
		default:
			return false
		}
	}
	// collect arrivals until nothing new shows up for `idle`
	settle := func(idle time.Duration) {
		for {
			select {
			case r := <-g.arrivals:
				pending[r.srv] = append(pending[r.srv], r)
				npending++
			case <-time.After(idle):
				return
			}
		}
	}
	release := func(s int, k string) {
		r := pending[s][0]
		pending[s] = pending[s][1:]
		npending--
		for len(g.consumed) > 0 {
			<-g.consumed
		}
		g.log(map[string]interface{}{"ev": "resp", "s": s, "k": k})
		r.release <- k
		if k == "connerr" {
			time.Sleep(300 * time.Microsecond)
			return
		}
		// the response body is closed after putReplicas (or its drain goroutine) has received
		// the upload's status
		select {
		case <-g.consumed:
		case <-time.After(5 * time.Second):
		}
	}
	// waitFor waits for a request to server s.  If other uploads are pending and s does not show
	// up shortly, the code is waiting for one of those instead (it consumed statuses in another
	// order than they were released, or it differs from the model): give up on the script.
	waitFor := func(s int) bool {
		start := time.Now()
		for len(pending[s]) == 0 {
			limit := 30 * time.Second
			if npending > 0 {
				limit = 500 * time.Millisecond
			}
			left := limit - time.Since(start)
			if left <= 0 {
				return false
			}
			select {
			case r := <-g.arrivals:
				pending[r.srv] = append(pending[r.srv], r)
				npending++
			case <-done:
				return false
			case <-time.After(left):
				return false
			}
		}
		return true
	}

	unused := 0
	if scn.Mode == "random" {
		for !isDone() {
			settle(400 * time.Microsecond)
			if isDone() {
				break
			}
			if npending == 0 {
				select {
				case r := <-g.arrivals:
					pending[r.srv] = append(pending[r.srv], r)
					npending++
				case <-done:
				case <-time.After(30 * time.Second):
					// nothing pending, not done: give up (recorded as is; the judge sees no "done")
					g.log(map[string]interface{}{"ev": "hang"})
					goto finish
				}
				continue
			}
			var cands []int
			for s, q := range pending {
				if len(q) > 0 {
					cands = append(cands, s)
				}
			}
			// deterministic choice given the seed
			min := cands[0]
			for _, c := range cands {
				if c < min {
					min = c
				}
			}
			s := min
			if len(cands) > 1 {
				// pick the rng.Intn-th smallest
				k := rng.Intn(len(cands))
				for i := 0; i < len(cands); i++ {
					for j := i + 1; j < len(cands); j++ {
						if cands[j] < cands[i] {
							cands[i], cands[j] = cands[j], cands[i]
						}
					}
				}
				s = cands[k]
			}
			var kind string
			if rng.Intn(100) < 45 {
				kind = []string{"ok1", "ok1", "ok1", "ok2", "oknh"}[rng.Intn(5)]
			} else {
				kind = vAllPutKinds[rng.Intn(len(vAllPutKinds))]
			}
			release(s, kind)
		}
	} else {
		for i, st := range scn.Steps {
			s := int(st[0].(float64))
			k := st[1].(string)
			if !waitFor(s) {
				unused = len(scn.Steps) - i
				break
			}
			release(s, k)
		}
		// Whatever the code still asks for is refused for good so that the call ends.
		for !isDone() {
			for s, q := range pending {
				for range q {
					release(s, "s503")
				}
			}
			select {
			case r := <-g.arrivals:
				pending[r.srv] = append(pending[r.srv], r)
				npending++
			case <-done:
			case <-time.After(30 * time.Second):
				g.log(map[string]interface{}{"ev": "hang"})
				goto finish
			}
		}
	}
finish:
	// abandoned uploads: let them finish, after the return
	settle(300 * time.Microsecond)
	for s, q := range pending {
		for range q {
			release(s, "s503")
		}
	}
	g.mu.Lock()
	g.closed = true
	evs := g.events
	g.mu.Unlock()
	if unused > 0 {
		evs[0]["unused_steps"] = unused
	}
	// unblock stragglers
	go func() {
		for {
			select {
			case r := <-g.arrivals:
				r.release <- "connerr"
			case <-time.After(2 * time.Second):
				return
			}
		}
	}()
	return evs
}

func TestVerifC11(t *testing.T) {
	var scns []vPutScenario
	vReadNDJSON(os.Getenv("VERIF_SCENARIOS"), func() interface{} { scns = append(scns, vPutScenario{}); return &scns[len(scns)-1] })
	out := vNewTraceWriter(os.Getenv("VERIF_TRACES"))
	defer out.Close()
	// scenarios are independent: run them on a few goroutines (each has its own client and gate)
	const par = 8
	res := make([][]map[string]interface{}, len(scns))
	var wg sync.WaitGroup
	sem := make(chan struct{}, par)
	for i := range scns {
		wg.Add(1)
		sem <- struct{}{}
		go func(i int) {
			defer wg.Done()
			defer func() { <-sem }()
			res[i] = vRunPutScenario(scns[i])
		}(i)
	}
	wg.Wait()
	for _, evs := range res {
		for _, ev := range evs {
			out.Write(ev)
		}
	}
	fmt.Println("VERIF-DRIVER-DONE scenarios:", len(scns))
}
