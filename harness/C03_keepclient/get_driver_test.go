//go:build verif

// RUN stage of C03: drives the real keepclient read paths (Get + HashCheckingReader, BlockCache
// ReadAt, collection file reads through CollectionFileReader) against a scripted gated HTTPClient
// and records call / resp / ret events judged by specs/keepclient/KeepGetTrace.tla.
// The driver decides nothing: "match" is the plain comparison of delivered bytes with the block.

package keepclient

import (
	"bytes"
	"crypto/md5"
	"errors"
	"fmt"
	"io"
	"io/ioutil"
	"math/rand"
	"net/http"
	"os"
	"strings"
	"sync"
	"testing"
	"time"

	"git.arvados.org/arvados.git/sdk/go/arvadosclient"
)

type vGetScenario struct {
	ID      int      `json:"id"`
	N       int      `json:"n"`
	Retries int      `json:"retries"`
	Hint    bool     `json:"hint"`
	Ops     []string `json:"ops"`
	Steps   []string `json:"steps"`
	RSeed   int64    `json:"rseed"`
}

type vGetRel struct {
	k                   string
	cut, extra, flipAt int
}

type vGetReq struct {
	release chan vGetRel
}

type vGetGate struct {
	mu       sync.Mutex
	events   []map[string]interface{}
	arrivals chan *vGetReq
	consumed chan struct{}
	data     []byte
	rng      *rand.Rand
	closed   bool
}

func (g *vGetGate) log(ev map[string]interface{}) {
	g.mu.Lock()
	if !g.closed {
		g.events = append(g.events, ev)
	}
	g.mu.Unlock()
}

type vGetErrAfter struct {
	r io.Reader
}

func (e *vGetErrAfter) Read(p []byte) (int, error) {
	n, err := e.r.Read(p)
	if err == io.EOF {
		return n, io.ErrUnexpectedEOF // the connection breaks instead of ending cleanly
	}
	return n, err
}

type vGetBody struct {
	io.Reader
	once sync.Once
	f    func()
}

func (b *vGetBody) Close() error { b.once.Do(b.f); return nil }

var vGetStatus = map[string]int{"s404": 404, "s403": 403, "s408": 408, "s429": 429, "s500": 500, "s502": 502, "s503": 503}

// vGetServe builds the response of the given kind for block data.
func (g *vGetGate) serve(req *http.Request, k string, cut, extra, flipAt int) (*http.Response, error) {
	if k == "connerr" {
		return nil, errors.New("verif: connection refused")
	}
	data := g.data
	L := len(data)
	body := data
	cl := int64(L)
	status := 200
	breaks := false
	flipped := func() []byte {
		b := append([]byte(nil), data...)
		b[flipAt%L] ^= 1 << uint(flipAt%8)
		return b
	}
	long := func() []byte {
		b := append([]byte(nil), data...)
		if flipAt%3 == 0 {
			// over-long AND wrong from the start (the first len(data) bytes are not the block)
			b[flipAt%L] ^= 1 << uint(flipAt%8)
		}
		for i := 0; i < extra; i++ {
			b = append(b, byte('x'+i%3))
		}
		return b
	}
	switch k {
	case "ok":
	case "chunked_ok":
		cl = -1
	case "flip":
		body = flipped()
	case "chunked_flip":
		body = flipped()
		cl = -1
	case "short":
		body = data[:L-cut]
		cl = int64(L - cut)
	case "chunked_short":
		body = data[:L-cut]
		cl = -1
	case "cl_short":
		body = data[:L-cut]
	case "long":
		body = long()
		cl = int64(len(body))
	case "chunked_long":
		body = long()
		cl = -1
	case "chunked_flip_err", "chunked_long_err":
		// wrong bytes (at least as many as the block has), then the connection breaks
		body = flipped()
		if k == "chunked_long_err" {
			body = append(body, []byte("xyz")...)
		}
		cl = -1
		breaks = true
	case "chunked_ok_err":
		// the right bytes, then the connection breaks before a clean EOF
		cl = -1
		breaks = true
	case "cl_long":
		body = long()
	default:
		status = vGetStatus[k]
		body = []byte("refused " + k + "\n")
		cl = int64(len(body))
	}
	var rdr io.Reader = bytes.NewReader(body)
	if breaks {
		rdr = &vGetErrAfter{r: rdr}
	}
	tb := &vGetBody{Reader: rdr, f: func() {
		select {
		case g.consumed <- struct{}{}:
		default:
		}
	}}
	return &http.Response{StatusCode: status, Status: fmt.Sprintf("%d %s", status, http.StatusText(status)),
		Header: http.Header{}, Body: tb, ContentLength: cl, Request: req,
		Proto: "HTTP/1.1", ProtoMajor: 1, ProtoMinor: 1}, nil
}

func (g *vGetGate) Do(req *http.Request) (*http.Response, error) {
	g.mu.Lock()
	closed := g.closed
	g.mu.Unlock()
	if closed {
		return nil, errors.New("verif: scenario over")
	}
	r := &vGetReq{release: make(chan vGetRel, 1)}
	g.arrivals <- r
	rel := <-r.release
	return g.serve(req, rel.k, rel.cut, rel.extra, rel.flipAt)
}

// draw picks the concrete shape of an answer of kind k and says whether the answer is ambiguous:
// a careful client could extract the right bytes from it although it is not a plain good answer
// (a 200 without any length for a locator without size hint; Content-Length = block size followed
// by surplus bytes, which cannot exist on a real wire).  Ambiguous answers may end either way.
func (g *vGetGate) draw(k string, hint bool) (vGetRel, bool) {
	L := len(g.data)
	g.mu.Lock()
	defer g.mu.Unlock()
	cut, extra, flipAt := 1+g.rng.Intn(L-1+1)%L, 1+g.rng.Intn(9), g.rng.Intn(L*8)
	if g.rng.Intn(4) == 0 {
		cut = L // zero-length answer
	}
	if cut < 1 {
		cut = 1
	}
	amb := (k == "chunked_ok" && !hint) || (k == "cl_long" && flipAt%3 != 0) || k == "chunked_ok_err"
	return vGetRel{k, cut, extra, flipAt}, amb
}

func vRunGetScenario(scn vGetScenario) []map[string]interface{} {
	rng := rand.New(rand.NewSource(int64(scn.ID)*104729 + scn.RSeed))
	L := []int{1, 2, 3, 17, 1000, 4097, 70001}[rng.Intn(7)]
	data := make([]byte, L)
	rng.Read(data)
	hash := fmt.Sprintf("%x", md5.Sum(data))
	loc := hash
	if scn.Hint {
		loc = fmt.Sprintf("%s+%d", hash, L)
	}
	g := &vGetGate{arrivals: make(chan *vGetReq, 16), consumed: make(chan struct{}, 16), data: data,
		rng: rand.New(rand.NewSource(rng.Int63()))}
	kc := &KeepClient{
		Arvados:    &arvadosclient.ArvadosClient{ApiToken: "verif-token", ApiServer: "localhost:9"},
		Retries:    scn.Retries,
		HTTPClient: g,
		BlockCache: &BlockCache{},
	}
	roots := map[string]string{}
	for i := 0; i < scn.N; i++ {
		roots[fmt.Sprintf("zzzzz-bi6l4-%015d", i)] = fmt.Sprintf("http://keep%d.verif:25107", i)
	}
	kc.SetServiceRoots(roots, roots, roots)
	g.events = append(g.events, map[string]interface{}{"ev": "reset", "scn": scn.ID, "hint": scn.Hint,
		"n": scn.N, "retries": scn.Retries, "len": L, "ops": scn.Ops})

	step := 0
	var stepMu sync.Mutex
	var nextKind func() string
	nextKindLocked := func() string {
		stepMu.Lock()
		defer stepMu.Unlock()
		return nextKind()
	}
	nextKind = func() string {
		if step < len(scn.Steps) {
			step++
			return scn.Steps[step-1]
		}
		step++
		return "s404"
	}

	read := func(r int, api string, variant int, done chan struct{}) {
		defer close(done)
		var ok, match bool
		switch api {
		case "get":
			rdr, size, _, err := kc.Get(loc)
			if err == nil {
				var buf []byte
				switch variant % 3 {
				case 0:
					buf, err = ioutil.ReadAll(rdr)
					rdr.Close()
				case 1:
					var bb bytes.Buffer
					_, err = io.Copy(&bb, rdr)
					buf = bb.Bytes()
					rdr.Close()
				case 2:
					// the BlockCache idiom: read exactly size bytes, then Close reports the checksum
					buf = make([]byte, size)
					_, err = io.ReadFull(rdr, buf)
					if err2 := rdr.Close(); err == nil {
						err = err2
					}
				}
				ok = err == nil
				match = bytes.Equal(buf, data)
			}
		case "readat", "readat2":
			off := 0
			if variant%2 == 1 {
				off = variant % (L + 1)
			}
			p := make([]byte, 1+variant%(L+9))
			n, err := kc.ReadAt(loc, p, off)
			want := data[off:]
			if len(want) > len(p) {
				want = want[:len(p)]
			}
			// io.ReaderAt allows (n < len(p), io.EOF) at the end of the data: a successful short read
			ok = err == nil || (err == io.EOF && n == len(want))
			if ok {
				match = bytes.Equal(p[:n], want)
			}
		case "file":
			// f is the segment [a, a+m) of the block; other files of the same stream cover the
			// rest, so that the segment may end before the block does (several files packed into
			// one block).  Read either in one go or in chunks no longer than the segment.
			a, m := 0, L
			if variant%3 != 0 && L >= 2 {
				a = (variant / 3) % L
				m = 1 + (variant/7)%(L-a)
			}
			mt := fmt.Sprintf(". %s+%d %d:%d:f", hash, L, a, m)
			if a > 0 {
				mt += fmt.Sprintf(" 0:%d:g", a)
			}
			if a+m < L {
				mt += fmt.Sprintf(" %d:%d:h", a+m, L-a-m)
			}
			mt += "\n"
			f, err := kc.CollectionFileReader(map[string]interface{}{"manifest_text": mt}, "f")
			if err == nil {
				var buf []byte
				if variant%2 == 0 {
					buf, err = ioutil.ReadAll(f)
				} else {
					p := make([]byte, 1+(variant/11)%(m+2))
					for err == nil && len(buf) <= L+len(p) {
						var n int
						n, err = f.Read(p)
						buf = append(buf, p[:n]...)
					}
					if err == io.EOF {
						err = nil
					}
				}
				f.Close()
				ok = err == nil
				match = bytes.Equal(buf, data[a:a+m])
			}
		}
		g.log(map[string]interface{}{"ev": "ret", "r": r, "ok": ok, "match": match})
	}

	for _, op := range scn.Ops {
		variant := rng.Intn(1 << 20)
		if op == "storm" {
			// 8 concurrent cached readers, each retrying at once after a failure; answers are
			// released as requests arrive (no gating: which interleaving happens is up to the
			// Go scheduler, the contract judges whatever is recorded)
			const R, attempts = 8, 3
			var wg sync.WaitGroup
			stop := make(chan struct{})
			respDone := make(chan struct{})
			go func() {
				defer close(respDone)
				for {
					select {
					case rq := <-g.arrivals:
						k := nextKindLocked()
						rel, amb := g.draw(k, scn.Hint)
						g.log(map[string]interface{}{"ev": "resp", "k": k, "amb": amb})
						rq.release <- rel
					case <-stop:
						return
					}
				}
			}()
			for r := 1; r <= R; r++ {
				wg.Add(1)
				go func(r int) {
					defer wg.Done()
					for a := 0; a < attempts; a++ {
						p := make([]byte, L)
						g.log(map[string]interface{}{"ev": "call", "r": r, "api": "readat"})
						n, err := kc.ReadAt(loc, p, 0)
						ok := err == nil || (err == io.EOF && n == L) // io.ReaderAt may report EOF with a full read at the end
						g.log(map[string]interface{}{"ev": "ret", "r": r, "ok": ok, "match": ok && bytes.Equal(p[:n], data)})
						if ok {
							return
						}
					}
				}(r)
			}
			wg.Wait()
			close(stop)
			<-respDone
			continue
		}
		d1 := make(chan struct{})
		var d2 chan struct{}
		g.log(map[string]interface{}{"ev": "call", "r": 1, "api": op})
		go read(1, op, variant, d1)
		needSecond := op == "readat2"
		startSecond := func() {
			needSecond = false
			d2 = make(chan struct{})
			g.log(map[string]interface{}{"ev": "call", "r": 2, "api": op})
			go read(2, op, rng.Intn(1<<20), d2)
			time.Sleep(300 * time.Microsecond) // let it reach the cache (which interleaving is explored only)
		}
		for d1 != nil || d2 != nil || needSecond {
			select {
			case <-d1:
				d1 = nil
				if needSecond {
					startSecond()
				}
			case <-d2:
				d2 = nil
			case rq := <-g.arrivals:
				if needSecond {
					startSecond()
				}
				k := nextKind()
				for len(g.consumed) > 0 {
					<-g.consumed
				}
				rel, amb := g.draw(k, scn.Hint)
				g.log(map[string]interface{}{"ev": "resp", "k": k, "amb": amb})
				rq.release <- rel
				if k != "connerr" {
					select {
					case <-g.consumed:
					case <-time.After(5 * time.Second):
					}
				}
			case <-time.After(60 * time.Second):
				g.log(map[string]interface{}{"ev": "hang"})
				d1, d2, needSecond = nil, nil, false
			}
		}
	}
	g.mu.Lock()
	g.closed = true
	evs := g.events
	g.mu.Unlock()
	if step > len(scn.Steps) {
		evs[0]["extra_steps"] = step - len(scn.Steps)
	} else if step < len(scn.Steps) {
		evs[0]["unused_steps"] = len(scn.Steps) - step
	}
	return evs
}

func TestVerifC03(t *testing.T) {
	var scns []vGetScenario
	vReadNDJSON(os.Getenv("VERIF_SCENARIOS"), func() interface{} { scns = append(scns, vGetScenario{}); return &scns[len(scns)-1] })
	out := vNewTraceWriter(os.Getenv("VERIF_TRACES"))
	defer out.Close()
	const par = 8
	res := make([][]map[string]interface{}, len(scns))
	var wg sync.WaitGroup
	sem := make(chan struct{}, par)
	for i := range scns {
		wg.Add(1)
		sem <- struct{}{}
		go func(i int) {
			defer wg.Done()
			defer func() { <-sem }()
			res[i] = vRunGetScenario(scns[i])
		}(i)
	}
	wg.Wait()
	for _, evs := range res {
		for _, ev := range evs {
			out.Write(ev)
		}
	}
	_ = strings.TrimSpace
	fmt.Println("VERIF-DRIVER-DONE scenarios:", len(scns))
}
