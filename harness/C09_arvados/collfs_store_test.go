//go:build verif

// RUN stage of C09 (DESIGN.md section 6, C09).  Same driver as C08 (harness/C08_arvados is merged
// into the overlay) plus: a fake Keep whose writes fail according to a plan, names drawn from bytes
// 0x01-0xff except '/', explicit save points (MarshalManifest / Sync / Flush+MarshalManifest), and a
// manifest TOKENIZER that turns the saved text into the abstract form judged by
// specs/collfs/CollFSStoreTrace.tla.
//
// Trusted base added here:
//   tokenizer   splits the manifest text per the published grammar (doc/architecture/
//               manifest-format): streams, locators, file tokens; decides grammar_ok; unescapes
//               names (\ooo) and maps them back to the abstract symbols; attaches to every locator
//               what the recording Keep knows about it: the bytes stored under that hash, whether
//               hash+size occur in the original manifest, whether exactly this locator string was
//               returned by a successful PutB, whether md5(bytes) is the hash.
//   reload      loads the saved text into a second collection filesystem with the real loader and
//               walks it (event "reload").
// The driver decides nothing.

package arvados

import (
	"fmt"
	"math/rand"
	"os"
	"regexp"
	"strconv"
	"strings"
	"testing"
	"time"
	"unicode/utf8"
)

var vcfsLocatorRe = regexp.MustCompile(`^([0-9a-f]{32})\+([0-9]+)(\+[A-Z][-A-Za-z0-9@_]*)*$`)
var vcfsFileTokRe = regexp.MustCompile(`^([0-9]+):([0-9]+):(.+)$`)

// vcfsUnescape undoes \ooo escapes; a backslash that is not followed by three octal digits is an
// ordinary (printable ASCII) character of the name.
func vcfsUnescape(s string) (string, bool) {
	var out []byte
	for i := 0; i < len(s); i++ {
		if s[i] == '\\' && i+4 <= len(s) {
			if v, err := strconv.ParseUint(s[i+1:i+4], 8, 8); err == nil {
				out = append(out, byte(v))
				i += 3
				continue
			}
		}
		out = append(out, s[i])
	}
	return string(out), true
}

// vcfsGrammarText: utf-8 text without control codes or whitespace other than the delimiters.
func vcfsGrammarText(text string) bool {
	if !utf8.ValidString(text) {
		return false
	}
	for i := 0; i < len(text); i++ {
		c := text[i]
		if (c < 0x20 && c != '\n') || c == 0x7f {
			return false
		}
	}
	return text == "" || strings.HasSuffix(text, "\n")
}

func (r *vcfsRun) tokenize(text string) map[string]interface{} {
	gok := vcfsGrammarText(text)
	streams := []interface{}{}
	putLoc := map[string]bool{}
	r.keep.mu.Lock()
	for _, p := range r.keep.puts {
		if p.OK {
			putLoc[p.Locator] = true
		}
	}
	r.keep.mu.Unlock()
	lines := strings.Split(text, "\n")
	if len(lines) > 0 && lines[len(lines)-1] == "" {
		lines = lines[:len(lines)-1]
	}
	for _, line := range lines {
		toks := strings.Split(line, " ")
		st := map[string]interface{}{}
		// stream name
		sname, ok := vcfsUnescape(toks[0])
		if !ok {
			gok = false
		}
		comps := strings.Split(sname, "/")
		if comps[0] != "." {
			gok = false
		}
		name := []string{}
		for _, c := range comps[1:] {
			if c == "" || c == "." || c == ".." {
				gok = false
			}
			name = append(name, r.aname(c))
		}
		st["name"] = name
		blocks := []interface{}{}
		files := []interface{}{}
		i := 1
		for ; i < len(toks) && !strings.Contains(toks[i], ":"); i++ {
			m := vcfsLocatorRe.FindStringSubmatch(toks[i])
			if m == nil {
				gok = false
				continue
			}
			sz, _ := strconv.Atoi(m[2])
			r.keep.mu.Lock()
			data, known := r.keep.blocks[m[1]]
			r.keep.mu.Unlock()
			if m[1] == "d41d8cd98f00b204e9800998ecf8427e" && sz == 0 {
				// the zero-length block: every Keep client serves it without any server holding it
				known, data = true, nil
			}
			blocks = append(blocks, map[string]interface{}{
				"d": vcfsAbs(data), "sz": sz, "known": known,
				"orig": r.origLoc[m[1]+"+"+m[2]] || (m[1] == "d41d8cd98f00b204e9800998ecf8427e" && sz == 0),
				"put":  putLoc[toks[i]],
				"md5":  known && vcfsHash(data) == m[1],
			})
		}
		if len(blocks) == 0 {
			gok = false
		}
		for ; i < len(toks); i++ {
			m := vcfsFileTokRe.FindStringSubmatch(toks[i])
			if m == nil {
				gok = false
				continue
			}
			pos, e1 := strconv.Atoi(m[1])
			ln, e2 := strconv.Atoi(m[2])
			if e1 != nil || e2 != nil || pos > 1<<20 || ln > 1<<20 {
				gok = false
				continue
			}
			fname, ok := vcfsUnescape(m[3])
			if !ok {
				gok = false
			}
			fn := []string{}
			for _, c := range strings.Split(fname, "/") {
				if c == "" || c == ".." || (c == "." && fname != ".") {
					gok = false
				}
				if c == "." {
					fn = append(fn, ".")
				} else {
					fn = append(fn, r.aname(c))
				}
			}
			files = append(files, map[string]interface{}{"pos": pos, "len": ln, "name": fn})
		}
		if len(files) == 0 {
			gok = false
		}
		st["blocks"] = blocks
		st["files"] = files
		streams = append(streams, st)
	}
	return map[string]interface{}{"gok": gok, "streams": streams}
}

// save performs one save point and logs savecall / save / reload.
func (r *vcfsRun) save(kind string) bool {
	if r.dead {
		return false
	}
	r.settle()
	r.log(vcfsEvent{"ev": "savecall", "kind": kind})
	var txt string
	var err error
	r.guard("save", func() {
		if kind == "flushmarshal" {
			if e := r.fs.Flush("", true); e != nil {
				// an asynchronous flush reports no write errors; anything else is logged
				r.log(vcfsEvent{"ev": "flush", "kind": "flushall", "ok": false})
			}
			if r.hold != nil {
				r.hold.releaseAll() // the save below waits for these writes
			}
		}
		r.keep.mu.Lock()
		r.keep.inSave = true
		r.keep.mu.Unlock()
		switch kind {
		case "sync":
			r.api.mu.Lock()
			n := len(r.api.saved)
			r.api.mu.Unlock()
			err = r.fs.Sync()
			r.api.mu.Lock()
			updated := len(r.api.saved) > n
			if err == nil && updated {
				txt = r.api.saved[len(r.api.saved)-1]
			}
			r.api.mu.Unlock()
			if err == nil && !updated {
				// Sync saw nothing to update (or passed the text in a way the fake API does not
				// see): the state it saved is what MarshalManifest returns now
				txt, err = r.fs.MarshalManifest(".")
			}
		default:
			txt, err = r.fs.MarshalManifest(".")
		}
		r.keep.mu.Lock()
		r.keep.inSave = false
		r.keep.mu.Unlock()
	})
	if r.dead {
		return false
	}
	if err != nil {
		r.log(vcfsEvent{"ev": "save", "kind": kind, "ok": false, "m": map[string]interface{}{"gok": false, "streams": []interface{}{}}})
		return false
	}
	r.log(vcfsEvent{"ev": "save", "kind": kind, "ok": true, "m": r.tokenize(txt), "text": fmt.Sprintf("%q", txt)})
	// load it again with the real loader
	var ents [][]interface{}
	var total int64
	var lerr error
	r.guard("reload", func() {
		var fs2 CollectionFileSystem
		fs2, lerr = (&Collection{ManifestText: txt}).FileSystem(r.api, r.keep)
		if lerr == nil {
			ents, _ = vcfsWalk(fs2, r.rng, r.scn.BS, r.aname, r.plainPath)
			total = fs2.Size()
		}
	})
	if r.dead {
		return true
	}
	if ents == nil {
		ents = [][]interface{}{}
	}
	r.log(vcfsEvent{"ev": "reload", "ok": lerr == nil, "ents": ents, "total": int(total)})
	return true
}

// ---------------------------------------------------------------------------------------------
// names over bytes 0x01-0xff except '/'

func vcfsDrawName(rng *rand.Rand, class string) string {
	for {
		n := 1 + rng.Intn(4)
		b := make([]byte, 0, 8)
		for i := 0; i < n; i++ {
			switch class {
			case "ascii":
				// every ASCII byte except NUL, '/', DEL: controls, space, colon, backslash, digits ...
				specials := []byte{' ', ':', '\\', '\t', '\n', '\r', '.', '0', '1', '7', '+', '"', '\'', '%', '#', '~', 0x01, 0x1f}
				if rng.Intn(2) == 0 {
					b = append(b, specials[rng.Intn(len(specials))])
				} else {
					c := byte(1 + rng.Intn(0x7e))
					b = append(b, c)
				}
			case "utf8":
				rs := []rune{0xe9, 0x3b1, 0x4e2d, 0x1f600, 'x', ' ', '\\'}
				b = append(b, string(rs[rng.Intn(len(rs))])...)
			case "del":
				b = append(b, []byte{0x7f, 'a', ':'}[rng.Intn(3)])
			case "rawhigh":
				b = append(b, byte(0x80+rng.Intn(0x80)))
			default:
				b = append(b, byte('a'+rng.Intn(26)))
			}
		}
		if class == "del" {
			b = append(b, 0x7f)
		}
		if class == "rawhigh" {
			b = append(b, 0xff)
		}
		s := strings.ReplaceAll(string(b), "/", "_")
		if s == "." || s == ".." || s == "" || strings.Contains(s, "\x00") {
			continue
		}
		return s
	}
}

func (r *vcfsRun) drawNames(class string) {
	if class == "" {
		return
	}
	used := map[string]bool{}
	for _, a := range []string{"a", "b", "c", "d", "e"} {
		for {
			c := vcfsDrawName(r.rng, class)
			if !used[c] {
				used[c] = true
				r.names[a] = c
				break
			}
		}
	}
}

// ---------------------------------------------------------------------------------------------

func vcfsRunStore(scn vcfsScenario, failK int) (events []vcfsEvent, nputs int) {
	r := vcfsNewRun(scn)
	if scn.BS > 0 {
		maxBlockSize = scn.BS
	} else {
		maxBlockSize = 1 << 26
	}
	r.drawNames(scn.NameMode)
	frng := rand.New(rand.NewSource(scn.RSeed*31 + int64(failK)))
	failing := true
	r.keep.failFn = func(k int, bg bool) bool {
		if !failing {
			return false
		}
		switch scn.Fail {
		case "kth":
			return k == failK
		case "rate":
			return frng.Intn(100) < scn.FailPct
		case "bg":
			return bg && frng.Intn(100) < scn.FailPct
		case "final":
			return !bg && frng.Intn(100) < scn.FailPct
		}
		return false
	}
	cnames := map[string]string{}
	for a, c := range r.names {
		cnames[a] = fmt.Sprintf("%q", c)
	}
	if r.start(vcfsEvent{"fail": scn.Fail, "failk": failK, "failpct": scn.FailPct, "nameclass": scn.NameMode, "names": cnames}) != nil {
		return r.events, 0
	}
	// the reset event's manifest may hold arbitrary bytes: keep it printable
	r.events[0]["manifest"] = fmt.Sprintf("%q", r.events[0]["manifest"])
	// putb events are appended in completion order by the Keep itself
	r.keep.onDone = func(p *vcfsPut, ok bool) {
		r.log(vcfsEvent{"ev": "putb", "k": p.K, "ok": ok, "insave": !p.BG, "n": len(p.Data)})
	}
	kinds := []string{"marshal", "sync", "flushmarshal"}
	saveAt := map[int]bool{}
	total := len(scn.Ops)
	if scn.Mode == "random" {
		total = scn.NOps
	}
	for i := 0; i < scn.Saves-1 && total > 1; i++ {
		saveAt[1+r.rng.Intn(total-1)] = true
	}
	if scn.Hold {
		r.hold = &vcfsHold{}
		r.keep.gate = r.hold.gate
	}
	doSave := func() {
		r.settle()
		kind := kinds[r.rng.Intn(len(kinds))]
		if !r.save(kind) && !r.dead {
			// "the buffered data stays intact and readable, and a later save can still succeed"
			r.snap()
			failing = false
			r.save(kinds[r.rng.Intn(len(kinds))])
			failing = scn.Fail != "kth"
		}
		r.snap()
		r.posReads()
	}
	r.snap()
	step := func(op vcfsOp) {
		n := len(r.events)
		r.do(op)
		if op.Op != "flushnow" {
			r.settle()
		}
		if len(r.events) == n {
			return
		}
		r.flushStep(scn.Flush)
		r.snap()
		if op.Op == "write" || op.Op == "trunc" || (op.Op == "open" && op.Tr) {
			r.posReads()
		}
	}
	for i := 0; i < total && !r.dead; i++ {
		var op vcfsOp
		if scn.Mode == "random" {
			r.guard("gen", func() { op = r.randOp() })
		} else {
			op = scn.Ops[i]
		}
		step(op)
		if saveAt[i+1] {
			doSave()
		}
	}
	if !r.dead {
		doSave()
	}
	if r.hung {
		// Some call never returned.  The statement has no termination clause as such, but it does
		// say that after failed block writes "a later save can still succeed": if writes failed
		// before, try a save with a Keep that no longer fails; if that one does not return either
		// (watchdog as for every call: deadline AND its goroutine parked for minutes) the hang
		// event names the save, and checks/C09.py lets the contract judge exactly that case.
		nf := 0
		r.keep.mu.Lock()
		for _, p := range r.keep.puts {
			if !p.OK {
				nf++
			}
		}
		r.keep.mu.Unlock()
		hungSave := false
		for _, ev := range r.events {
			if ev["ev"] == "hang" && ev["op"] == "save" {
				hungSave = true
			}
		}
		if nf > 0 && !hungSave {
			failing = false
			r.dead, r.hung = false, false
			r.save("marshal")
		}
	}
	r.keep.mu.Lock()
	nputs = len(r.keep.puts)
	r.keep.mu.Unlock()
	return r.events, nputs
}

// ---------------------------------------------------------------------------------------------
// mode "flushdir": scenarios of CollFSFlushDir.tla (two directories; appends, Flush(path, short),
// MarshalManifest; every started Keep write completes before the next call).  The calls are logged
// as usual (for the CollFS / CollFSStore contract a flush is a stuttering step); in addition, at
// quiescence after every call, an in-package accessor reports per file whether all its segments
// are stored and whether any block is shared by files of different directories (event "stored",
// compared with the model's prediction by checks/C09.py: a difference is drift, not a verdict).

func vcfsSegState(fs CollectionFileSystem) (stored map[string]bool, cross bool, flushing bool) {
	stored = map[string]bool{}
	blockDir := map[string]string{}
	cfs := fs.(*collectionFileSystem)
	var walk func(dn *dirnode, dir string)
	walk = func(dn *dirnode, dir string) {
		dn.RLock()
		defer dn.RUnlock()
		for name, n := range dn.inodes {
			switch n := n.(type) {
			case *dirnode:
				walk(n, dir+"/"+name)
			case *filenode:
				n.RLock()
				all := true
				for _, seg := range n.segments {
					switch seg := seg.(type) {
					case storedSegment:
						// the whole locator: the fake Keep's hint numbers the PutB call, so equal
						// contents written twice are still two blocks
						h := seg.locator
						if d, ok := blockDir[h]; ok && d != dir && seg.size > 0 {
							cross = true
						}
						blockDir[h] = dir
					case *memSegment:
						all = false
						if seg.flushing != nil {
							select {
							case <-seg.flushing:
							default:
								flushing = true
							}
						}
					}
				}
				n.RUnlock()
				stored[name] = all
			}
		}
	}
	walk(cfs.fileSystem.root.(*dirnode), ".")
	return
}

func vcfsRunFlushDir(scn vcfsScenario) []vcfsEvent {
	r := vcfsNewRun(scn)
	maxBlockSize = scn.BS
	r.keep.onDone = func(p *vcfsPut, ok bool) {
		r.log(vcfsEvent{"ev": "putb", "k": p.K, "ok": ok, "insave": !p.BG, "n": len(p.Data)})
	}
	if r.start(vcfsEvent{"fail": "", "nameclass": ""}) != nil {
		return r.events
	}
	r.events[0]["manifest"] = ""
	handle := map[string]int{"a": 1, "b": 2, "c": 3, "e": 4}
	path := map[string][]string{"a": {"a"}, "b": {"b"}, "c": {"d", "c"}, "e": {"d", "e"}}
	r.do(vcfsOp{Op: "mkdir", P: []string{"d"}})
	for _, f := range []string{"a", "b", "c", "e"} {
		r.do(vcfsOp{Op: "open", H: handle[f], P: path[f], Acc: "rw", Cr: true})
	}
	observe := func() {
		if r.dead {
			return
		}
		var stored map[string]bool
		var cross bool
		r.guard("observe", func() {
			// every started write has returned and its goroutine has finished
			for i := 0; i < 20000; i++ {
				var fl bool
				stored, cross, fl = vcfsSegState(r.fs)
				if !fl && r.keep.inflightNow() == 0 {
					return
				}
				time.Sleep(250 * time.Microsecond)
			}
		})
		if r.dead {
			return
		}
		r.log(vcfsEvent{"ev": "stored", "files": stored, "cross": cross})
		r.snap()
	}
	for _, st := range scn.FSteps {
		if r.dead {
			break
		}
		switch st.Op {
		case "append":
			r.do(vcfsOp{Op: "write", H: handle[st.F], D: st.D})
			observe()
		case "flush":
			var err error
			r.guard("flush", func() { err = r.fs.Flush(st.Path, st.Short) })
			if !r.dead {
				r.log(vcfsEvent{"ev": "flush", "kind": "flush:" + st.Path, "short": st.Short, "ok": err == nil})
			}
			observe()
		case "marshal":
			r.save("marshal")
			observe()
		}
	}
	if !r.dead {
		r.posReads()
	}
	return r.events
}

func TestVerifC09(t *testing.T) {
	var scns []*vcfsScenario
	vReadNDJSON(os.Getenv("VERIF_SCENARIOS"), func() interface{} {
		s := &vcfsScenario{}
		scns = append(scns, s)
		return s
	})
	defer func(bs int) { maxBlockSize = bs }(maxBlockSize)
	tw := vNewTraceWriter(os.Getenv("VERIF_TRACES"))
	ntr := 0
	hangs := 0
	countHangs := func(evs []vcfsEvent) {
		for _, ev := range evs {
			if ev["ev"] == "hang" {
				hangs++
				return
			}
		}
	}
	for _, s := range scns {
		if hangs >= 2 {
			break // every further scenario could cost the watchdog deadline again
		}
		fmt.Fprintf(os.Stderr, "VERIF-SCN %d\n", s.ID)
		if s.Mode == "flushdir" {
			for _, ev := range vcfsRunFlushDir(*s) {
				tw.Write(ev)
			}
			ntr++
			continue
		}
		if s.Fail == "kth_all" {
			// failure of the k-th write, for every k: count the writes of a failure-free run first
			base := *s
			base.Fail = ""
			evs, n := vcfsRunStore(base, 0)
			for _, ev := range evs {
				tw.Write(ev)
			}
			ntr++
			ks := []int{}
			for k := 1; k <= n; k++ {
				ks = append(ks, k)
			}
			if s.FailK > 0 && len(ks) > s.FailK {
				// more writes than the budget: a seeded sample, always with the first and the last
				rng := rand.New(rand.NewSource(s.RSeed))
				rng.Shuffle(len(ks)-2, func(i, j int) { ks[1+i], ks[1+j] = ks[1+j], ks[1+i] })
				ks = append(ks[:s.FailK-1], n)
			}
			for _, k := range ks {
				sk := *s
				sk.Fail = "kth"
				evs, _ := vcfsRunStore(sk, k)
				countHangs(evs)
				for _, ev := range evs {
					tw.Write(ev)
				}
				ntr++
			}
			continue
		}
		evs, _ := vcfsRunStore(*s, s.FailK)
		countHangs(evs)
		for _, ev := range evs {
			tw.Write(ev)
		}
		ntr++
	}
	tw.Close()
	fmt.Println("VERIF-DRIVER-DONE", len(scns), ntr)
}
