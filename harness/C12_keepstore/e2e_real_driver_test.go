//go:build verif

// RUN stage of the composed write-then-read executions (specs/keepclient/KeepE2E.tla) bound to BOTH
// real components at once: the real keepclient.KeepClient (PutB, Get) talks through its HTTPClient
// interface, over real HTTP, to N REAL keepstore handlers in this process (each its own
// handler.setup + router behind an httptest.Server, with its own Directory volume in a temp dir).
// harness/C12_keepclient/e2e_driver_test.go binds the same model to the client against fake stores.
//
// Scenario fields as in KeepE2E: n, want, wr (services the client may write to), refuse (writable
// services that refuse PUTs for good), downs (services unreachable at read time); services are
// named by their reference rendezvous rank for the block.
//
// Concretiser (trusted):
//   service of rank k  = one keepstore from a pool built once (8 with a writable volume, 8 with a
//                        read-only volume), listed in the client's service table under a seeded
//                        uuid (what the client sorts by), "read_only" = k not in wr
//   refuse             = a keepstore whose only volume carries a fresh "full" marker (<root>/full ->
//                        far-future unix time) or, for every other refusing service, whose only
//                        volume is read-only.  Both make the REAL handler answer 503 ("Full"),
//                        which keepclient.putReplicas never retries: a permanent refusal, exactly
//                        what KeepE2E assumes (checked: see the "refusals" counter in the output).
//   downs              = the HTTPClient wrapper returns a connection error for GETs to that service
// Abstraction (trusted): askedw = ranks that received a PUT request (seen in the HTTPClient
//   wrapper); holders = ranks whose volume directory contains a file named <hash> (directory scan);
//   seq = ranks that received a GET request, in order; get ok = Get returned the block's bytes.
// The driver decides nothing.

package main

import (
	"bytes"
	"context"
	"crypto/md5"
	"encoding/json"
	"errors"
	"fmt"
	"io"
	"io/ioutil"
	"math/rand"
	"net/http"
	"net/http/httptest"
	"net/url"
	"os"
	"path/filepath"
	"sort"
	"strconv"
	"strings"
	"sync"
	"syscall"
	"testing"
	"time"

	"git.arvados.org/arvados.git/lib/config"
	"git.arvados.org/arvados.git/sdk/go/arvados"
	"git.arvados.org/arvados.git/sdk/go/arvadosclient"
	"git.arvados.org/arvados.git/sdk/go/ctxlog"
	"git.arvados.org/arvados.git/sdk/go/keepclient"
	"github.com/prometheus/client_golang/prometheus"
	"github.com/sirupsen/logrus"
)

type vE2ERScenario struct {
	ID     int   `json:"id"`
	N      int   `json:"n"`
	Want   int   `json:"want"`
	Wr     []int `json:"wr"`
	Refuse []int `json:"refuse"`
	Downs  []int `json:"downs"`
	RSeed  int64 `json:"rseed"`
}

// reference order: ids sorted by descending hex MD5(hash ++ last 15 characters of the uuid)
// (copied from harness/C12_keepclient/rdv_driver_test.go)
func vE2ERRefOrder(hash string, uuid map[int]string, ids []int) []int {
	w := map[int]string{}
	for _, id := range ids {
		u := uuid[id]
		w[id] = fmt.Sprintf("%x", md5.Sum([]byte(hash+u[len(u)-15:])))
	}
	out := append([]int(nil), ids...)
	sort.Slice(out, func(i, j int) bool { return w[out[i]] > w[out[j]] })
	return out
}

const vE2ERChars = "0123456789abcdefghijklmnopqrstuvwxyz"

func vE2ERUUID(rng *rand.Rand) string {
	b := make([]byte, 15)
	for i := range b {
		b[i] = vE2ERChars[rng.Intn(len(vE2ERChars))]
	}
	return "zzzzz-bi6l4-" + string(b)
}

// one real keepstore: handler.setup + router behind an httptest.Server, one Directory volume
type vE2ERStore struct {
	h    *handler
	srv  *httptest.Server
	root string
	host string // host:port the client connects to
	port int
}

var vE2ERSeq int

func vE2ERNewStore(base string, readonly bool) *vE2ERStore {
	logger := logrus.New()
	logger.Out = io.Discard
	ldr := config.NewLoader(bytes.NewBufferString("Clusters: {zzzzz: {}}"), logger)
	ldr.Path = "-"
	cfg, err := ldr.Load()
	if err != nil {
		panic("verif: config load: " + err.Error())
	}
	cluster, err := cfg.GetCluster("")
	if err != nil {
		panic("verif: config cluster: " + err.Error())
	}
	cluster.SystemRootToken = "verifsystemroottoken0000000000000000000000000000000"
	cluster.ManagementToken = "verifmanagementtoken000000000000000000000000000000"
	cluster.Collections.BlobSigning = false
	cluster.Collections.BlobSigningKey = ""
	vE2ERSeq++
	root := filepath.Join(base, fmt.Sprintf("store%d", vE2ERSeq))
	if err := os.MkdirAll(root, 0755); err != nil {
		panic("verif: mkdir: " + err.Error())
	}
	params, _ := json.Marshal(map[string]interface{}{"Root": root})
	cluster.Volumes = map[string]arvados.Volume{
		fmt.Sprintf("zzzzz-nyw5e-%015d", vE2ERSeq): {Driver: "Directory", DriverParameters: params, ReadOnly: readonly, Replication: 1},
	}
	h := &handler{}
	ctx := ctxlog.Context(context.Background(), logger)
	if err := h.setup(ctx, cluster, "", prometheus.NewRegistry(), arvados.URL{Host: "localhost:12345", Scheme: "http"}); err != nil {
		panic("verif: handler.setup: " + err.Error())
	}
	s := &vE2ERStore{h: h, root: root}
	s.srv = httptest.NewServer(h.Handler)
	u, err := url.Parse(s.srv.URL)
	if err != nil {
		panic(err)
	}
	s.host = u.Host
	s.port, _ = strconv.Atoi(u.Port())
	return s
}

// the client's HTTPClient: real HTTP to the keepstores, records who was asked, injects "down"
type vE2ERClient struct {
	mu       sync.Mutex
	real     *http.Client
	rank     map[string]int
	down     map[int]bool
	askedW   map[int]bool
	askedR   []int
	putCodes map[int]int // rank -> status of the last PUT reply
}

func (f *vE2ERClient) Do(req *http.Request) (*http.Response, error) {
	f.mu.Lock()
	r := f.rank[req.URL.Host]
	isdown := f.down[r]
	switch req.Method {
	case "PUT":
		f.askedW[r] = true
	case "GET":
		f.askedR = append(f.askedR, r)
	}
	f.mu.Unlock()
	if req.Method == "GET" && isdown {
		return nil, errors.New("verif: connection refused")
	}
	resp, err := f.real.Do(req)
	if err == nil && req.Method == "PUT" {
		f.mu.Lock()
		f.putCodes[r] = resp.StatusCode
		f.mu.Unlock()
	}
	return resp, err
}

func vE2ERHolds(root, hash string) bool {
	found := false
	filepath.Walk(root, func(p string, fi os.FileInfo, err error) error {
		if err == nil && !fi.IsDir() && fi.Name() == hash {
			found = true
		}
		return nil
	})
	return found
}

var vE2ERRefusals = map[string]int{}

func vRunE2EReal(scn vE2ERScenario, rw, ro []*vE2ERStore, hc *http.Client) []map[string]interface{} {
	rng := rand.New(rand.NewSource(int64(scn.ID)*32452843 + scn.RSeed))
	data := make([]byte, 1+rng.Intn(300))
	rng.Read(data)
	hash := fmt.Sprintf("%x", md5.Sum(data))
	uuid := map[int]string{}
	var tmp []int
	for i := 1; i <= scn.N; i++ {
		uuid[i] = vE2ERUUID(rng)
		tmp = append(tmp, i)
	}
	order := vE2ERRefOrder(hash, uuid, tmp) // order[k] = temporary id of the service with rank k+1
	in := func(xs []int, r int) bool {
		for _, x := range xs {
			if x == r {
				return true
			}
		}
		return false
	}
	f := &vE2ERClient{real: hc, rank: map[string]int{}, down: map[int]bool{}, askedW: map[int]bool{}, putCodes: map[int]int{}}
	storeOf := map[int]*vE2ERStore{}
	how := map[int]string{}
	var items []string
	for k, id := range order {
		rank := k + 1
		st := rw[id-1]
		os.Remove(filepath.Join(st.root, "full"))
		if in(scn.Refuse, rank) {
			if rng.Intn(2) == 0 {
				st = ro[id-1] // only volume read-only: handlePUT finds no writable volume
				how[rank] = "readonly-volume"
			} else {
				far := strconv.FormatInt(time.Now().Unix()+400000000, 10)
				if err := os.Symlink(far, filepath.Join(st.root, "full")); err != nil {
					panic("verif: symlink: " + err.Error())
				}
				how[rank] = "full-volume"
			}
		} else if !in(scn.Wr, rank) && rng.Intn(2) == 0 {
			st = ro[id-1] // a service the client must not write to may well be read-only itself
		}
		storeOf[rank] = st
		f.rank[st.host] = rank
		f.down[rank] = in(scn.Downs, rank)
		items = append(items, fmt.Sprintf(`{"uuid":%q,"service_host":"127.0.0.1","service_port":%d,"service_ssl_flag":false,"service_type":"disk","read_only":%v}`,
			uuid[id], st.port, !in(scn.Wr, rank)))
	}
	defer func() {
		for _, st := range storeOf {
			os.RemoveAll(filepath.Join(st.root, hash[:3]))
			os.Remove(filepath.Join(st.root, "full"))
		}
	}()
	rng.Shuffle(len(items), func(i, j int) { items[i], items[j] = items[j], items[i] })
	kc := &keepclient.KeepClient{
		Arvados:       &arvadosclient.ArvadosClient{ApiToken: "verif-token", ApiServer: "localhost:9"},
		Want_replicas: scn.Want, Retries: 0, HTTPClient: f, BlockCache: &keepclient.BlockCache{},
	}
	if err := kc.LoadKeepServicesFromJSON(`{"items":[` + strings.Join(items, ",") + `]}`); err != nil {
		panic(err)
	}
	nn := func(xs []int) []int {
		if xs == nil {
			return []int{}
		}
		return xs
	}
	evs := []map[string]interface{}{{"ev": "reset", "scn": scn.ID, "n": scn.N, "want": scn.Want,
		"wr": nn(scn.Wr), "refuse": nn(scn.Refuse), "downs": nn(scn.Downs), "hash": hash}}
	_, _, err := kc.PutB(data)
	holders, askedw := []int{}, []int{}
	for rank := 1; rank <= scn.N; rank++ {
		if vE2ERHolds(storeOf[rank].root, hash) {
			holders = append(holders, rank)
		}
	}
	f.mu.Lock()
	for r := range f.askedW {
		askedw = append(askedw, r)
	}
	codes := map[string]int{}
	for r, c := range f.putCodes {
		codes[strconv.Itoa(r)] = c
		if in(scn.Refuse, r) {
			vE2ERRefusals[fmt.Sprintf("%s:%d", how[r], c)]++
		}
	}
	f.mu.Unlock()
	sort.Ints(askedw)
	evs = append(evs, map[string]interface{}{"ev": "put", "ok": err == nil, "holders": holders, "askedw": askedw, "codes": codes})
	loc := fmt.Sprintf("%s+%d", hash, len(data))
	ok := false
	if rdr, _, _, err := kc.Get(loc); err == nil {
		got, rerr := ioutil.ReadAll(rdr)
		rdr.Close()
		ok = rerr == nil && bytes.Equal(got, data)
	}
	f.mu.Lock()
	seq := append([]int{}, f.askedR...)
	f.mu.Unlock()
	evs = append(evs, map[string]interface{}{"ev": "get", "ok": ok, "seq": seq})
	return evs
}

func TestVerifC12E2EReal(t *testing.T) {
	var scns []vE2ERScenario
	vReadNDJSON(os.Getenv("VERIF_SCENARIOS"), func() interface{} { scns = append(scns, vE2ERScenario{}); return &scns[len(scns)-1] })
	maxn := 1
	for _, s := range scns {
		if s.N > maxn {
			maxn = s.N
		}
	}
	base := os.Getenv("VERIF_SCRATCH")
	if base == "" {
		base = os.TempDir()
	}
	base, err := os.MkdirTemp(base, "c12e2e")
	if err != nil {
		t.Fatal(err)
	}
	defer os.RemoveAll(base)
	var fs syscall.Statfs_t
	if err := syscall.Statfs(base, &fs); err == nil && fs.Bavail*uint64(fs.Bsize) < 2<<30 {
		t.Fatalf("verif: less than 2 GiB free under %s: Directory volumes would report themselves full", base)
	}
	if e, ok := ctxlog.FromContext(context.Background()).(*logrus.Entry); ok {
		e.Logger.SetOutput(io.Discard)
	}
	// all keepstores are built before the first request (handler.setup replaces the global buffer pool)
	var rw, ro []*vE2ERStore
	for i := 0; i < maxn; i++ {
		rw = append(rw, vE2ERNewStore(base, false))
		ro = append(ro, vE2ERNewStore(base, true))
	}
	hc := &http.Client{Transport: &http.Transport{MaxIdleConnsPerHost: 8, DisableCompression: true}}
	out := vNewTraceWriter(os.Getenv("VERIF_TRACES"))
	for _, scn := range scns {
		for _, ev := range vRunE2EReal(scn, rw, ro, hc) {
			out.Write(ev)
		}
	}
	out.Close()
	for _, s := range append(rw, ro...) {
		s.srv.Close()
	}
	rj, _ := json.Marshal(vE2ERRefusals)
	fmt.Println("VERIF-E2EREAL-REFUSALS", string(rj))
	fmt.Println("VERIF-DRIVER-DONE scenarios:", len(scns))
}
