//go:build verif

// RUN stage of C07 (DESIGN.md section 6, C07), part 1: drives the real SignLocator /
// VerifySignature / SignManifest (sdk/go/arvados/blob_signature.go) from the cases enumerated by
// specs/crypto/BlobSig.tla (and seeded random manifests made by checks/C07.py) and records the
// abstract trace judged by specs/crypto/BlobSigTrace.tla.  It also records the CONCRETE presented
// locator / token / key / TTL of every case, from which checks/C07.py builds the scenarios of the
// keepstore driver (harness/C07_keepstore), so that both drivers share one concretiser.
//
// The driver decides nothing.
//
// Concretiser (trusted base):
//   hashes are MD5s of seeded random blocks; tokens are seeded strings over [a-z0-9] plus, for some
//   seeds, '@', '+', '/' and '-'; keys are seeded random bytes; TTLs and expiry times are seeded;
//   the reference signature is vC07RefSig: HMAC-SHA1 written out from RFC 2104 over
//   [hash, token, expiry.to_s(16), ttl.to_s(16)].join('@'), lowercase hex, as
//   services/api/app/models/blob.rb computes it (crypto/sha1 is the only primitive used);
//   perturbations are string edits of the signed locator (see vC07Perturb).
// Abstraction: rel = presented expiry against the clock read before and after the call;
//   res = which of the package's error values came back; manifests are split into whitespace runs
//   and tokens, block locator tokens into their '+'-separated hints.

package arvados

import (
	"crypto/md5"
	"crypto/sha1"
	"encoding/hex"
	"errors"
	"fmt"
	"math/rand"
	"os"
	"strconv"
	"strings"
	"testing"
	"time"
)

type vC07Shape struct {
	Size  bool     `json:"size"`
	Hints []string `json:"hints"`
}

type vC07Stream struct {
	Locs  []vC07Shape `json:"locs"`
	Files int         `json:"files"`
}

type vC07Scn struct {
	ID      int          `json:"id"`
	Kind    string       `json:"kind"`
	Ploc    string       `json:"ploc"`
	Pver    string       `json:"pver"`
	Erel    string       `json:"erel"`
	Size    bool         `json:"size"`
	Before  int          `json:"before"`
	After   int          `json:"after"`
	Present bool         `json:"present"`
	Wf      bool         `json:"wf"`
	Same    bool         `json:"same"`
	Lenonly bool         `json:"lenonly"`
	CSeed   int64        `json:"cseed"`
	Streams []vC07Stream `json:"streams"`
	OddWS   bool         `json:"oddws"`
}

// vC07RefSig is the reference signature, written from blob.rb:
//
//	OpenSSL::HMAC.hexdigest('sha1', key, [blob_hash, api_token, timestamp, blob_signature_ttl].join('@'))
//
// with timestamp = expire.to_s(16) and blob_signature_ttl = ttl.to_i.to_s(16).
func vC07RefSig(key []byte, hash, token string, expiry, ttl int64) (sig, exphex string) {
	exphex = strconv.FormatInt(expiry, 16)
	msg := strings.Join([]string{hash, token, exphex, strconv.FormatInt(ttl, 16)}, "@")
	// HMAC (RFC 2104) with SHA-1, block size 64
	k := key
	if len(k) > 64 {
		s := sha1.Sum(k)
		k = s[:]
	}
	ipad := make([]byte, 64)
	opad := make([]byte, 64)
	copy(ipad, k)
	copy(opad, k)
	for i := 0; i < 64; i++ {
		ipad[i] ^= 0x36
		opad[i] ^= 0x5c
	}
	inner := sha1.Sum(append(ipad, []byte(msg)...))
	outer := sha1.Sum(append(opad, inner[:]...))
	return hex.EncodeToString(outer[:]), exphex
}

const vC07Hex = "0123456789abcdef"

func vC07Token(rng *rand.Rand) string {
	alpha := "abcdefghijklmnopqrstuvwxyz0123456789"
	switch rng.Intn(4) {
	case 0:
		alpha += "@+"
	case 1:
		alpha += "@+/-_ABCDEFXYZ"
	}
	n := 1 + rng.Intn(60)
	b := make([]byte, n)
	for i := range b {
		b[i] = alpha[rng.Intn(len(alpha))]
	}
	s := string(b)
	if rng.Intn(5) == 0 {
		s = "v2/zzzzz-gj3su-" + s[:len(s)/2] + "/" + s[len(s)/2:]
	}
	if rng.Intn(6) == 0 {
		s += "@" + s
	}
	return s
}

func vC07Hint(rng *rand.Rand) string {
	letters := "BCDEFGHIJKLMNOPQSTUVWXYZ" // no A (signature), no R (keepstore proxies +R locators)
	alpha := "ABCDEFGHIJKLMNOPQRSTUVWXYZabcdefghijklmnopqrstuvwxyz0123456789@_-"
	n := rng.Intn(13)
	b := make([]byte, 1+n)
	b[0] = letters[rng.Intn(len(letters))]
	for i := 1; i <= n; i++ {
		b[i] = alpha[rng.Intn(len(alpha))]
	}
	return string(b)
}

func vC07Block(rng *rand.Rand) ([]byte, string) {
	d := make([]byte, rng.Intn(65))
	rng.Read(d)
	return d, fmt.Sprintf("%x", md5.Sum(d))
}

func vC07TTL(rng *rand.Rand) int64 {
	switch rng.Intn(5) {
	case 0:
		return 1209600
	case 1:
		return int64(1 + rng.Intn(16))
	case 2:
		return int64(1 + rng.Intn(1<<31-1))
	default:
		return int64(1 + rng.Intn(4000000))
	}
}

func vC07Time(rng *rand.Rand, now int64, rel string) int64 {
	switch rel {
	case "past":
		if rng.Intn(4) == 0 {
			return now - 2 - int64(rng.Intn(3))
		}
		return now - 2 - int64(rng.Intn(10000000))
	case "near":
		return now + int64(rng.Intn(2))
	}
	switch rng.Intn(6) {
	case 0: // anywhere up to the largest expiry the 8-digit field can hold
		return now + 86400 + rng.Int63n(0xffffffff-now-86400+1)
	case 1:
		return []int64{0x7fffffff, 0x80000000, 0x80000001, 0xfffffffe, 0xffffffff}[rng.Intn(5)]
	}
	return now + 86400 + int64(rng.Intn(100000000))
}

func vC07ReplaceAt(s string, i int, c byte) string {
	return s[:i] + string(c) + s[i+1:]
}

func vC07OtherHex(rng *rand.Rand, c byte) byte {
	for {
		d := vC07Hex[rng.Intn(16)]
		if d != c {
			return d
		}
	}
}

func vC07Letters(s string) []int {
	var out []int
	for i := 0; i < len(s); i++ {
		if s[i] >= 'a' && s[i] <= 'f' {
			out = append(out, i)
		}
	}
	return out
}

// vC07Perturb edits the signature hint fields. ok=false: the hint is dropped altogether.
func vC07Perturb(rng *rand.Rand, ploc string, sg, ex string, now int64) (sig, exp string, keep bool, joined bool) {
	const nonhex = "gzGZ_-"
	switch ploc {
	case "exp_future":
		for {
			x := fmt.Sprintf("%08x", vC07Time(rng, now, "future"))
			if x != ex {
				return sg, x, true, false
			}
		}
	case "exp_past":
		for {
			x := fmt.Sprintf("%08x", vC07Time(rng, now, "past"))
			if x != ex {
				return sg, x, true, false
			}
		}
	case "expchar_future", "expchar_past":
		type cand struct {
			i int
			c byte
		}
		var cs []cand
		for i := 0; i < len(ex); i++ {
			for j := 0; j < 16; j++ {
				c := vC07Hex[j]
				if c == ex[i] {
					continue
				}
				v, err := strconv.ParseInt(vC07ReplaceAt(ex, i, c), 16, 64)
				if err != nil {
					continue
				}
				if ploc == "expchar_future" && v >= now+86400 || ploc == "expchar_past" && v <= now-2 {
					cs = append(cs, cand{i, c})
				}
			}
		}
		if len(cs) == 0 {
			panic("verif: no single-character expiry perturbation available")
		}
		c := cs[rng.Intn(len(cs))]
		return sg, vC07ReplaceAt(ex, c.i, c.c), true, false
	case "expcase":
		l := vC07Letters(ex)
		if len(l) == 0 {
			panic("verif: expiry without a letter")
		}
		i := l[rng.Intn(len(l))]
		return sg, vC07ReplaceAt(ex, i, ex[i]-32), true, false
	case "sigchar":
		i := rng.Intn(len(sg))
		return vC07ReplaceAt(sg, i, vC07OtherHex(rng, sg[i])), ex, true, false
	case "sigcase":
		l := vC07Letters(sg)
		if len(l) == 0 {
			i := rng.Intn(len(sg))
			return vC07ReplaceAt(sg, i, vC07OtherHex(rng, sg[i])), ex, true, false
		}
		i := l[rng.Intn(len(l))]
		return vC07ReplaceAt(sg, i, sg[i]-32), ex, true, false
	case "nosig":
		return "", "", false, false
	case "sigchar_nonhex":
		return vC07ReplaceAt(sg, rng.Intn(len(sg)), nonhex[rng.Intn(len(nonhex))]), ex, true, false
	case "expchar_nonhex":
		return sg, vC07ReplaceAt(ex, rng.Intn(len(ex)), nonhex[rng.Intn(len(nonhex))]), true, false
	case "sig_short":
		i := rng.Intn(len(sg))
		return sg[:i] + sg[i+1:], ex, true, false
	case "sig_long":
		i := rng.Intn(len(sg) + 1)
		return sg[:i] + string(vC07Hex[rng.Intn(16)]) + sg[i:], ex, true, false
	case "exp_short":
		i := rng.Intn(len(ex))
		return sg, ex[:i] + ex[i+1:], true, false
	case "exp_long":
		i := rng.Intn(len(ex) + 1)
		return sg, ex[:i] + string(vC07Hex[rng.Intn(16)]) + ex[i:], true, false
	case "noat":
		return sg, ex, true, true
	}
	return sg, ex, true, false // none, hash
}

func vC07Rel(eprime int64, t0, t1 time.Time) string {
	if eprime < t0.Unix() {
		return "past" // e' <= floor(t0) - 1 < t0 <= the clock the code read
	}
	if eprime > t1.Unix() {
		return "future" // e' >= floor(t1) + 1 > t1 >= the clock the code read
	}
	return "near"
}

func vC07Res(err error) string {
	switch {
	case err == nil:
		return "ok"
	case errors.Is(err, ErrSignatureExpired):
		return "expired"
	case errors.Is(err, ErrSignatureMissing):
		return "missing"
	case errors.Is(err, ErrSignatureInvalid):
		return "invalid"
	}
	return "denied" // some other error: a refusal of unspecified class (reported as drift by the check)
}

// vC07SigHint finds the signature hint (+A<sig>@<exp>) of a locator, wherever it is placed.
func vC07SigHint(loc string) (sig, exp string, ok bool) {
	for _, h := range strings.Split(loc, "+")[1:] {
		if strings.HasPrefix(h, "A") {
			if i := strings.Index(h, "@"); i >= 0 {
				return h[1:i], h[i+1:], true
			}
		}
	}
	return "", "", false
}

func vC07RunVerify(scn *vC07Scn, rng *rand.Rand) []map[string]interface{} {
	now := time.Now().Unix()
	blk1, h1 := vC07Block(rng)
	pdata, h2 := vC07Block(rng)
	for h2 == h1 {
		pdata, h2 = vC07Block(rng)
	}
	t1 := vC07Token(rng)
	t2 := vC07Token(rng)
	for t2 == t1 {
		t2 = vC07Token(rng)
	}
	if rng.Intn(3) == 0 { // a near miss: one character differs
		i := rng.Intn(len(t1))
		c := byte('a' + rng.Intn(26))
		if c == t1[i] {
			c = '0'
		}
		t2 = vC07ReplaceAt(t1, i, c)
	}
	k1 := make([]byte, 1+rng.Intn(100))
	rng.Read(k1)
	k2 := make([]byte, 1+rng.Intn(100))
	rng.Read(k2)
	if rng.Intn(3) == 0 {
		k2 = append([]byte{}, k1...)
		k2[rng.Intn(len(k2))] ^= 1 << uint(rng.Intn(8))
	}
	for string(k2) == string(k1) {
		k2 = append(k2, 'x')
	}
	ttl1 := vC07TTL(rng)
	ttl2 := vC07TTL(rng)
	for ttl2 == ttl1 {
		ttl2 = vC07TTL(rng)
	}
	e := vC07Time(rng, now, scn.Erel)
	if scn.Ploc == "expcase" {
		for len(vC07Letters(fmt.Sprintf("%08x", e))) == 0 {
			e = vC07Time(rng, now, scn.Erel)
		}
	}
	phash := h1
	pblock := blk1
	if scn.Ploc == "hash" {
		phash = h2
		pblock = pdata
	}
	var sizehint string
	if scn.Size {
		sizehint = "+" + strconv.Itoa(len(blk1))
	}
	var before, after string
	for i := 0; i < scn.Before; i++ {
		before += "+" + vC07Hint(rng)
	}
	for i := 0; i < scn.After; i++ {
		after += "+" + vC07Hint(rng)
	}
	prefix := h1 + sizehint + before

	events := []map[string]interface{}{}
	// the format clause: SignLocator against the reference
	refsig, refexp := vC07RefSig(k1, h1, t1, e, ttl1)
	signed := SignLocator(prefix, t1, time.Unix(e, 0), time.Duration(ttl1)*time.Second, k1)
	// judged: the output carries a signature hint whose fields equal the reference; recorded only
	// (drift): the hint is appended directly after the input locator
	ev := map[string]interface{}{"ev": "signloc", "prefixok": strings.HasPrefix(signed, prefix+"+A"), "sigok": false, "expok": false, "out": signed}
	gosig, goexp, _ := vC07SigHint(signed)
	ev["sigok"] = gosig == refsig
	ev["expok"] = goexp == refexp
	events = append(events, ev)
	// the locator under test is built from the reference signature or from the code's own one
	src := "ref"
	sg, ex := refsig, refexp
	if rng.Intn(2) == 0 && len(gosig) == 40 && len(goexp) == 8 {
		src = "go"
		sg, ex = gosig, goexp
	}
	for len(ex) < 8 {
		ex = "0" + ex
	}
	psig, pexp, keep, joined := vC07Perturb(rng, scn.Ploc, sg, ex, now)
	loc := phash + sizehint + before
	if keep {
		if joined {
			loc += "+A" + psig + pexp
		} else {
			loc += "+A" + psig + "@" + pexp
		}
	}
	loc += after
	eprime := int64(-1)
	if v, err := strconv.ParseInt(pexp, 16, 64); err == nil && keep && !joined {
		eprime = v
	}
	vtok, vttl, vkey := t1, ttl1, k1
	switch scn.Pver {
	case "token":
		vtok = t2
	case "ttl":
		vttl = ttl2
	case "key":
		vkey = k2
	}
	t0 := time.Now()
	err := VerifySignature(loc, vtok, time.Duration(vttl)*time.Second, vkey)
	t1c := time.Now()
	rel := "future"
	if eprime >= 0 {
		rel = vC07Rel(eprime, t0, t1c)
	}
	events = append(events, map[string]interface{}{"ev": "verify", "via": "arvados", "rel": rel, "res": vC07Res(err)})
	reset := map[string]interface{}{
		"ev": "reset", "scn": scn.ID, "kind": "verify", "wf": scn.Wf, "same": scn.Same, "lenonly": scn.Lenonly,
		"loc": loc, "vtoken": vtok, "vkey_hex": hex.EncodeToString(vkey), "vttl": strconv.FormatInt(vttl, 10),
		"eprime": strconv.FormatInt(eprime, 10), "pdata_hex": hex.EncodeToString(pblock), "phash": phash,
		"src": src, "signed_token": t1, "signed_ttl": strconv.FormatInt(ttl1, 10),
	}
	return append([]map[string]interface{}{reset}, events...)
}

// ---------------------------------------------------------------------------- manifests

func vC07IsSpace(c byte) bool { return c == ' ' || c == '\t' || c == '\n' || c == '\r' || c == '\f' }

// vC07Split splits s into alternating whitespace runs and tokens: ws[0] tok[0] ws[1] tok[1] ... ws[n]
func vC07Split(s string) (ws, toks []string) {
	i := 0
	for {
		j := i
		for j < len(s) && vC07IsSpace(s[j]) {
			j++
		}
		ws = append(ws, s[i:j])
		if j == len(s) {
			return
		}
		i = j
		for j < len(s) && !vC07IsSpace(s[j]) {
			j++
		}
		toks = append(toks, s[i:j])
		i = j
	}
}

func vC07HintList(tok string) (hash string, hints []string) {
	parts := strings.Split(tok, "+")
	hints = []string{}
	for _, p := range parts[1:] {
		if strings.HasPrefix(p, "A") {
			hints = append(hints, "A")
		} else {
			hints = append(hints, p)
		}
	}
	return parts[0], hints
}

func vC07Name(rng *rand.Rand) string {
	alpha := "abcdefghijklmnopqrstuvwxyzABCDEF0123456789._-"
	n := 1 + rng.Intn(12)
	var sb strings.Builder
	for i := 0; i < n; i++ {
		switch rng.Intn(12) {
		case 0:
			sb.WriteString("\\040")
		case 1:
			sb.WriteString("\\134")
		default:
			sb.WriteByte(alpha[rng.Intn(len(alpha))])
		}
	}
	return sb.String()
}

func vC07RunManifest(scn *vC07Scn, rng *rand.Rand) []map[string]interface{} {
	now := time.Now().Unix()
	tok := vC07Token(rng)
	key := make([]byte, 1+rng.Intn(100))
	rng.Read(key)
	ttl := vC07TTL(rng)
	e := vC07Time(rng, now, "future")
	sep := func() string {
		if scn.OddWS {
			switch rng.Intn(6) {
			case 0:
				return "  "
			case 1:
				return "\t"
			case 2:
				return " \t "
			}
		}
		return " "
	}
	var sb strings.Builder
	isLoc := map[int]bool{}
	ntok := 0
	if scn.OddWS && rng.Intn(3) == 0 {
		sb.WriteString(" ")
	}
	for si, st := range scn.Streams {
		name := "."
		if si > 0 || rng.Intn(3) == 0 {
			name = "./" + vC07Name(rng)
			if rng.Intn(3) == 0 {
				name += "/" + vC07Name(rng)
			}
		}
		sb.WriteString(name)
		ntok++
		total := 0
		for _, sh := range st.Locs {
			blk, h := vC07Block(rng)
			loc := h
			if sh.Size {
				loc += "+" + strconv.Itoa(len(blk))
			}
			total += len(blk)
			for _, hk := range sh.Hints {
				if hk == "A" {
					fake := make([]byte, 20)
					rng.Read(fake)
					loc += "+A" + hex.EncodeToString(fake) + "@" + fmt.Sprintf("%08x", vC07Time(rng, now, []string{"past", "future"}[rng.Intn(2)]))
				} else {
					loc += "+" + vC07Hint(rng)
				}
			}
			sb.WriteString(sep())
			sb.WriteString(loc)
			isLoc[ntok] = true
			ntok++
		}
		nf := st.Files
		if nf < 1 {
			nf = 1
		}
		for f := 0; f < nf; f++ {
			sb.WriteString(sep())
			sb.WriteString(fmt.Sprintf("%d:%d:%s", rng.Intn(total+1), rng.Intn(total+1), vC07Name(rng)))
			ntok++
		}
		if scn.OddWS && si == len(scn.Streams)-1 && rng.Intn(3) == 0 {
			// no trailing newline
		} else if scn.OddWS && rng.Intn(5) == 0 {
			sb.WriteString("\n\n")
		} else {
			sb.WriteString("\n")
		}
	}
	manifest := sb.String()
	out := SignManifest(manifest, tok, time.Unix(e, 0), time.Duration(ttl)*time.Second, key)
	wsIn, tokIn := vC07Split(manifest)
	wsOut, tokOut := vC07Split(out)
	wssame := len(wsIn) == len(wsOut) && len(tokIn) == len(tokOut)
	if wssame {
		for i := range wsIn {
			wssame = wssame && wsIn[i] == wsOut[i]
		}
	}
	events := []map[string]interface{}{{
		"ev": "reset", "scn": scn.ID, "kind": "manifest", "wf": true, "same": true, "lenonly": false,
		"manifest": manifest, "signed": out, "token": tok,
	}}
	othersame, hashsame := true, true
	for i := range tokIn {
		if i >= len(tokOut) {
			break
		}
		if !isLoc[i] {
			othersame = othersame && tokIn[i] == tokOut[i]
			continue
		}
		hin, lin := vC07HintList(tokIn[i])
		hout, lout := vC07HintList(tokOut[i])
		hashsame = hashsame && hin == hout
		refsig, refexp := vC07RefSig(key, hin, tok, e, ttl)
		sigok := true
		for _, p := range strings.Split(tokOut[i], "+")[1:] {
			if strings.HasPrefix(p, "A") {
				sigok = sigok && p == "A"+refsig+"@"+refexp
			}
		}
		events = append(events, map[string]interface{}{"ev": "signtok", "hin": lin, "hout": lout, "sigok": sigok})
	}
	events = append(events, map[string]interface{}{"ev": "signman", "wssame": wssame, "othersame": othersame, "hashsame": hashsame})
	return events
}

func TestVerifC07(t *testing.T) {
	var scns []*vC07Scn
	vReadNDJSON(os.Getenv("VERIF_SCENARIOS"), func() interface{} {
		s := &vC07Scn{}
		scns = append(scns, s)
		return s
	})
	seed, _ := strconv.ParseInt(os.Getenv("VERIF_SEED"), 10, 64)
	tw := vNewTraceWriter(os.Getenv("VERIF_TRACES"))
	for _, scn := range scns {
		rng := rand.New(rand.NewSource(seed*1000003 + int64(scn.ID)*7919 + scn.CSeed))
		var evs []map[string]interface{}
		if scn.Kind == "manifest" {
			evs = vC07RunManifest(scn, rng)
		} else {
			evs = vC07RunVerify(scn, rng)
		}
		for _, ev := range evs {
			tw.Write(ev)
		}
	}
	tw.Close()
	fmt.Println("VERIF-DRIVER-DONE")
}
