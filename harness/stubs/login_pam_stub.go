// Pure-Go replacement of lib/controller/localdb/login_pam.go, substituted through `go test -overlay`
// only so that lib/controller/... compiles in a sandbox without the PAM C headers
// (github.com/msteinert/pam needs security/pam_appl.h).  No anchored code lives in the original.

package localdb

import (
	"context"
	"errors"

	"git.arvados.org/arvados.git/sdk/go/arvados"
)

type pamLoginController struct {
	Cluster *arvados.Cluster
	Parent  *Conn
}

func (ctrl *pamLoginController) Logout(ctx context.Context, opts arvados.LogoutOptions) (arvados.LogoutResponse, error) {
	return noopLogout(ctrl.Cluster, opts)
}

func (ctrl *pamLoginController) Login(ctx context.Context, opts arvados.LoginOptions) (arvados.LoginResponse, error) {
	return arvados.LoginResponse{}, errors.New("interactive login is not available")
}

func (ctrl *pamLoginController) UserAuthenticate(ctx context.Context, opts arvados.UserAuthenticateOptions) (arvados.APIClientAuthorization, error) {
	return arvados.APIClientAuthorization{}, errors.New("PAM is not available in this build (verif stub)")
}
