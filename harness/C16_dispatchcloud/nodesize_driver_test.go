//go:build verif

// RUN stage of C16 (a) (DESIGN.md section 6, C16): calls the real ChooseInstanceType with
// concretised inputs from specs/dispatch/NodeSize.tla's Gen configuration (or random inputs made by
// checks/C16.py) and records input + result for specs/dispatch/NodeSizeTrace.tla.
//
// The driver decides nothing.
//
// Concretiser (abstract scenario -> arvados.Cluster, arvados.Container):
//   RAM quantities x (type ram, ctr ram, kc, reserve)  ->  x * M bytes, M = 1 if scale = 1,
//                                                           M = 95 * 2^20 if scale = 95
//   scratch, tmps[j]                                   ->  bytes as they are
//   price p                                            ->  p * 0.125 (exact in binary; ties stay ties)
//   imgn n                                             ->  ContainerImage "<32 hex>+n" (n = 0: "arvados/jobs")
//   tmps                                               ->  one "tmp" mount each; every other scenario also
//                                                           gets a large "collection" and a "json" mount
//                                                           (must not count as scratch)
// Abstraction (recorded "reset" event): the same fields read back from the concrete objects.
// Result: pick = k if the returned struct equals configured type "t<k>", else 0;
//         listed = indices of ConstraintsNotSatisfiableError.AvailableTypes.

package dispatchcloud

import (
	"errors"
	"fmt"
	"os"
	"reflect"
	"regexp"
	"sort"
	"testing"

	"git.arvados.org/arvados.git/sdk/go/arvados"
)

type vNSType struct {
	Price   int   `json:"price"`
	RAM     int64 `json:"ram"`
	VCPUs   int   `json:"vcpus"`
	Scratch int64 `json:"scratch"`
	Pre     bool  `json:"pre"`
}

type vNSScenario struct {
	ID      int       `json:"id"`
	Types   []vNSType `json:"types"`
	RAM     int64     `json:"ram"`
	KC      int64     `json:"kc"`
	Reserve int64     `json:"reserve"`
	VCPUs   int       `json:"vcpus"`
	Tmps    []int64   `json:"tmps"`
	ImgN    int64     `json:"imgn"`
	Pre     bool      `json:"pre"`
	Scale   int64     `json:"scale"`
	Calls   int       `json:"calls"`
}

func vNSMult(scale int64) int64 {
	if scale == 95 {
		return 95 << 20
	}
	return 1
}

func vNSConcretise(s *vNSScenario) (*arvados.Cluster, *arvados.Container) {
	m := vNSMult(s.Scale)
	cc := &arvados.Cluster{InstanceTypes: arvados.InstanceTypeMap{}}
	for k, t := range s.Types {
		name := fmt.Sprintf("t%d", k+1)
		cc.InstanceTypes[name] = arvados.InstanceType{
			Name:         name,
			ProviderType: "p" + name,
			VCPUs:        t.VCPUs,
			RAM:          arvados.ByteSize(t.RAM * m),
			Scratch:      arvados.ByteSize(t.Scratch),
			Price:        float64(t.Price) * 0.125,
			Preemptible:  t.Pre,
		}
	}
	cc.Containers.ReserveExtraRAM = arvados.ByteSize(s.Reserve * m)
	ctr := &arvados.Container{
		UUID:   fmt.Sprintf("zzzzz-dz642-%015d", s.ID),
		Mounts: map[string]arvados.Mount{},
	}
	ctr.RuntimeConstraints.RAM = s.RAM * m
	ctr.RuntimeConstraints.KeepCacheRAM = s.KC * m
	ctr.RuntimeConstraints.VCPUs = s.VCPUs
	ctr.SchedulingParameters.Preemptible = s.Pre
	for j, c := range s.Tmps {
		ctr.Mounts[fmt.Sprintf("/tmp%d", j)] = arvados.Mount{Kind: "tmp", Capacity: c}
	}
	if s.ID%2 == 0 {
		ctr.Mounts["/keep/in"] = arvados.Mount{Kind: "collection", Capacity: 1 << 40, PortableDataHash: "d41d8cd98f00b204e9800998ecf8427e+0"}
		ctr.Mounts["/in.json"] = arvados.Mount{Kind: "json", Capacity: 1 << 30}
	}
	if s.ImgN == 0 {
		ctr.ContainerImage = "arvados/jobs"
	} else {
		ctr.ContainerImage = fmt.Sprintf("%032x+%d", 0xabcdef+s.ID, s.ImgN)
	}
	return cc, ctr
}

// abstraction of the concrete input, as recorded in the trace
func vNSAbstract(s *vNSScenario, cc *arvados.Cluster, ctr *arvados.Container) map[string]interface{} {
	m := vNSMult(s.Scale)
	types := []map[string]interface{}{}
	for k := range s.Types {
		it := cc.InstanceTypes[fmt.Sprintf("t%d", k+1)]
		types = append(types, map[string]interface{}{
			"price": int(it.Price * 8), "ram": int64(it.RAM) / m, "vcpus": it.VCPUs,
			"scratch": int64(it.Scratch), "pre": it.Preemptible,
		})
	}
	names := []string{}
	for name := range ctr.Mounts {
		names = append(names, name)
	}
	sort.Strings(names)
	tmps := []int64{}
	for _, name := range names {
		if ctr.Mounts[name].Kind == "tmp" {
			tmps = append(tmps, ctr.Mounts[name].Capacity)
		}
	}
	return map[string]interface{}{
		"ev": "reset", "scn": s.ID, "types": types,
		"ram": ctr.RuntimeConstraints.RAM / m, "kc": ctr.RuntimeConstraints.KeepCacheRAM / m,
		"reserve": int64(cc.Containers.ReserveExtraRAM) / m, "vcpus": ctr.RuntimeConstraints.VCPUs,
		"tmps": tmps, "imgn": s.ImgN, "pre": ctr.SchedulingParameters.Preemptible, "scale": s.Scale,
	}
}

func vNSIndex(name string, n int) int {
	var k int
	if _, err := fmt.Sscanf(name, "t%d", &k); err != nil || k < 1 || k > n || fmt.Sprintf("t%d", k) != name {
		return 0
	}
	return k
}

// vNSListedTypes finds, in err or any error it wraps, a struct (or pointer to one) with a field of
// type []arvados.InstanceType and returns the names listed there.
func vNSListedTypes(err error) ([]string, bool) {
	for e := err; e != nil; e = errors.Unwrap(e) {
		v := reflect.ValueOf(e)
		for v.Kind() == reflect.Ptr || v.Kind() == reflect.Interface {
			if v.IsNil() {
				break
			}
			v = v.Elem()
		}
		if v.Kind() != reflect.Struct {
			continue
		}
		for i := 0; i < v.NumField(); i++ {
			if v.Type().Field(i).PkgPath != "" {
				continue // unexported
			}
			if its, ok := v.Field(i).Interface().([]arvados.InstanceType); ok {
				names := []string{}
				for _, it := range its {
					names = append(names, it.Name)
				}
				return names, true
			}
		}
	}
	return nil, false
}

func TestVerifC16NodeSize(t *testing.T) {
	var scns []*vNSScenario
	vReadNDJSON(os.Getenv("VERIF_SCENARIOS"), func() interface{} {
		s := &vNSScenario{}
		scns = append(scns, s)
		return s
	})
	tw := vNewTraceWriter(os.Getenv("VERIF_TRACES"))
	defer tw.Close()
	for _, s := range scns {
		if s.Scale != 95 {
			s.Scale = 1
		}
		cc, ctr := vNSConcretise(s)
		tw.Write(vNSAbstract(s, cc, ctr))
		calls := s.Calls
		if calls < 1 {
			calls = 1
		}
		for c := 0; c < calls; c++ {
			best, err := ChooseInstanceType(cc, ctr)
			ev := map[string]interface{}{"ev": "choose", "ok": err == nil, "pick": 0, "listed": []int{}, "kind": "ok"}
			if err == nil {
				if k := vNSIndex(best.Name, len(s.Types)); k > 0 && cc.InstanceTypes[best.Name] == best {
					ev["pick"] = k
				}
			} else {
				ev["kind"] = "other"
				seen := map[int]bool{}
				listed := []int{}
				if names, ok := vNSListedTypes(err); ok {
					// the error carries a list of instance types (whatever its concrete type)
					ev["kind"] = "unsat"
					for _, name := range names {
						k := vNSIndex(name, len(s.Types))
						if !seen[k] {
							seen[k] = true
							listed = append(listed, k)
						}
					}
				} else {
					// ... or at least names them in its message
					for k := range s.Types {
						if regexp.MustCompile(`\bt` + fmt.Sprint(k+1) + `\b`).MatchString(err.Error()) {
							listed = append(listed, k+1)
						}
					}
					if len(listed) > 0 {
						ev["kind"] = "unsat-message"
					}
				}
				sort.Ints(listed)
				ev["listed"] = listed
			}
			tw.Write(ev)
		}
	}
	fmt.Println("VERIF-DRIVER-DONE")
}
