//go:build verif

// RUN stage of C10 for codec "gomanifest" (sdk/go/manifest): parseManifestStream, firstBlock,
// sendFileSegmentIterByName, Manifest.FileSegmentIterByName, segment(), Extract.
//
// Per scenario (abstract manifest, see vc10_common): render the text, then
//   1. probe: every stream line is parsed with parseManifestStream (stopping at the first stream with an
//      error, as segment() does) and, for every file token, the
//      unexported sendFileSegmentIterByName is called IN THIS GOROUTINE under recover().  The exported
//      iterators run it in a goroutine of their own, where a panic kills the process; the probe lets the
//      known panic (KF-C10-1) be recorded cheaply.  A probe panic is {"ev":"load","kind":"panic"}.
//   2. the real API: segment() (file list + per-file segments), Manifest.FileSegmentIterByName(path) per
//      path, Extract(src, relocate) for the (src, relocate) pairs the scenario asks for.  A crash here
//      is caught by the parent process (vC10RunIsolated).
// Mutated scenarios (mut != ""): only Extract(".", ".") on the mutated text -> load ok/error.
//
// The driver decides nothing.

package manifest

import (
	"fmt"
	"sort"
	"strings"
	"testing"
)

func vC10ManSegs(w *vC10World, segs []FileSegment) [][]int {
	out := [][]int{}
	for _, s := range segs {
		out = append(out, []int{w.idOfLocator(s.Locator), s.Offset, s.Len})
	}
	return out
}

func vC10ManProbe(text string) (panicked string) {
	defer func() {
		if r := recover(); r != nil {
			panicked = fmt.Sprint(r)
		}
	}()
	for _, line := range strings.Split(text, "\n") {
		if line == "" {
			continue
		}
		st := parseManifestStream(line)
		if st.Err != nil {
			// segment() returns this error before it looks at any later stream
			return ""
		}
		seen := map[string]bool{}
		for _, ft := range st.FileStreamSegments {
			p := st.StreamName + "/" + ft.Name
			if seen[p] {
				continue
			}
			seen[p] = true
			ch := make(chan *FileSegment, 4096)
			st.sendFileSegmentIterByName(p, ch)
		}
	}
	return ""
}

func vC10ManRun(s *vC10Scenario) (evs []vC10Ev) {
	w := vC10NewWorld(s.Streams)
	text := w.render(s.Streams, false)
	if s.Mut != "" {
		text = vC10Mutate(text, s.Streams, s.Mut, s.MutArg)
		if p := vC10ManProbe(text); p != "" {
			return append(evs, vC10Ev{"ev": "load", "kind": "panic", "detail": p, "paths": [][]int{}})
		}
		m := Manifest{Text: text}
		ret := m.Extract(".", ".")
		kind := "ok"
		if ret.Err != nil {
			kind = "error"
		}
		return append(evs, vC10Ev{"ev": "load", "kind": kind, "paths": [][]int{}})
	}
	if p := vC10ManProbe(text); p != "" {
		return append(evs, vC10Ev{"ev": "load", "kind": "panic", "detail": p, "paths": [][]int{}})
	}
	m := Manifest{Text: text}
	sm, err := m.segment()
	if err != nil {
		return append(evs, vC10Ev{"ev": "load", "kind": "error", "detail": err.Error(), "paths": [][]int{}})
	}
	paths := []string{}
	for sn, st := range *sm {
		for fn := range st {
			paths = append(paths, sn+"/"+fn)
		}
	}
	sort.Strings(paths)
	lst := [][]int{}
	for _, p := range paths {
		lst = append(lst, vC10Bytes(p))
	}
	evs = append(evs, vC10Ev{"ev": "load", "kind": "ok", "paths": lst})
	for _, p := range paths {
		sn, fn := splitPath(p)
		var got []FileSegment
		for seg := range m.FileSegmentIterByName(p) {
			got = append(got, *seg)
		}
		evs = append(evs, vC10Ev{"ev": "file", "path": vC10Bytes(p), "kind": "ok", "obs": []vC10Ev{
			{"via": "segment", "start": 0, "n": -1, "segs": vC10ManSegs(w, (*sm)[sn][fn])},
			{"via": "iter", "start": 0, "n": -1, "segs": vC10ManSegs(w, got)}}})
	}
	for _, x := range s.Extracts {
		rel := vC10Str(x.Rel)
		if x.Slash {
			rel += "/"
		}
		ret := m.Extract(vC10Str(x.Src), rel)
		ev := vC10Ev{"ev": "out", "op": "extract", "src": x.Src, "rel": x.Rel, "slash": x.Slash, "kind": "ok", "out": []vC10Stream{}}
		if ret.Err != nil {
			ev["kind"] = "error"
			ev["detail"] = ret.Err.Error()
		} else if out, err := w.parse(ret.Text); err != nil {
			ev["kind"] = "unparseable"
			ev["detail"] = err.Error() + ": " + ret.Text
		} else {
			ev["out"] = out
		}
		evs = append(evs, ev)
	}
	return evs
}

func TestVerifC10GoManifest(t *testing.T) {
	vC10RunIsolated(t, "TestVerifC10GoManifest", "gomanifest", vC10ManRun)
	fmt.Println("VERIF-DRIVER-DONE")
}
