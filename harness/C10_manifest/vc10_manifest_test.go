//go:build verif

// RUN stage of C10 for codec "gomanifest" (sdk/go/manifest), through its EXPORTED API only: Manifest.StreamIter
// (+ exported fields of ManifestStream) for the file list and parse errors, Manifest.FileSegmentIterByName per
// path, Manifest.Extract for (src, relocate) pairs and normalisation (Extract(".", ".")).
//
// The exported iterators run in goroutines of their own, where a panic of the codec kills the process: the
// test re-executes itself as a child (vC10RunIsolated); the parent records {"ev":"load","kind":"panic"} for the
// scenario in progress only if the child's stack trace shows the panic in a source file of the code under test.
// Mutated scenarios (mut != ""): only Extract(".", ".") on the mutated text -> load ok/error.
//
// The driver decides nothing.

package manifest

import (
	"fmt"
	"sort"
	"testing"
)

func vC10ManSegs(w *vC10World, segs []FileSegment) [][]int {
	out := [][]int{}
	for _, s := range segs {
		out = append(out, []int{w.idOfLocator(s.Locator), s.Offset, s.Len})
	}
	return out
}

// vC10ManLoad lists the files of a manifest through the exported API only: StreamIter and the exported
// fields of ManifestStream (audit C10-4: nothing unexported is judged).
func vC10ManLoad(m *Manifest) (paths []string, err error) {
	seen := map[string]bool{}
	for st := range m.StreamIter() {
		if st.Err != nil && err == nil {
			err = st.Err // (keep draining the channel: its goroutine would otherwise be left blocked)
		}
		if err != nil {
			continue
		}
		for _, ft := range st.FileStreamSegments {
			p := st.StreamName + "/" + ft.Name
			if !seen[p] {
				seen[p] = true
				paths = append(paths, p)
			}
		}
	}
	sort.Strings(paths)
	return
}

func vC10ManRun(s *vC10Scenario) (evs []vC10Ev) {
	w := vC10NewWorld(s.Streams)
	text := w.render(s.Streams, false)
	if s.Mut != "" {
		text = vC10Mutate(text, s.Streams, s.Mut, s.MutArg)
		m := Manifest{Text: text}
		ret := m.Extract(".", ".")
		kind := "ok"
		if ret.Err != nil {
			kind = "error"
		}
		return append(evs, vC10Ev{"ev": "load", "kind": kind, "paths": [][]int{}, "reads": []vC10Ev{}})
	}
	m := Manifest{Text: text}
	paths, err := vC10ManLoad(&m)
	if err != nil {
		return append(evs, vC10Ev{"ev": "load", "kind": "error", "detail": err.Error(), "paths": [][]int{}, "reads": []vC10Ev{}})
	}
	lst := [][]int{}
	for _, p := range paths {
		lst = append(lst, vC10Bytes(p))
	}
	evs = append(evs, vC10Ev{"ev": "load", "kind": "ok", "paths": lst, "reads": []vC10Ev{}})
	for _, p := range paths {
		var got []FileSegment
		for seg := range m.FileSegmentIterByName(p) {
			got = append(got, *seg)
		}
		evs = append(evs, vC10Ev{"ev": "file", "path": vC10Bytes(p), "kind": "ok", "obs": []vC10Ev{
			{"via": "iter", "start": 0, "n": -1, "segs": vC10ManSegs(w, got)}}})
	}
	for _, x := range s.Extracts {
		rel := vC10Str(x.Rel)
		if x.Slash {
			rel += "/"
		}
		ret := m.Extract(vC10Str(x.Src), rel)
		ev := vC10Ev{"ev": "out", "op": "extract", "src": x.Src, "rel": x.Rel, "slash": x.Slash, "kind": "ok", "out": []vC10Stream{}}
		if ret.Err != nil {
			ev["kind"] = "error"
			ev["detail"] = ret.Err.Error()
		} else if out, err := w.parse(ret.Text); err != nil {
			ev["kind"] = "unparseable"
			ev["detail"] = err.Error() + ": " + ret.Text
		} else {
			ev["out"] = out
		}
		evs = append(evs, ev)
	}
	return evs
}

func TestVerifC10GoManifest(t *testing.T) {
	vC10RunIsolated(t, "TestVerifC10GoManifest", "gomanifest", vC10ManRun)
	fmt.Println("VERIF-DRIVER-DONE")
}
