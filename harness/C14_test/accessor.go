//go:build verif

// Accessors added to lib/dispatchcloud/test for the end-to-end binding of C14/C15: the process
// table of a StubVM and whether the VM still exists in its instance set.  Read-only.

package test

// VProcs returns the live (not yet exited) crunch-run stub processes of the VM: container UUID -> pid.
func (svm *StubVM) VProcs() map[string]int64 {
	svm.Lock()
	defer svm.Unlock()
	r := map[string]int64{}
	for uuid, p := range svm.running {
		if !p.exited {
			r[uuid] = p.pid
		}
	}
	return r
}

// VID returns the instance ID of the VM.
func (svm *StubVM) VID() string { return string(svm.id) }

// VExists reports whether the VM is still listed by its instance set (false once destroyed).
func (svm *StubVM) VExists() bool {
	svm.sis.mtx.RLock()
	defer svm.sis.mtx.RUnlock()
	return svm.sis.servers[svm.id] == svm
}

// VCount returns the number of VMs that exist in the instance set (no rate limit, no side effect).
func (sis *StubInstanceSet) VCount() int {
	sis.mtx.RLock()
	defer sis.mtx.RUnlock()
	return len(sis.servers)
}

// VTruth returns the API-side state and priority of a container (q.Containers), not the cache.
func (q *Queue) VTruth(uuid string) (state string, prio int64, ok bool) {
	q.mtx.Lock()
	defer q.mtx.Unlock()
	for _, ctr := range q.Containers {
		if ctr.UUID == uuid {
			return string(ctr.State), ctr.Priority, true
		}
	}
	return "", 0, false
}
