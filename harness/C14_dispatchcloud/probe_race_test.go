//go:build verif

// C14, scripted schedule "a probe that began before a container start returns after it": the REAL
// scheduler and the REAL worker.Pool on the stub cloud, with a scripted Executor playing the VM (the
// stub VM's crunch-run announces Running within 20 ms, which hides what follows; here the container
// stays Locked as long as a real crunch-run would take to start up).  Event driven, no timing:
//
//   the pool creates an instance, it boots and becomes idle
//   a "crunch-run --list" of that idle instance is caught: its answer (no process) is fixed, not returned
//   container 1 is queued; the scheduler locks it and starts it on the instance:
//       "crunch-run --detach ... 1" returns, the fake process is in the VM's table,
//       the pool has moved the runner from starting to running (Instances().LastContainerUUID)
//   the stale answer is released; further probes get no answer until a second "--detach" for
//   container 1 has arrived or the queue has been refreshed 20 times (with a realistic probe interval
//   the scheduler acts long before the next probe)
//   then: until a second "--detach" for container 1 arrives or 15 further "--list" calls were answered
//
// worker.probeAndUpdate must discard the stale answer (wkr.updated changed since the probe began).
// If it is applied, the live runner is closed, the pool reports the container exited, the scheduler
// re-queues, locks and starts it again: a second process while the first is in the table - recorded as
// {"ev":"procsnap","others":[w]} and judged by specs/dispatch/DispatchTrace.tla like every other start.
// The driver decides nothing.

package dispatchcloud

import (
	"context"
	"fmt"
	"io"
	"io/ioutil"
	"os"
	"strings"
	"sync"
	"testing"
	"time"

	"git.arvados.org/arvados.git/lib/cloud"
	"git.arvados.org/arvados.git/lib/dispatchcloud/scheduler"
	"git.arvados.org/arvados.git/lib/dispatchcloud/test"
	"git.arvados.org/arvados.git/lib/dispatchcloud/worker"
	"git.arvados.org/arvados.git/sdk/go/arvados"
	"git.arvados.org/arvados.git/sdk/go/arvadostest"
	"git.arvados.org/arvados.git/sdk/go/ctxlog"
	"github.com/prometheus/client_golang/prometheus"
	"github.com/sirupsen/logrus"
	"golang.org/x/crypto/ssh"
)

type vPRExec struct {
	lostAck   bool // schedule "lost acknowledgement": the first --detach starts the process and then fails
	ndetach   int
	mu        sync.Mutex
	rec       *vRec
	w         int
	table     map[string]bool // live fake crunch-run processes
	armed     bool
	caught    chan struct{}
	release   chan struct{}
	released  bool
	detached  chan string
	listAfter int
	enough    chan struct{}
	flow      chan struct{} // closed when probes may be answered again after the stale one
}

func (x *vPRExec) SetTarget(t cloud.ExecutorTarget) {}
func (x *vPRExec) Close()                           {}

func (x *vPRExec) Execute(env map[string]string, cmd string, stdin io.Reader) ([]byte, []byte, error) {
	switch {
	case strings.HasSuffix(cmd, "--list"):
		x.mu.Lock()
		out := ""
		for uuid := range x.table {
			out += uuid + "\n"
		}
		if x.armed {
			x.armed = false
			x.mu.Unlock()
			close(x.caught)
			<-x.release
			return []byte(out + "\n"), nil, nil // the answer as it was when the probe began
		}
		if x.released {
			x.mu.Unlock()
			<-x.flow // no fresh probe answer until the scheduler has had 20 queue refreshes to act
			x.mu.Lock()
			out = ""
			for uuid := range x.table {
				out += uuid + "\n"
			}
			x.listAfter++
			if x.listAfter == 15 {
				close(x.enough)
			}
		}
		x.mu.Unlock()
		return []byte(out + "\n"), nil, nil
	case strings.Contains(cmd, "--detach"):
		uuid := vUUIDRe.FindString(cmd)
		x.mu.Lock()
		others := []int{}
		if x.table[uuid] {
			others = append(others, x.w) // a process of this container is already alive on this VM
		}
		x.table[uuid] = true
		w := x.w
		x.ndetach++
		lost := x.lostAck && x.ndetach == 1
		if lost {
			x.released = true // from now on probes are answered only when the driver lets them
		}
		x.mu.Unlock()
		x.rec.log(map[string]interface{}{"ev": "procsnap", "c": vE2ECtr(uuid), "w": w, "others": others, "others_deaf": false})
		select {
		case x.detached <- uuid:
		default:
		}
		if lost {
			// the process is running, but the caller never learns: connection lost
			return nil, []byte("verif: connection reset"), fmt.Errorf("verif: ssh: connection lost")
		}
		return nil, nil, nil
	case strings.Contains(cmd, "--kill"):
		uuid := vUUIDRe.FindString(cmd)
		x.mu.Lock()
		delete(x.table, uuid)
		x.mu.Unlock()
		return nil, nil, nil
	}
	return nil, nil, nil // boot probe
}

// Schedule "lost acknowledgement" (9202): "crunch-run --detach" starts the process on the VM and then
// the connection drops, so that the executor reports an error.  The pool must go on assuming that the
// process might have started until a probe says otherwise (remoteRunner.Start's contract); if it
// treats the error as proof that nothing runs, the container is re-queued and started again next to its
// live first process.  Probes are answered again only after a second --detach or 20 queue refreshes.
func TestVerifC14LostAck(t *testing.T) { vPRRun(t, true) }

func TestVerifC14ProbeRace(t *testing.T) { vPRRun(t, false) }

func vPRRun(t *testing.T, lostAck bool) {
	scnID, setID := 9201, "verif-proberace"
	if lostAck {
		scnID, setID = 9202, "verif-lostack"
	}
	tw := vNewTraceWriter(os.Getenv("VERIF_TRACES"))
	defer tw.Close()
	logger := logrus.New()
	logger.Out = io.Discard
	rawhost, err := ioutil.ReadFile("test/sshkey_vm")
	if err != nil {
		t.Fatal(err)
	}
	hostpriv, err := ssh.ParsePrivateKey(rawhost)
	if err != nil {
		t.Fatal(err)
	}
	it := test.InstanceType(1)
	cluster := &arvados.Cluster{
		Containers: arvados.ContainersConfig{
			CrunchRunCommand: "crunch-run",
			CloudVMs: arvados.CloudVMsConfig{
				SyncInterval:       arvados.Duration(5 * time.Millisecond),
				ProbeInterval:      arvados.Duration(2 * time.Millisecond),
				MaxProbesPerSecond: 1000,
				TimeoutIdle:        arvados.Duration(time.Hour),
				TimeoutBooting:     arvados.Duration(time.Hour),
				TimeoutProbe:       arvados.Duration(time.Hour),
				TimeoutTERM:        arvados.Duration(time.Hour),
				TimeoutSignal:      arvados.Duration(5 * time.Millisecond),
				TagKeyPrefix:       "test:",
			},
		},
		InstanceTypes: arvados.InstanceTypeMap{it.Name: it},
	}
	arvadostest.SetServiceURL(&cluster.Services.Controller, "https://"+os.Getenv("ARVADOS_API_HOST")+"/")
	arvClient, _ := arvados.NewClientFromConfig(cluster)
	arvClient.AuthToken = arvadostest.AdminToken
	sd := &test.StubDriver{HostKey: hostpriv}
	sis, err := sd.InstanceSet(nil, cloud.InstanceSetID(setID), nil, logger)
	if err != nil {
		t.Fatal(err)
	}
	rec := &vRec{known: map[int][2]interface{}{}, ib: map[int]string{}, tw: tw}
	rec.events = vEventSink{rec}
	rec.log(map[string]interface{}{"ev": "reset", "scn": scnID, "nc": 1, "nw": 0, "init": []string{"Queued"}, "mode": "sound"})
	rec.known[1] = [2]interface{}{"Queued", int64(1)}
	x := &vPRExec{lostAck: lostAck, rec: rec, table: map[string]bool{}, caught: make(chan struct{}), release: make(chan struct{}),
		detached: make(chan string, 4), enough: make(chan struct{}), flow: make(chan struct{})}
	wp := worker.NewPool(logger, arvClient, prometheus.NewRegistry(), cloud.InstanceSetID(setID), sis,
		func(inst cloud.Instance) worker.Executor {
			x.mu.Lock()
			x.w = vE2EInst(string(inst.ID()))
			x.mu.Unlock()
			return x
		}, nil, cluster)
	defer wp.Stop()
	queue := &test.Queue{
		ChooseType: func(*arvados.Container) (arvados.InstanceType, error) { return it, nil },
		Logger:     logger,
	}
	qwrap := &vQueueWrap{q: queue, r: rec}
	pwrap := &vPoolWrap{pool: wp, r: rec}
	sch := scheduler.New(ctxlog.Context(context.Background(), logger), qwrap, pwrap, nil, time.Hour, 5*time.Millisecond)
	sch.Start()
	defer sch.Stop()

	note := func(what string) {
		rec.log(map[string]interface{}{"ev": "infra", "what": "probe-race schedule not applicable: " + what, "scn": scnID})
		fmt.Println("VERIF-NOTE probe-race schedule not applicable:", what)
		fmt.Println("VERIF-DRIVER-DONE")
	}
	until := func(d time.Duration, f func() bool) bool {
		for t0 := time.Now(); time.Since(t0) < d; time.Sleep(time.Millisecond) {
			if f() {
				return true
			}
		}
		return false
	}
	if !until(20*time.Second, func() bool { return wp.Create(it) }) {
		note("Create refused")
		return
	}
	if !until(20*time.Second, func() bool {
		for _, iv := range wp.Instances() {
			if iv.WorkerState == "idle" {
				return true
			}
		}
		return false
	}) {
		note("instance did not become idle")
		return
	}
	if !lostAck {
		x.mu.Lock()
		x.armed = true
		x.mu.Unlock()
		select {
		case <-x.caught:
		case <-time.After(20 * time.Second):
			note("no probe caught")
			return
		}
	}
	uuid := test.ContainerUUID(1)
	queue.Notify(arvados.Container{UUID: uuid, State: arvados.ContainerStateQueued, Priority: 1,
		RuntimeConstraints: arvados.RuntimeConstraints{VCPUs: 1, RAM: 1 << 30}})
	select {
	case <-x.detached:
	case <-time.After(20 * time.Second):
		close(x.release)
		note("container was not started")
		return
	}
	if !lostAck {
		if !until(20*time.Second, func() bool {
			for _, iv := range wp.Instances() {
				if iv.LastContainerUUID == uuid {
					return true
				}
			}
			return false
		}) {
			close(x.release)
			note("start did not complete")
			return
		}
	}
	x.mu.Lock()
	x.released = true
	x.mu.Unlock()
	rec.mu.Lock()
	n0 := rec.nUpd
	rec.mu.Unlock()
	close(x.release) // the stale probe answer arrives now
	second := false
	until(30*time.Second, func() bool {
		select {
		case <-x.detached: // a second start of the same container
			second = true
			return true
		default:
		}
		rec.mu.Lock()
		defer rec.mu.Unlock()
		return rec.nUpd >= n0+20
	})
	close(x.flow)
	if !second {
		select {
		case <-x.detached:
		case <-x.enough:
		case <-time.After(30 * time.Second):
		}
	}
	fmt.Println("VERIF-DRIVER-DONE")
}
