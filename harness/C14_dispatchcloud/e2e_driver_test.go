//go:build verif

// RUN stage of C14 binding (ii) and of C15: the REAL dispatcher (scheduler + worker.Pool + SSH
// executor) against test.StubDriver, with many containers, VM faults, user cancels / holds, operator
// hold / drain and a dispatcher stop / restart.  Records the events judged by
// specs/dispatch/DispatchTrace.tla (mode "sound") and the final observation judged by
// specs/dispatch/DispatchLiveTrace.tla (C15).  The driver decides nothing.
//
// Scenario (made by checks/C14.py / C15.py from VERIF_SEED):
//   n containers, types 1..3, prios 1..prios; fault mix per VM (as lib/dispatchcloud's own test:
//   broken / crunch-run missing / report-broken / crash and deadlock rates), errdestroy,
//   cancels, holds (user actions at random moments), ibops (operator hold/drain/run),
//   restart (bool) at a random moment, staleMs (StaleLockTimeout, >> probe interval),
//   kf (bool): the targeted scenario "restart while a VM with a live process does not answer and
//   StaleLockTimeout expires first" (DESIGN.md section 6 C14, expected known finding),
//   calm (bool): no faults at all (C15: calibration of the fault-free completion time)
//   listlimitms / createlimitms: rate limits of the cloud's list / create calls (calls in between fail)
//   reportbroken k, reportbrokenms: the first k VMs report "broken" in their probe answers from that
//   age on (event "broken" when such an answer is first given); onetype: one instance type for all
//   quotafirst k: the cloud answers the first k Create calls with a cloud.QuotaError and has capacity
//   afterwards; the pool's one-minute hold-off is virtual time (ended by the driver through the added
//   accessor worker.(*Pool).VEndQuotaHoldOff); one container per instance type, so that a type whose
//   first Create failed has no other instance to fall back on
//   stalelist: the queue is empty at first; a list call of the pool is caught (snapshot: no instances)
//   and held; only then the containers are queued; when the a container has a (slowly detaching,
//   still Locked) process on an instance - created after the snapshot - the stale answer is
//   released; later list calls wait until a second process of that container has appeared or 1.5 s
//   have passed.  The pool must not drop the instance it created after the list call began.
//   draindeaf k: the first k VMs are put on "drain" by the operator while their container is Running
//   and then stop answering; the container never finishes by itself: the instance must still be shut
//   down (probe timeout) and the container cancelled
//   breakfirst k: the first k VMs stop answering shortly after creation while their (long-running)
//   containers are Running: the instances are shut down and the containers must be cancelled
//   holdallms: for this long the operator puts every instance on hold as soon as the pool lists it
//   (clause c: nothing may be started on an instance after it was held), then releases them
//   deadlineFactor: C15 deadline = factor x calibration time (>= 100)
//
// Observation points (all sound, no verdict depends on timing):
//   queue wrapper   Lock/Unlock/Cancel results, Update (cache := truth: differences are logged as
//                   api events first), Entries
//   pool wrapper    StartContainer decisions, with the instances held/draining at call time
//   VM exec hook    (SetupVM wraps SSHService.Exec) after "crunch-run --detach" returned 0 the
//                   process tables of ALL existing VMs are sampled (the VM of the new process
//                   last): any other live process of the same container is a real overlap
//   StubDriver.Bugf two processes of one container on the same VM (pid mismatch at exit)
// Identities: container c = number in its UUID; instance w = N of "instN,...".

package dispatchcloud

import (
	"bytes"
	"context"
	"encoding/json"
	"fmt"
	"io"
	"io/ioutil"
	"math/rand"
	"os"
	"os/exec"
	"regexp"
	"strconv"
	"strings"
	"sync"
	"testing"
	"time"

	"git.arvados.org/arvados.git/lib/cloud"
	"git.arvados.org/arvados.git/lib/dispatchcloud/container"
	"git.arvados.org/arvados.git/lib/dispatchcloud/test"
	"git.arvados.org/arvados.git/lib/dispatchcloud/worker"
	"git.arvados.org/arvados.git/sdk/go/arvados"
	"git.arvados.org/arvados.git/sdk/go/arvadostest"
	"git.arvados.org/arvados.git/sdk/go/ctxlog"
	"github.com/prometheus/client_golang/prometheus"
	"github.com/sirupsen/logrus"
	"golang.org/x/crypto/ssh"
)

type vE2EScenario struct {
	ID             int     `json:"id"`
	N              int     `json:"n"`
	Prios          int     `json:"prios"`
	RSeed          int64   `json:"rseed"`
	Faults         bool    `json:"faults"`
	ErrDestroy     float64 `json:"errdestroy"`
	CrashRate      float64 `json:"crashrate"`
	DeadlockRate   float64 `json:"deadlockrate"`
	Cancels        int     `json:"cancels"`
	Holds          int     `json:"holds"`
	IBOps          int     `json:"ibops"`
	Restart        bool    `json:"restart"`
	StaleMs        int     `json:"stalems"`
	KF             bool    `json:"kf"`
	Calm           bool    `json:"calm"`
	DeadlineFactor int     `json:"deadlinefactor"`
	ExecMs         int     `json:"execms"`
	HoldAllMs      int     `json:"holdallms"`     // the operator holds every instance it sees, for this long
	ListLimitMs    int     `json:"listlimitms"`   // StubDriver.MinTimeBetweenInstancesCalls: list calls in between fail (rate limit)
	CreateLimitMs  int     `json:"createlimitms"` // StubDriver.MinTimeBetweenCreateCalls (default 1 ms)
	ReportBroken   int     `json:"reportbroken"`  // the first k VMs start reporting "broken" reportbrokenms after creation
	ReportBrokenMs int     `json:"reportbrokenms"`
	OneType        bool    `json:"onetype"`    // every container fits every instance
	QuotaFirst     int     `json:"quotafirst"` // the first k Create calls of the cloud fail with a quota error
	StaleList      bool    `json:"stalelist"`  // one answer of the cloud's list call is returned late (see vListGate)
	DrainDeaf      int     `json:"draindeaf"`  // the first k VMs are drained by the operator while busy and then stop answering
	BreakFirst     int     `json:"breakfirst"` // the first k VMs stop answering as soon as their container is Running
}

type vRec struct {
	nUpd   int  // queue refreshes so far (a clock made of events)
	dirtyU bool // an api event was logged since the last "updatomic"
	dirtyE bool // an api or updatomic event was logged since the last "entries"
	mu     sync.Mutex
	tw     *vTraceWriter // events are written (and flushed) at once: a crash of the code under test loses nothing
	events vEventSink
	known  map[int][2]interface{} // container -> last logged (state, prio)
	ib     map[int]string         // instance -> hold/drain/any as logged
}

// vEventSink keeps the append(...) call sites readable: appending writes the event through.
type vEventSink struct{ r *vRec }

func vAppend(sink vEventSink, ev map[string]interface{}) vEventSink {
	sink.r.tw.Write(ev)
	sink.r.tw.mu.Lock()
	sink.r.tw.w.Flush()
	sink.r.tw.mu.Unlock()
	return sink
}

func (r *vRec) log(ev map[string]interface{}) {
	r.mu.Lock()
	r.events = vAppend(r.events, ev)
	r.mu.Unlock()
}

var vUUIDRe = regexp.MustCompile(`.{5}-dz642-(\d{15})`)

func vE2ECtr(uuid string) int {
	m := vUUIDRe.FindStringSubmatch(uuid)
	if m == nil {
		return 0
	}
	n, _ := strconv.Atoi(m[1])
	return n
}

func vE2EInst(id string) int {
	var n int
	fmt.Sscanf(id, "inst%d,", &n)
	return n
}

// caller holds r.mu
func (r *vRec) apiLocked(c int, state string, prio int64) {
	if k, ok := r.known[c]; ok && k[0] == state && k[1] == prio {
		return
	}
	r.known[c] = [2]interface{}{state, prio}
	r.dirtyU, r.dirtyE = true, true
	r.events = vAppend(r.events, map[string]interface{}{"ev": "api", "c": c, "s": state, "p": prio})
}

// ---------------------------------------------------------------- queue wrapper

type vQueueWrap struct {
	q *test.Queue
	r *vRec
}

func (w *vQueueWrap) Entries() (map[string]container.QueueEnt, time.Time) {
	w.r.mu.Lock()
	defer w.r.mu.Unlock()
	ents, t := w.q.Entries()
	if w.r.dirtyE { // otherwise the event would change nothing in the contract's state
		w.r.dirtyE = false
		w.r.events = vAppend(w.r.events, map[string]interface{}{"ev": "entries"})
	}
	return ents, t
}

func (w *vQueueWrap) after(uuid string, err error) error {
	if err == nil {
		w.r.mu.Lock()
		if ctr, ok := w.q.Get(uuid); ok {
			w.r.apiLocked(vE2ECtr(uuid), string(ctr.State), ctr.Priority)
		}
		w.r.mu.Unlock()
	}
	return err
}

// Lock/Unlock/Cancel of test.Queue change truth and cache at once; the result is logged after the
// call (a gain of "Locked" logged late can only make the judge stricter for decisions that could
// not have known it - none exist, the scheduler reads the cache after the call returned).
func (w *vQueueWrap) Lock(uuid string) error {
	w.r.mu.Lock()
	err := w.q.Lock(uuid)
	if ctr, ok := w.q.Get(uuid); ok && err == nil {
		w.r.apiLocked(vE2ECtr(uuid), string(ctr.State), ctr.Priority)
	}
	w.r.mu.Unlock()
	return err
}
func (w *vQueueWrap) Unlock(uuid string) error { return w.after(uuid, w.q.Unlock(uuid)) }
func (w *vQueueWrap) Cancel(uuid string) error { return w.after(uuid, w.q.Cancel(uuid)) }
func (w *vQueueWrap) Forget(uuid string)       { w.q.Forget(uuid) }
func (w *vQueueWrap) Get(uuid string) (arvados.Container, bool) {
	return w.q.Get(uuid)
}
func (w *vQueueWrap) Subscribe() <-chan struct{}     { return w.q.Subscribe() }
func (w *vQueueWrap) Unsubscribe(ch <-chan struct{}) { w.q.Unsubscribe(ch) }

// Update: cache := truth.  Every difference between the truth and what was logged last is logged
// first (changes made by crunch-run stubs are observed here), then the refresh itself.
func (w *vQueueWrap) Update() error {
	w.r.mu.Lock()
	defer w.r.mu.Unlock()
	err := w.q.Update()
	w.r.nUpd++
	ents, _ := w.q.Entries()
	for uuid, ent := range ents {
		w.r.apiLocked(vE2ECtr(uuid), string(ent.Container.State), ent.Container.Priority)
	}
	// containers no longer in the cache (final and forgotten): their truth
	for c, k := range w.r.known {
		if k[0] == "Complete" || k[0] == "Cancelled" {
			continue
		}
		uuid := test.ContainerUUID(c)
		if _, ok := ents[uuid]; !ok {
			if st, pr, ok := w.q.VTruth(uuid); ok {
				w.r.apiLocked(c, st, pr)
			}
		}
	}
	if w.r.dirtyU {
		w.r.dirtyU, w.r.dirtyE = false, true
		w.r.events = vAppend(w.r.events, map[string]interface{}{"ev": "updatomic"})
	}
	return err
}

// ---------------------------------------------------------------- pool wrapper

type vPoolWrap struct {
	pool
	r *vRec
}

// The decision is logged BEFORE the call (the exec on the VM may be observed before the call
// returns); a refusal is logged afterwards and voids it.
func (p *vPoolWrap) StartContainer(it arvados.InstanceType, ctr arvados.Container) bool {
	c := vE2ECtr(ctr.UUID)
	p.r.mu.Lock()
	bad := []int{}
	for w, b := range p.r.ib {
		if b == "hold" || b == "drain" {
			bad = append(bad, w)
		}
	}
	p.r.events = vAppend(p.r.events, map[string]interface{}{"ev": "startcall", "c": c, "w": 0, "bad": bad, "qs": "", "qp": 0})
	p.r.mu.Unlock()
	ok := p.pool.StartContainer(it, ctr)
	if !ok {
		p.r.log(map[string]interface{}{"ev": "startrefused", "c": c})
	}
	return ok
}

// ---------------------------------------------------------------- persistent cloud across restarts

type vPersistentSet struct {
	cloud.InstanceSet
	g *vListGate
	q *vQuotaFaults
}

// vQuotaFaults: the first n Create calls fail with a quota error
type vQuotaFaults struct {
	mu   sync.Mutex
	left int
}

type vQuotaError struct{}

func (vQuotaError) Error() string      { return "verif: instance limit exceeded" }
func (vQuotaError) IsQuotaError() bool { return true }

func (vPersistentSet) Stop() {}

// vListGate lets a scenario make ONE answer of the cloud's list call stale: the snapshot is taken when
// the call arrives, the answer is returned when the driver releases it; list calls after it wait until
// the driver opens the gate again.  Everything is driven by events, not by time.
type vListGate struct {
	mu      sync.Mutex
	mode    int // 0 pass, 1 armed (the next call is the stale one), 2 stale call held / later calls wait
	caught  chan struct{}
	release chan struct{}
	open    chan struct{}
}

// With a list gate the cloud behaves like one whose create call answers with a usable address (the
// stub's Create answers before its SSH service listens, so that an instance can only be reached after
// a later list call - which this scenario withholds).
func (p vPersistentSet) Create(it arvados.InstanceType, image cloud.ImageID, tags cloud.InstanceTags, cmd cloud.InitCommand, key ssh.PublicKey) (cloud.Instance, error) {
	if p.q != nil {
		p.q.mu.Lock()
		fail := p.q.left > 0
		if fail {
			p.q.left--
		}
		p.q.mu.Unlock()
		if fail {
			return nil, vQuotaError{}
		}
	}
	inst, err := p.InstanceSet.Create(it, image, tags, cmd, key)
	if err != nil || p.g == nil {
		return inst, err
	}
	for t0 := time.Now(); time.Since(t0) < 5*time.Second; time.Sleep(time.Millisecond) {
		all, _ := p.InstanceSet.Instances(nil)
		for _, i := range all {
			if i.ID() == inst.ID() && i.Address() != "" {
				return i, nil
			}
		}
	}
	return inst, nil
}

func (p vPersistentSet) Instances(tags cloud.InstanceTags) ([]cloud.Instance, error) {
	if p.g == nil {
		return p.InstanceSet.Instances(tags)
	}
	p.g.mu.Lock()
	switch p.g.mode {
	case 1:
		p.g.mode = 2
		p.g.mu.Unlock()
		snap, err := p.InstanceSet.Instances(tags)
		close(p.g.caught)
		<-p.g.release
		return snap, err
	case 2:
		p.g.mu.Unlock()
		<-p.g.open
		return p.InstanceSet.Instances(tags)
	}
	p.g.mu.Unlock()
	return p.InstanceSet.Instances(tags)
}

// ---------------------------------------------------------------- one run

type vE2ERun struct {
	scn       *vE2EScenario
	rec       *vRec
	rnd       *rand.Rand
	cluster   *arvados.Cluster
	queue     *test.Queue
	qwrap     *vQueueWrap
	sd        *test.StubDriver
	sis       cloud.InstanceSet
	disp      *dispatcher
	logger    logrus.FieldLogger
	vmMu      sync.Mutex
	vms       []*test.StubVM
	release   chan struct{} // closed to let blocked ExecuteContainer calls return (kf scenario)
	nVM       int
	opDrain   func(cloud.InstanceID) // the operator drains an instance for good (set once the run is under way)
	gate      *vListGate
	quota     *vQuotaFaults
	reported  map[int]bool // VMs that have answered a probe with "broken"
	deaf      *test.StubVM // kf scenario: the VM that stopped answering before the restart
	restarted bool
}

func (e *vE2ERun) newDispatcher() {
	arvClient, _ := arvados.NewClientFromConfig(e.cluster)
	e.disp = &dispatcher{
		Cluster:   e.cluster,
		Context:   ctxlog.Context(context.Background(), e.logger),
		ArvClient: arvClient,
		AuthToken: arvadostest.AdminToken,
		Registry:  prometheus.NewRegistry(),
	}
	e.disp.setupOnce.Do(e.disp.initialize)
	e.disp.queue = e.qwrap
	e.disp.pool = &vPoolWrap{pool: e.disp.pool, r: e.rec}
	go e.disp.run()
}

func (e *vE2ERun) setupVM(svm *test.StubVM) {
	e.vmMu.Lock()
	e.vms = append(e.vms, svm)
	e.nVM++
	n := e.nVM
	e.vmMu.Unlock()
	scn := e.scn
	svm.Boot = time.Now().Add(time.Duration(e.rndInt(5)) * time.Millisecond)
	svm.CrunchRunDetachDelay = time.Duration(e.rndInt(10)) * time.Millisecond
	svm.ExecuteContainer = func(ctr arvados.Container) int {
		if n <= scn.DrainDeaf {
			// the operator drains the instance while its container is Running, then the VM stops
			// answering; the crunch-run never finishes by itself
			e.vmMu.Lock()
			drain := e.opDrain
			e.vmMu.Unlock()
			if drain != nil {
				drain(cloud.InstanceID(svm.VID()))
			}
			svm.Lock()
			svm.Broken = time.Now()
			svm.Unlock()
			<-e.release
		}
		if n <= scn.BreakFirst {
			// the VM stops answering exactly while its container is Running
			svm.Lock()
			svm.Broken = time.Now()
			svm.Unlock()
			<-e.release // this crunch-run never finishes by itself: only the dispatcher can end the container
		}
		if scn.ExecMs > 0 {
			time.Sleep(time.Duration(e.rndInt(scn.ExecMs)) * time.Millisecond)
		}
		return 0
	}
	svm.ExtraCrunchRunArgs = "'--foo' '--extra='\\''args'\\'''"
	if scn.StaleList {
		svm.CrunchRunDetachDelay = 2500 * time.Millisecond // its container stays Locked with a live process
	}
	if n <= scn.ReportBroken {
		svm.ReportBroken = time.Now().Add(time.Duration(scn.ReportBrokenMs) * time.Millisecond)
	}
	if n <= scn.BreakFirst {
		// see ExecuteContainer above
	} else if scn.KF {
		if n == 1 {
			// the process of the first container stays "starting" (Locked, alive) for a long time
			svm.CrunchRunDetachDelay = 4 * time.Second
		}
	} else if scn.Faults {
		switch n % 7 {
		case 0:
			svm.Broken = time.Now().Add(time.Duration(e.rndInt(90)) * time.Millisecond)
		case 1:
			svm.CrunchRunMissing = true
		case 2:
			svm.ReportBroken = time.Now().Add(time.Duration(e.rndInt(200)) * time.Millisecond)
		default:
			svm.CrunchRunCrashRate = scn.CrashRate
			svm.ArvMountDeadlockRate = scn.DeadlockRate
		}
	}
	orig := svm.SSHService.Exec
	me := vE2EInst(svm.VID())
	svm.SSHService.Exec = func(env map[string]string, command string, stdin io.Reader, stdout, stderr io.Writer) uint32 {
		if command == "crunch-run --list" {
			var buf bytes.Buffer
			rc := orig(env, command, stdin, io.MultiWriter(stdout, &buf), stderr)
			if rc == 0 && strings.Contains("\n"+buf.String(), "\nbroken\n") {
				e.vmMu.Lock()
				first := !e.reported[me]
				e.reported[me] = true
				e.vmMu.Unlock()
				if first {
					// from this answer on the dispatcher knows: the instance says it is broken
					e.rec.log(map[string]interface{}{"ev": "broken", "w": me})
				}
			}
			return rc
		}
		if !strings.HasPrefix(command, "crunch-run --detach ") {
			return orig(env, command, stdin, stdout, stderr)
		}
		uuid := vUUIDRe.FindString(command)
		c := vE2ECtr(uuid)
		_, pre := svm.VProcs()[uuid]
		rc := orig(env, command, stdin, stdout, stderr)
		if rc != 0 {
			e.rec.log(map[string]interface{}{"ev": "startfailed", "c": c, "w": me})
			return rc
		}
		others := []int{}
		if pre {
			others = append(others, me)
		}
		deaf := true // every other live process is on the VM this scenario made deaf before the restart
		e.vmMu.Lock()
		vms := append([]*test.StubVM(nil), e.vms...)
		e.vmMu.Unlock()
		for _, o := range vms {
			if o != svm && o.VExists() {
				if _, alive := o.VProcs()[uuid]; alive {
					others = append(others, vE2EInst(o.VID()))
					if o != e.deafVM() {
						deaf = false
					}
				}
			}
		}
		// the new process is read last: if it is still there, it was alive while the others were seen
		if _, alive := svm.VProcs()[uuid]; !alive {
			others = []int{}
		}
		e.rec.log(map[string]interface{}{"ev": "procsnap", "c": c, "w": me, "others": others,
			"others_deaf": len(others) > 0 && !pre && deaf && e.restartedNow()})
		return rc
	}
}

func (e *vE2ERun) deafVM() *test.StubVM {
	e.vmMu.Lock()
	defer e.vmMu.Unlock()
	return e.deaf
}

func (e *vE2ERun) restartedNow() bool {
	e.vmMu.Lock()
	defer e.vmMu.Unlock()
	return e.restarted
}

var vRndMu sync.Mutex

func (e *vE2ERun) rndInt(n int) int {
	vRndMu.Lock()
	defer vRndMu.Unlock()
	if n <= 0 {
		return 0
	}
	return e.rnd.Intn(n)
}

// final observation: (containers not final among the runnable ones, instances still existing)
func (e *vE2ERun) observe() (notFinal []int, insts int, held map[int]bool) {
	held = map[int]bool{}
	for i := 1; i <= e.scn.N; i++ {
		st, pr, _ := e.queue.VTruth(test.ContainerUUID(i))
		if pr == 0 {
			held[i] = true
		}
		if st != "Complete" && st != "Cancelled" && pr > 0 {
			notFinal = append(notFinal, i)
		}
	}
	return notFinal, e.sis.(*test.StubInstanceSet).VCount(), held
}

func vE2EOne(t *testing.T, scn *vE2EScenario, tw *vTraceWriter, hostpriv ssh.Signer, dispatchpub ssh.PublicKey, dispatchprivraw []byte, calib time.Duration) time.Duration {
	logger := logrus.New()
	logger.Out = io.Discard
	if os.Getenv("VERIF_DEBUG") == "2" {
		logger.Out = os.Stdout
		logger.Level = logrus.DebugLevel
	}
	e := &vE2ERun{scn: scn, rnd: rand.New(rand.NewSource(scn.RSeed)), logger: logger, release: make(chan struct{}),
		rec: &vRec{known: map[int][2]interface{}{}, ib: map[int]string{}, tw: tw}, reported: map[int]bool{}}
	e.rec.events = vEventSink{e.rec}
	stale := time.Duration(scn.StaleMs) * time.Millisecond
	if stale == 0 {
		stale = 3 * time.Second
	}
	bootTO, idleTO := 150*time.Millisecond, 150*time.Millisecond
	if scn.KF {
		bootTO = 6 * time.Second // the unresponsive VM stays "unknown" well beyond StaleLockTimeout
		idleTO = 3 * time.Second // the other instance is still there after the restart
	}
	e.sd = &test.StubDriver{
		HostKey:                   hostpriv,
		AuthorizedKeys:            []ssh.PublicKey{dispatchpub},
		ErrorRateDestroy:          scn.ErrDestroy,
		MinTimeBetweenCreateCalls: time.Millisecond,
	}
	if scn.CreateLimitMs > 0 {
		e.sd.MinTimeBetweenCreateCalls = time.Duration(scn.CreateLimitMs) * time.Millisecond
	}
	if scn.ListLimitMs > 0 {
		e.sd.MinTimeBetweenInstancesCalls = time.Duration(scn.ListLimitMs) * time.Millisecond
	}
	e.cluster = &arvados.Cluster{
		ManagementToken: "test-management-token",
		Containers: arvados.ContainersConfig{
			CrunchRunCommand:       "crunch-run",
			CrunchRunArgumentsList: []string{"--foo", "--extra='args'"},
			DispatchPrivateKey:     string(dispatchprivraw),
			StaleLockTimeout:       arvados.Duration(stale),
			CloudVMs: arvados.CloudVMsConfig{
				Driver:               "verif",
				SyncInterval:         arvados.Duration(10 * time.Millisecond),
				TimeoutIdle:          arvados.Duration(idleTO),
				TimeoutBooting:       arvados.Duration(bootTO),
				TimeoutProbe:         arvados.Duration(15 * time.Millisecond),
				TimeoutShutdown:      arvados.Duration(5 * time.Millisecond),
				MaxCloudOpsPerSecond: 500,
				PollInterval:         arvados.Duration(5 * time.Millisecond),
				ProbeInterval:        arvados.Duration(5 * time.Millisecond),
				MaxProbesPerSecond:   1000,
				TimeoutSignal:        arvados.Duration(3 * time.Millisecond),
				TimeoutStaleRunLock:  arvados.Duration(3 * time.Millisecond),
				TimeoutTERM:          arvados.Duration(20 * time.Millisecond),
				ResourceTags:         map[string]string{"testtag": "test value"},
				TagKeyPrefix:         "test:",
			},
		},
		InstanceTypes: arvados.InstanceTypeMap{},
	}
	for _, k := range []int{1, 2, 3, 4, 6, 8, 16} {
		e.cluster.InstanceTypes[test.InstanceType(k).Name] = test.InstanceType(k)
	}
	arvadostest.SetServiceURL(&e.cluster.Services.DispatchCloud, "http://localhost:/")
	arvadostest.SetServiceURL(&e.cluster.Services.Controller, "https://"+os.Getenv("ARVADOS_API_HOST")+"/")

	e.queue = &test.Queue{
		ChooseType: func(ctr *arvados.Container) (arvados.InstanceType, error) {
			return ChooseInstanceType(e.cluster, ctr)
		},
		Logger: logger,
	}
	init := []string{}
	ntypes := 3
	if scn.KF || scn.OneType || scn.StaleList {
		ntypes = 1 // every container fits every instance
	}
	for i := 0; i < scn.N; i++ {
		e.queue.Containers = append(e.queue.Containers, arvados.Container{
			UUID:     test.ContainerUUID(i + 1),
			State:    arvados.ContainerStateQueued,
			Priority: int64(i%scn.Prios + 1),
			RuntimeConstraints: arvados.RuntimeConstraints{
				RAM:   int64(i%ntypes+1) << 30,
				VCPUs: i%ntypes + 1,
			},
		})
		init = append(init, "Queued")
		e.rec.known[i+1] = [2]interface{}{"Queued", int64(i%scn.Prios + 1)}
	}
	var deferred []arvados.Container
	if scn.StaleList {
		deferred, e.queue.Containers = e.queue.Containers, nil
	}
	e.qwrap = &vQueueWrap{q: e.queue, r: e.rec}
	e.sd.Queue = e.queue
	e.sd.SetupVM = e.setupVM
	e.sd.Bugf = func(f string, args ...interface{}) {
		msg := fmt.Sprintf(f, args...)
		e.rec.log(map[string]interface{}{"ev": "stubbug", "c": vE2ECtr(msg), "msg": msg})
	}
	// one cloud for the whole scenario: dispatchers come and go, instances stay
	sis, err := e.sd.InstanceSet(nil, "verif", nil, logger)
	if err != nil {
		t.Fatal(err)
	}
	e.sis = sis
	if scn.QuotaFirst > 0 {
		e.quota = &vQuotaFaults{left: scn.QuotaFirst}
	}
	if scn.StaleList {
		e.gate = &vListGate{caught: make(chan struct{}), release: make(chan struct{}), open: make(chan struct{})}
	}
	Drivers["verif"] = cloud.DriverFunc(func(config json.RawMessage, id cloud.InstanceSetID, tags cloud.SharedResourceTags, l logrus.FieldLogger) (cloud.InstanceSet, error) {
		return vPersistentSet{sis, e.gate, e.quota}, nil
	})
	e.rec.log(map[string]interface{}{"ev": "reset", "scn": scn.ID, "nc": scn.N, "nw": 0, "init": init, "mode": "sound"})

	start := time.Now()
	e.newDispatcher()

	if scn.StaleList {
		e.disp.pool.CountWorkers() // returns once the pool has loaded its first instance list
		e.gate.mu.Lock()
		e.gate.mode = 1
		e.gate.mu.Unlock()
		applicable := false
		select {
		case <-e.gate.caught:
			applicable = true
		case <-time.After(10 * time.Second):
		}
		for _, ctr := range deferred {
			e.queue.Notify(ctr)
		}
		uuid1, first := "", -1
		if os.Getenv("VERIF_DEBUG") != "" {
			go func() {
				for i := 0; i < 6; i++ {
					time.Sleep(300 * time.Millisecond)
					cnt := map[string]int{}
					for _, iv := range e.disp.pool.Instances() {
						cnt[iv.WorkerState+"/"+string(iv.IdleBehavior)]++
					}
					fmt.Printf("VERIF-DBG %v applicable=%v\n", cnt, applicable)
				}
			}()
		}
		for t0 := time.Now(); applicable && time.Since(t0) < 10*time.Second; time.Sleep(time.Millisecond) {
			e.vmMu.Lock()
			for i, o := range e.vms {
				for u := range o.VProcs() {
					uuid1, first = u, i // a container has a (slowly detaching) process on an instance
				}
			}
			e.vmMu.Unlock()
			if uuid1 != "" {
				break
			}
		}
		close(e.gate.release) // the stale answer arrives now
		for t0 := time.Now(); time.Since(t0) < 1500*time.Millisecond; time.Sleep(time.Millisecond) {
			e.vmMu.Lock()
			second := false
			for i, o := range e.vms {
				if _, ok := o.VProcs()[uuid1]; ok && i != first {
					second = true
				}
			}
			e.vmMu.Unlock()
			if second {
				break
			}
		}
		e.gate.mu.Lock()
		e.gate.mode = 0
		e.gate.mu.Unlock()
		close(e.gate.open)
		if !applicable {
			e.rec.log(map[string]interface{}{"ev": "note", "what": "stale-list scenario not applicable: no list call caught"})
		}
	}

	// deadline for the whole scenario (C15: >= 100 x the fault-free completion time of this run)
	factor := scn.DeadlineFactor
	if factor < 100 {
		factor = 100
	}
	deadline := time.Duration(factor) * calib
	if scn.Calm || deadline < 60*time.Second {
		deadline = 60 * time.Second
	}

	// user and operator actions, restart: at random moments while the queue drains
	actions := []string{}
	for i := 0; i < scn.Cancels; i++ {
		actions = append(actions, "cancel")
	}
	for i := 0; i < scn.Holds; i++ {
		actions = append(actions, "hold")
	}
	for i := 0; i < scn.IBOps; i++ {
		actions = append(actions, "ib")
	}
	if scn.Restart && !scn.KF {
		actions = append(actions, "restart")
	}
	e.rnd.Shuffle(len(actions), func(i, j int) { actions[i], actions[j] = actions[j], actions[i] })
	restarted := false
	doRestart := func() {
		e.disp.Close()
		e.rec.mu.Lock()
		e.rec.dirtyU, e.rec.dirtyE = true, true
		e.rec.events = vAppend(e.rec.events, map[string]interface{}{"ev": "restart"})
		// The new pool learns idle behaviours from the instance tags, which are written
		// asynchronously: what the operator asked for shortly before the restart may be lost.
		// From here on only requests made to the new dispatcher count.
		for w, b := range e.rec.ib {
			if b != "run" {
				e.rec.ib[w] = "any"
				e.rec.events = vAppend(e.rec.events, map[string]interface{}{"ev": "setib", "w": w, "b": "any"})
			}
		}
		e.rec.mu.Unlock()
		restarted = true
		e.vmMu.Lock()
		e.restarted = true
		e.vmMu.Unlock()
		e.newDispatcher()
	}
	// instances whose idle behaviour the operator (this driver) has changed; only those are released
	// later - an instance the dispatcher itself drains (it reported broken, unkillable container)
	// must stay drained
	opset := map[cloud.InstanceID]bool{}
	var opmu sync.Mutex
	isOpset := func(id cloud.InstanceID) bool { opmu.Lock(); defer opmu.Unlock(); return opset[id] }
	setIBx := func(id cloud.InstanceID, b worker.IdleBehavior, release bool) {
		opmu.Lock()
		opset[id] = release
		opmu.Unlock()
		w := vE2EInst(string(id))
		e.rec.mu.Lock()
		e.rec.ib[w] = "any"
		e.rec.events = vAppend(e.rec.events, map[string]interface{}{"ev": "setib", "w": w, "b": "any"})
		e.rec.mu.Unlock()
		err := e.disp.pool.SetIdleBehavior(id, b)
		e.rec.mu.Lock()
		nb := string(b)
		if err != nil {
			nb = "run" // the instance is gone
		}
		e.rec.ib[w] = nb
		e.rec.events = vAppend(e.rec.events, map[string]interface{}{"ev": "setib", "w": w, "b": nb})
		e.rec.mu.Unlock()
	}
	setIB := func(id cloud.InstanceID, b worker.IdleBehavior) { setIBx(id, b, true) }
	e.vmMu.Lock()
	e.opDrain = func(id cloud.InstanceID) { setIBx(id, worker.IdleBehaviorDrain, false) } // never released
	e.vmMu.Unlock()
	if scn.HoldAllMs > 0 {
		held := map[cloud.InstanceID]bool{}
		for t0 := time.Now(); time.Since(t0) < time.Duration(scn.HoldAllMs)*time.Millisecond; time.Sleep(time.Millisecond) {
			for _, iv := range e.disp.pool.Instances() {
				if !held[iv.Instance] && iv.IdleBehavior == worker.IdleBehaviorRun {
					held[iv.Instance] = true
					setIB(iv.Instance, worker.IdleBehaviorHold)
				}
			}
		}
		for id := range held {
			setIB(id, worker.IdleBehaviorRun)
		}
	}
	for _, a := range actions {
		time.Sleep(time.Duration(2+e.rndInt(25)) * time.Millisecond)
		switch a {
		case "cancel", "hold":
			c := 1 + e.rndInt(scn.N)
			uuid := test.ContainerUUID(c)
			st, pr, _ := e.queue.VTruth(uuid)
			if st == "Complete" || st == "Cancelled" {
				continue
			}
			ctr, ok := e.queue.Get(uuid)
			if !ok {
				continue
			}
			ctr.State = arvados.ContainerState(st)
			ctr.Priority = pr
			if a == "cancel" {
				ctr.State = arvados.ContainerStateCancelled
			} else {
				ctr.Priority = 0
			}
			e.rec.mu.Lock()
			if e.queue.Notify(ctr) {
				if st2, pr2, ok := e.queue.VTruth(uuid); ok {
					e.rec.apiLocked(c, st2, pr2)
				}
			}
			e.rec.mu.Unlock()
		case "ib":
			insts := e.disp.pool.Instances()
			if len(insts) == 0 {
				continue
			}
			iv := insts[e.rndInt(len(insts))]
			setIB(iv.Instance, []worker.IdleBehavior{worker.IdleBehaviorHold, worker.IdleBehaviorDrain, worker.IdleBehaviorRun}[e.rndInt(3)])
		case "restart":
			doRestart()
		}
	}
	if scn.KF {
		// wait until the first container has a (slowly detaching) process, then make its VM deaf and
		// replace the dispatcher
		for t0 := time.Now(); time.Since(t0) < 3*time.Second; time.Sleep(time.Millisecond) {
			e.vmMu.Lock()
			n := 0
			if len(e.vms) > 0 {
				n = len(e.vms[0].VProcs())
			}
			e.vmMu.Unlock()
			nf, _, _ := e.observe()
			if n > 0 && len(nf) <= 1 { // only the slow one is left: the other instance is idle
				break
			}
		}
		e.vmMu.Lock()
		if len(e.vms) > 0 {
			e.vms[0].Lock()
			e.vms[0].Broken = time.Now()
			e.vms[0].Unlock()
			e.deaf = e.vms[0]
		}
		e.vmMu.Unlock()
		doRestart()
	}

	// quiesce: the operator releases every hold / drain (held instances are never shut down)
	for _, iv := range e.disp.pool.Instances() {
		if iv.IdleBehavior != worker.IdleBehaviorRun && isOpset(iv.Instance) {
			setIB(iv.Instance, worker.IdleBehaviorRun)
		}
	}
	// drain: everything runnable final and no instance left, or the deadline
	var notFinal []int
	var insts int
	for {
		if scn.QuotaFirst > 0 {
			// virtual time: the minute of hold-off after a quota error is over
			if wp, ok := e.disp.pool.(*vPoolWrap).pool.(*worker.Pool); ok {
				wp.VEndQuotaHoldOff()
			}
		}
		// (a hold restored from the instance tags by a new dispatcher may show up late)
		for _, iv := range e.disp.pool.Instances() {
			if iv.IdleBehavior != worker.IdleBehaviorRun && isOpset(iv.Instance) {
				setIB(iv.Instance, worker.IdleBehaviorRun)
			}
		}
		notFinal, insts, _ = e.observe()
		if len(notFinal) == 0 && insts == 0 {
			break
		}
		if time.Since(start) > deadline {
			break
		}
		time.Sleep(5 * time.Millisecond)
	}
	elapsed := time.Since(start)
	// (a dispatcher whose scheduler is blocked for good cannot be stopped either: do not wait for it)
	closed := make(chan struct{})
	go func() { e.disp.Close(); close(closed) }()
	select {
	case <-closed:
	case <-time.After(10 * time.Second):
		e.rec.log(map[string]interface{}{"ev": "note", "what": "dispatcher did not stop within 10 s"})
	}
	close(e.release)
	nf := notFinal
	if nf == nil {
		nf = []int{}
	}
	e.rec.log(map[string]interface{}{"ev": "final", "notfinal": nf, "instances": insts, "elapsed_ms": elapsed.Milliseconds(),
		"deadline_ms": deadline.Milliseconds(), "calib_ms": calib.Milliseconds(), "restarted": restarted,
		"timedout": elapsed > deadline, "calm": scn.Calm})
	return elapsed
}

// vClassifyDeath looks at the output of a child test process that did not finish.  code = true only
// if the process died of a Go panic (not the test timeout) whose panicking goroutine's first frame
// outside the Go runtime lies in a non-test, non-harness file of lib/dispatchcloud other than its
// test-support package: a panic raised by the code under test.
func vClassifyDeath(cout string) (msg, where string, code bool) {
	lines := strings.Split(cout, "\n")
	k := -1
	for i, l := range lines {
		if strings.HasPrefix(l, "panic:") || strings.HasPrefix(l, "fatal error:") {
			msg, k = l, i
			break
		}
	}
	if k < 0 {
		tail := cout
		if len(tail) > 300 {
			tail = tail[len(tail)-300:]
		}
		return "no panic: " + strings.Replace(tail, "\n", " | ", -1), "", false
	}
	if strings.Contains(msg, "test timed out") || strings.HasPrefix(msg, "fatal error:") {
		return msg, "", false
	}
	// frames of the first goroutine listed after the panic line (the panicking one)
	g := -1
	for i := k + 1; i < len(lines); i++ {
		if strings.HasPrefix(lines[i], "goroutine ") {
			g = i
			break
		}
	}
	if g < 0 {
		return msg, "", false
	}
	for i := g + 1; i+1 < len(lines) && lines[i] != ""; i += 2 {
		fn, file := lines[i], strings.TrimSpace(lines[i+1])
		if strings.Contains(file, "/src/runtime/") || strings.HasPrefix(fn, "panic(") || strings.HasPrefix(fn, "runtime.") {
			continue
		}
		where = strings.TrimSpace(fn) + " " + file
		code = strings.Contains(file, "/lib/dispatchcloud/") && !strings.Contains(file, "/lib/dispatchcloud/test/") &&
			!strings.Contains(file, "zz_verif_") && !strings.Contains(file, "_test.go")
		return msg, where, code
	}
	return msg, where, false
}

// Parent: one child process per scenario, so that a panic of the code under test (the worker pool
// can panic, see the report of C14) ends that scenario only; it is recorded as an event.
func TestVerifC14E2E(t *testing.T) {
	var scns []*vE2EScenario
	vReadNDJSON(os.Getenv("VERIF_SCENARIOS"), func() interface{} {
		s := &vE2EScenario{}
		scns = append(scns, s)
		return s
	})
	out, err := os.Create(os.Getenv("VERIF_TRACES"))
	if err != nil {
		t.Fatal(err)
	}
	defer out.Close()
	dir := os.Getenv("VERIF_SCRATCH")
	if dir == "" {
		dir = os.TempDir()
	}
	calib := int64(0)
	for i, scn := range scns {
		sf := fmt.Sprintf("%s/e2e-scn-%d-%d.json", dir, os.Getpid(), i)
		tf := fmt.Sprintf("%s/e2e-trace-%d-%d.ndjson", dir, os.Getpid(), i)
		buf, _ := json.Marshal(scn)
		ioutil.WriteFile(sf, buf, 0644)
		cmd := exec.Command(os.Args[0], "-test.run", "^TestVerifC14E2EChild$", "-test.timeout", "30m")
		cmd.Env = append(os.Environ(), "VERIF_E2E_SCN="+sf, "VERIF_E2E_OUT="+tf, fmt.Sprintf("VERIF_E2E_CALIB=%d", calib))
		cout, cerr := cmd.CombinedOutput()
		for _, l := range strings.Split(string(cout), "\n") {
			if strings.HasPrefix(l, "VERIF-DBG") || (os.Getenv("VERIF_DEBUG") == "2" && strings.Contains(l, "probe")) {
				fmt.Println(l)
			}
		}
		lines, _ := ioutil.ReadFile(tf)
		text := strings.TrimRight(string(lines), "\n")
		// drop a torn last line
		if k := strings.LastIndex(text, "\n"); k >= 0 && !strings.HasSuffix(text, "}") {
			text = text[:k]
		}
		if text != "" {
			out.WriteString(text + "\n")
		}
		if cerr != nil || !strings.Contains(string(cout), "VERIF-CHILD-DONE") {
			if text == "" {
				b, _ := json.Marshal(map[string]interface{}{"ev": "reset", "scn": scn.ID, "nc": scn.N, "nw": 0, "init": []string{}, "mode": "sound"})
				out.WriteString(string(b) + "\n")
			}
			// Only a panic raised in the code under test is an observation about that code; a
			// timeout, a kill, a failed set-up or a panic in harness / test-support code is an
			// infrastructure failure of this run (the check drops the trace and counts it).
			msg, where, code := vClassifyDeath(string(cout))
			ev := map[string]interface{}{"ev": "infra", "what": msg, "where": where, "scn": scn.ID}
			if code {
				ev = map[string]interface{}{"ev": "crashed", "msg": msg, "where": where, "scn": scn.ID}
			}
			b, _ := json.Marshal(ev)
			out.WriteString(string(b) + "\n")
			fmt.Printf("VERIF-NOTE scenario %d: child process died (%s): %s %s\n", scn.ID, ev["ev"], msg, where)
		}
		if scn.Calm {
			// calibration: elapsed time of the fault-free run, from its final event
			for _, l := range strings.Split(text, "\n") {
				if strings.Contains(l, `"ev":"final"`) {
					var f struct {
						Elapsed int64 `json:"elapsed_ms"`
					}
					json.Unmarshal([]byte(l), &f)
					calib = f.Elapsed
				}
			}
		}
		os.Remove(sf)
		os.Remove(tf)
	}
	fmt.Println("VERIF-DRIVER-DONE")
}

func TestVerifC14E2EChild(t *testing.T) {
	sf := os.Getenv("VERIF_E2E_SCN")
	if sf == "" {
		t.Skip("child of TestVerifC14E2E")
	}
	buf, err := ioutil.ReadFile(sf)
	if err != nil {
		t.Fatal(err)
	}
	scn := &vE2EScenario{}
	if err := json.Unmarshal(buf, scn); err != nil {
		t.Fatal(err)
	}
	calibms, _ := strconv.Atoi(os.Getenv("VERIF_E2E_CALIB"))
	tw := vNewTraceWriter(os.Getenv("VERIF_E2E_OUT"))
	defer tw.Close()
	rawpub, err := ioutil.ReadFile("test/sshkey_dispatch.pub")
	if err != nil {
		t.Fatal(err)
	}
	dispatchpub, _, _, _, err := ssh.ParseAuthorizedKey(rawpub)
	if err != nil {
		t.Fatal(err)
	}
	dispatchprivraw, err := ioutil.ReadFile("test/sshkey_dispatch")
	if err != nil {
		t.Fatal(err)
	}
	rawhost, err := ioutil.ReadFile("test/sshkey_vm")
	if err != nil {
		t.Fatal(err)
	}
	hostpriv, err := ssh.ParsePrivateKey(rawhost)
	if err != nil {
		t.Fatal(err)
	}
	vE2EOne(t, scn, tw, hostpriv, dispatchpub, dispatchprivraw, time.Duration(calibms)*time.Millisecond)
	fmt.Println("VERIF-CHILD-DONE")
}
