//go:build verif

// RUN stage of C06 (b), writer side (DESIGN.md section 6, C06): keepstore's real index handler
// (router -> handleIndex -> Volume.IndexTo) is asked for an index while one volume fails midway; the
// response is fetched raw and also through the two real index readers (arvados.KeepService.Index and
// keepclient.GetIndex) over real HTTP.  Judged by specs/balance/IndexFramingTrace.tla.
//
// Scenario fields (mode "write", from IndexFraming.tla, or made by checks/C06.py):
//   vols [[[size digits, mtime digits]..]..]   entries each volume lists
//   failvol (0 = none), failat                  which volume's IndexTo fails, after how many bytes
//   dir: true                                   use real Directory volumes: block files on disk, the
//                                               failure is a regular file where a block directory is
//                                               expected (IndexTo reports ENOTDIR at the end)
// The driver decides nothing.

package main

import (
	"context"
	"encoding/json"
	"errors"
	"fmt"
	"io"
	"math/rand"
	"net"
	"net/http"
	"net/http/httptest"
	"os"
	"path/filepath"
	"sort"
	"strconv"
	"strings"
	"sync"
	"testing"
	"time"

	"git.arvados.org/arvados.git/lib/config"
	"git.arvados.org/arvados.git/sdk/go/arvados"
	"git.arvados.org/arvados.git/sdk/go/arvadosclient"
	"git.arvados.org/arvados.git/sdk/go/ctxlog"
	"git.arvados.org/arvados.git/sdk/go/keepclient"
	"github.com/prometheus/client_golang/prometheus"
	"github.com/sirupsen/logrus"
)

type vIdxWScn struct {
	ID      int       `json:"id"`
	Mode    string    `json:"mode"`
	Vols    [][][]int `json:"vols"`
	FailVol int       `json:"failvol"`
	FailAt  int       `json:"failat"`
	Dir     bool      `json:"dir"`
}

// scripted volume: IndexTo writes a prepared byte string and then fails (or not)
type vIdxVolume struct {
	Volume // nil: no other method is used by the index handler
	id     string
}

type vIdxScript struct {
	data []byte
	fail bool
}

var (
	vIdxScripts   = map[string]vIdxScript{}
	vIdxScriptsMu sync.Mutex
)

func (v *vIdxVolume) IndexTo(prefix string, w io.Writer) error {
	vIdxScriptsMu.Lock()
	sc := vIdxScripts[v.id]
	vIdxScriptsMu.Unlock()
	if _, err := w.Write(sc.data); err != nil {
		return err
	}
	if sc.fail {
		return errors.New("verif: injected I/O error")
	}
	return nil
}
func (v *vIdxVolume) String() string      { return "verifidx:" + v.id }
func (v *vIdxVolume) GetDeviceID() string { return "verifidx-" + v.id }

func init() {
	driver["verifidx"] = func(cluster *arvados.Cluster, volume arvados.Volume, logger logrus.FieldLogger, metrics *volumeMetricsVecs) (Volume, error) {
		var p struct{ ID string }
		if err := json.Unmarshal(volume.DriverParameters, &p); err != nil {
			return nil, err
		}
		return &vIdxVolume{id: p.ID}, nil
	}
}

func vIdxWDigits(rng *rand.Rand, n int) string {
	b := make([]byte, n)
	for i := range b {
		b[i] = byte('0' + rng.Intn(10))
	}
	if n > 0 && (b[0] == '0' || b[0] == '9') {
		b[0] = '1' // no leading zero; a 19-digit mtime must fit in int64
	}
	return string(b)
}

func vIdxWEntries(rng *rand.Rand, shape [][]int) []byte {
	var out []byte
	for _, e := range shape {
		h := make([]byte, 16)
		rng.Read(h)
		out = append(out, fmt.Sprintf("%x+%s %s\n", h, vIdxWDigits(rng, e[0]), vIdxWDigits(rng, e[1]))...)
	}
	return out
}

func TestVerifC06IndexWriter(t *testing.T) {
	seed, _ := strconv.ParseInt(os.Getenv("VERIF_SEED"), 10, 64)
	var scns []*vIdxWScn
	vReadNDJSON(os.Getenv("VERIF_SCENARIOS"), func() interface{} {
		s := &vIdxWScn{}
		scns = append(scns, s)
		return s
	})
	tw := vNewTraceWriter(os.Getenv("VERIF_TRACES"))
	logger := logrus.New()
	logger.Out = io.Discard
	ctx := ctxlog.Context(context.Background(), logger)
	if bufs == nil {
		bufs = newBufferPool(logger, 4, BlockSize)
	}
	const token = "verif-system-root-token-0123456789abcdef"

	var hmu sync.Mutex
	var current http.Handler
	srv := httptest.NewServer(http.HandlerFunc(func(w http.ResponseWriter, r *http.Request) {
		hmu.Lock()
		h := current
		hmu.Unlock()
		h.ServeHTTP(w, r.WithContext(ctxlog.Context(r.Context(), logger)))
	}))
	defer srv.Close()
	host, portS, _ := net.SplitHostPort(strings.TrimPrefix(srv.URL, "http://"))
	port, _ := strconv.Atoi(portS)
	scratch, err := os.MkdirTemp(os.Getenv("VERIF_SCRATCH"), "c06idx")
	if err != nil {
		panic(err)
	}
	defer os.RemoveAll(scratch)

	// the default cluster configuration is loaded once; every scenario replaces its Volumes
	ldr := config.NewLoader(strings.NewReader("Clusters: {zzzzz: {}}"), logger)
	ldr.Path = "-"
	cfg, err := ldr.Load()
	if err != nil {
		panic(err)
	}
	cluster, err := cfg.GetCluster("")
	if err != nil {
		panic(err)
	}
	for _, s := range scns {
		if s.Mode != "write" {
			continue
		}
		rng := rand.New(rand.NewSource(seed*1000003 + int64(s.ID)))
		cluster.SystemRootToken = token
		cluster.Collections.BlobSigning = false
		cluster.Volumes = map[string]arvados.Volume{}
		var uuids []string
		sdir := filepath.Join(scratch, fmt.Sprintf("s%d", s.ID))
		for i, shape := range s.Vols {
			uuid := fmt.Sprintf("zzzzz-nyw5e-%015d", i+1)
			uuids = append(uuids, uuid)
			if s.Dir {
				root := filepath.Join(sdir, fmt.Sprintf("v%d", i+1))
				os.MkdirAll(root, 0777)
				for range shape {
					h := make([]byte, 16)
					rng.Read(h)
					name := fmt.Sprintf("%x", h)
					os.MkdirAll(filepath.Join(root, name[:3]), 0777)
					os.WriteFile(filepath.Join(root, name[:3], name), make([]byte, rng.Intn(2000)), 0666)
				}
				if s.FailVol == i+1 {
					// a regular file where a block directory is expected
					for {
						name := fmt.Sprintf("%03x", rng.Intn(4096))
						if _, err := os.Stat(filepath.Join(root, name)); err != nil {
							os.WriteFile(filepath.Join(root, name), []byte("x"), 0666)
							break
						}
					}
				}
				p, _ := json.Marshal(map[string]interface{}{"Root": root})
				cluster.Volumes[uuid] = arvados.Volume{Driver: "Directory", Replication: 1, DriverParameters: p}
			} else {
				data := vIdxWEntries(rng, shape)
				sc := vIdxScript{data: data}
				if s.FailVol == i+1 {
					sc.fail = true
					if s.FailAt < len(data) {
						sc.data = data[:s.FailAt]
					}
				}
				id := fmt.Sprintf("%d-%d", s.ID, i+1)
				vIdxScriptsMu.Lock()
				vIdxScripts[id] = sc
				vIdxScriptsMu.Unlock()
				p, _ := json.Marshal(map[string]interface{}{"ID": id})
				cluster.Volumes[uuid] = arvados.Volume{Driver: "verifidx", Replication: 1, DriverParameters: p}
			}
		}
		reg := prometheus.NewRegistry()
		vm, err := makeRRVolumeManager(logger, cluster, arvados.URL{Scheme: "http", Host: "localhost:12345"}, newVolumeMetricsVecs(reg))
		if err != nil {
			panic(err)
		}
		// the handler indexes volumes in the manager's order; make that the scenario's order
		sort.Slice(vm.readables, func(i, j int) bool { return vm.readables[i].UUID < vm.readables[j].UUID })
		rtr := MakeRESTRouter(ctx, cluster, reg, vm, NewWorkQueue(), NewWorkQueue())
		hmu.Lock()
		current = rtr
		hmu.Unlock()

		path := "/index"
		mount := ""
		if len(s.Vols) == 1 && s.ID%2 == 0 {
			mount = uuids[0]
			path = "/mounts/" + mount + "/blocks"
		} else if s.ID%3 == 0 {
			path = "/index/"
		}
		// raw
		req, _ := http.NewRequest("GET", srv.URL+path, nil)
		req.Header.Set("Authorization", "Bearer "+token)
		status, term, blen := 0, false, 0
		rawOK := false // the raw request itself worked (no transport error or timeout of the harness's own GET)
		hc := &http.Client{Timeout: 30 * time.Second}
		if resp, err := hc.Do(req); err == nil {
			body, rerr := io.ReadAll(resp.Body)
			resp.Body.Close()
			status = resp.StatusCode
			blen = len(body)
			rawOK = rerr == nil
			term = rerr == nil && (string(body) == "\n" || strings.HasSuffix(string(body), "\n\n"))
		}
		// reader 1: arvados.KeepService
		ac := &arvados.Client{AuthToken: token, Client: hc}
		ks := &arvados.KeepService{UUID: "zzzzz-bi6l4-000000000000000", ServiceHost: host, ServicePort: port}
		var err1 error
		if mount != "" {
			_, err1 = ks.IndexMount(context.Background(), ac, mount, "")
		} else {
			_, err1 = ks.Index(context.Background(), ac, "")
		}
		// reader 2: keepclient.GetIndex (whole-server index only)
		kc := &keepclient.KeepClient{Arvados: &arvadosclient.ArvadosClient{ApiToken: token, ApiServer: "localhost:9"}, HTTPClient: hc}
		roots := map[string]string{ks.UUID: srv.URL}
		kc.SetServiceRoots(roots, roots, nil)
		rdr, err2 := kc.GetIndex(ks.UUID, "")
		if err2 == nil {
			_, err2 = io.ReadAll(rdr)
		}
		failed := s.FailVol != 0
		if mount != "" && s.FailVol != 1 {
			failed = false
		}
		tw.Write(map[string]interface{}{"ev": "reset", "scn": s.ID, "part": "framing", "rdr": "handler", "shape": [][]int{},
			"cut": 0, "n": 1, "path": path, "dir": s.Dir, "nvols": len(s.Vols), "failvol": s.FailVol, "failat": s.FailAt})
		if !rawOK {
			// nothing is known about the response the handler produced: no event to judge
			vm.Close()
			if s.Dir {
				os.RemoveAll(sdir)
			}
			continue
		}
		tw.Write(map[string]interface{}{"ev": "write", "failed": failed, "status": status, "term": term, "len": blen,
			"e1": err1 != nil, "e2": err2 != nil})
		vm.Close()
		if s.Dir {
			os.RemoveAll(sdir)
		}
	}
	tw.Close()
	fmt.Println("VERIF-DRIVER-DONE indexwriter", len(scns))
}
