//go:build verif

// Helpers shared by the C04 and C02 drivers: a keepstore handler on Directory volumes in temp dirs
// (built the way handler_test.go / unix_volume_test.go do: testCluster + handler.setup), volume
// numbering by the server's own mount order, directory scans, and virtual time by shifting stored
// timestamps (DESIGN.md section 4.4).

package main

import (
	"bytes"
	"context"
	"crypto/md5"
	"encoding/json"
	"fmt"
	"io/ioutil"
	"net/http"
	"net/http/httptest"
	"os"
	"path/filepath"
	"sort"
	"strconv"
	"strings"
	"sync"
	"testing"
	"time"

	"git.arvados.org/arvados.git/lib/config"
	"git.arvados.org/arvados.git/sdk/go/arvados"
	"git.arvados.org/arvados.git/sdk/go/arvadostest"
	"git.arvados.org/arvados.git/sdk/go/ctxlog"
	"github.com/prometheus/client_golang/prometheus"
)

const vksUnit = time.Hour // one abstract time unit

var (
	vksBaseOnce    sync.Once
	vksBaseCluster *arvados.Cluster
)

// vksCluster returns a fresh copy of the default test cluster config (loaded once).
func vksCluster(t testing.TB) *arvados.Cluster {
	vksBaseOnce.Do(func() {
		// like handler_test.go's testCluster, but reading the config from the buffer (Path "-")
		ldr := config.NewLoader(bytes.NewBufferString("Clusters: {zzzzz: {}}"), ctxlog.New(ioutil.Discard, "text", "error"))
		ldr.Path = "-"
		ldr.SkipLegacy = true
		cfg, err := ldr.Load()
		if err != nil {
			t.Fatal(err)
		}
		cluster, err := cfg.GetCluster("")
		if err != nil {
			t.Fatal(err)
		}
		cluster.SystemRootToken = arvadostest.SystemRootToken
		cluster.ManagementToken = arvadostest.ManagementToken
		cluster.Collections.BlobSigning = false
		cluster.Services.Controller.ExternalURL = arvados.URL{Scheme: "http", Host: "localhost:9"}
		vksBaseCluster = cluster
	})
	c := *vksBaseCluster
	return &c
}

type vksServer struct {
	t       testing.TB
	cluster *arvados.Cluster
	h       *handler
	roots   []string // roots[k] = root dir of model volume k+1 (= h.volmgr.mounts[k])
	uuids   []string
	base    time.Time // virtual time 0
	shift   time.Duration
}

type vksConf struct {
	N     int
	RO    []bool
	Ser   bool
	Life  int // units
	TTL   int // units
	Trash bool
}

// vksStart builds volumes in dirs (created if empty list) and a handler whose mount order makes
// RO[k] apply to mount k.  The mount order of RRVolumeManager follows map iteration, so setup is
// repeated until the order fits (the read-only flags are the only thing that distinguishes mounts).
func vksStart(t testing.TB, parent string, conf vksConf, dirs []string) *vksServer {
	if len(dirs) == 0 {
		for k := 0; k < conf.N; k++ {
			d, err := ioutil.TempDir(parent, fmt.Sprintf("vol%d-", k+1))
			if err != nil {
				t.Fatal(err)
			}
			dirs = append(dirs, d)
		}
	}
	for attempt := 0; attempt < 200; attempt++ {
		cl := vksCluster(t)
		cl.Collections.BlobSigning = false
		cl.Collections.BlobTrash = conf.Trash
		cl.Collections.BlobSigningTTL = arvados.Duration(time.Duration(conf.TTL) * vksUnit)
		cl.Collections.BlobTrashLifetime = arvados.Duration(time.Duration(conf.Life) * vksUnit)
		cl.Collections.BlobTrashCheckInterval = 0
		cl.Collections.BlobTrashConcurrency = 1
		cl.Collections.BlobDeleteConcurrency = 1
		cl.Collections.BlobReplicateConcurrency = 1
		cl.Volumes = map[string]arvados.Volume{}
		for k := 0; k < conf.N; k++ {
			params, _ := json.Marshal(map[string]interface{}{"Root": dirs[k], "Serialize": conf.Ser})
			ro := k < len(conf.RO) && conf.RO[k]
			vol := arvados.Volume{Driver: "Directory", DriverParameters: params, Replication: 1}
			if ro && k%2 == 1 {
				// a mount can be read-only for THIS server only (AccessViaHosts) while the volume itself is
				// not: then UnixVolume's own ReadOnly checks do not apply and the handlers must refuse
				vol.AccessViaHosts = map[arvados.URL]arvados.VolumeAccess{testServiceURL: {ReadOnly: true}}
			} else {
				vol.ReadOnly = ro
			}
			cl.Volumes[fmt.Sprintf("zzzzz-nyw5e-%015d", k+1)] = vol
		}
		h := &handler{}
		ctx := ctxlog.Context(context.Background(), ctxlog.New(ioutil.Discard, "text", "error"))
		if err := h.setup(ctx, cl, "", prometheus.NewRegistry(), testServiceURL); err != nil {
			t.Fatalf("verif: handler.setup: %v", err)
		}
		srv := &vksServer{t: t, cluster: cl, h: h}
		ok := true
		for k, mnt := range h.volmgr.mounts {
			uv, isUnix := mnt.Volume.(*UnixVolume)
			if !isUnix {
				t.Fatalf("verif: mount %d is not a UnixVolume", k)
			}
			srv.roots = append(srv.roots, uv.Root)
			srv.uuids = append(srv.uuids, mnt.UUID)
			if mnt.ReadOnly != (k < len(conf.RO) && conf.RO[k]) {
				ok = false
			}
		}
		if ok {
			srv.base = time.Now()
			return srv
		}
		srv.stop()
	}
	t.Fatal("verif: could not obtain the wanted mount order")
	return nil
}

func (s *vksServer) stop() {
	s.h.pullq.Close()
	s.h.trashq.Close()
}

// Server cache: handler.setup costs 0.1-0.4 s (findmnt, clients), so one server per
// (n, read-only flags, Serialize) is kept and re-used; TTL, lifetime and BlobTrash are read from
// the cluster config at request time and can be changed between scenarios.
var vksCache = map[string]*vksServer{}

func vksGet(t testing.TB, parent string, conf vksConf) *vksServer {
	key := fmt.Sprintf("%d %v %v", conf.N, conf.RO[:conf.N], conf.Ser)
	s := vksCache[key]
	if s == nil {
		s = vksStart(t, parent, conf, nil)
		vksCache[key] = s
	}
	s.t = t
	s.cluster.Collections.BlobTrash = conf.Trash
	s.cluster.Collections.BlobSigningTTL = arvados.Duration(time.Duration(conf.TTL) * vksUnit)
	s.cluster.Collections.BlobTrashLifetime = arvados.Duration(time.Duration(conf.Life) * vksUnit)
	for _, root := range s.roots {
		ents, _ := ioutil.ReadDir(root)
		for _, e := range ents {
			os.RemoveAll(filepath.Join(root, e.Name()))
		}
	}
	s.h.volmgr.counter = 0 // NextWritable starts over, as in a fresh process
	s.base = time.Now()
	s.shift = 0
	return s
}

func vksStopAll() {
	for k, s := range vksCache {
		s.stop()
		delete(vksCache, k)
	}
}

func (s *vksServer) volIndex() map[string]int {
	m := map[string]int{}
	for k, r := range s.roots {
		m[r] = k + 1
	}
	return m
}

func (s *vksServer) do(method, uri string, body []byte, token string) *httptest.ResponseRecorder {
	return s.doCtx(context.Background(), method, uri, body, token)
}

func (s *vksServer) doCtx(ctx context.Context, method, uri string, body []byte, token string) *httptest.ResponseRecorder {
	resp := httptest.NewRecorder()
	req, _ := http.NewRequest(method, uri, bytes.NewReader(body))
	req = req.WithContext(ctx)
	if token != "" {
		req.Header.Set("Authorization", "OAuth2 "+token)
	}
	s.h.ServeHTTP(resp, req)
	return resp
}

const vksSysToken = arvadostest.SystemRootToken

func vksHash(data []byte) string { return fmt.Sprintf("%x", md5.Sum(data)) }

func (s *vksServer) blockPath(k int, hash string) string {
	return filepath.Join(s.roots[k], hash[:3], hash)
}

// place writes a file for hash on model volume k+1 with the given content and virtual mtime (units).
func (s *vksServer) place(k int, hash string, content []byte, mtu int) {
	p := s.blockPath(k, hash)
	if err := os.MkdirAll(filepath.Dir(p), 0755); err != nil {
		s.t.Fatal(err)
	}
	if err := ioutil.WriteFile(p, content, 0644); err != nil {
		s.t.Fatal(err)
	}
	// every placed file gets its own timestamp (a few hundred ns apart), as the model's inodes do: a
	// trash-list item naming one copy's timestamp must not accidentally name another copy's
	ts := s.base.Add(time.Duration(mtu)*vksUnit - s.shift + time.Duration(k+1)*100*time.Nanosecond)
	if err := os.Chtimes(p, ts, ts); err != nil {
		s.t.Fatal(err)
	}
}

// placeTrash writes <hash>.trash.<deadline> with virtual deadline dl (units) and an old mtime.
func (s *vksServer) placeTrash(k int, hash string, content []byte, dl int, mtu int) {
	deadline := s.base.Add(time.Duration(dl)*vksUnit - s.shift).Unix()
	p := fmt.Sprintf("%s.trash.%d", s.blockPath(k, hash), deadline)
	if err := os.MkdirAll(filepath.Dir(p), 0755); err != nil {
		s.t.Fatal(err)
	}
	if err := ioutil.WriteFile(p, content, 0644); err != nil {
		s.t.Fatal(err)
	}
	ts := s.base.Add(time.Duration(mtu)*vksUnit - s.shift + time.Duration(k+1)*100*time.Nanosecond + 50*time.Nanosecond)
	os.Chtimes(p, ts, ts)
}

func vksFloorDiv(a, b int64) int64 {
	q := a / b
	if (a%b != 0) && ((a < 0) != (b < 0)) {
		q--
	}
	return q
}

type vksVolScan struct {
	St  string `json:"st"`
	Mt  string `json:"mt"`
	Mtu int    `json:"mtu"`
	Tr  []int  `json:"tr"`
	Tmp int    `json:"tmp"` // other files in the block directory (temp files etc.), informational
}

// scan abstracts the directory of hash on every volume (see KeepstoreGCContract: st, mt, mtu, tr).
func (s *vksServer) scan(hash string) []vksVolScan {
	out := make([]vksVolScan, len(s.roots))
	for k := range s.roots {
		vs := vksVolScan{St: "absent", Mt: "0", Tr: []int{}}
		p := s.blockPath(k, hash)
		if fi, err := os.Stat(p); err == nil && !fi.IsDir() {
			data, _ := ioutil.ReadFile(p)
			if vksHash(data) == hash {
				vs.St = "intact"
			} else {
				vs.St = "corrupt"
			}
			vns := fi.ModTime().UnixNano() + int64(s.shift)
			vs.Mt = strconv.FormatInt(vns, 10)
			vs.Mtu = int(vksFloorDiv(vns-s.base.UnixNano(), int64(vksUnit)))
		}
		names, _ := ioutil.ReadDir(filepath.Dir(p))
		for _, fi := range names {
			name := fi.Name()
			if name == hash {
				continue
			}
			if strings.HasPrefix(name, hash+".trash.") {
				d, err := strconv.ParseInt(name[len(hash)+7:], 10, 64)
				if err != nil {
					vs.Tr = append(vs.Tr, -99999) // not a whole number of seconds
					continue
				}
				rel := d*int64(time.Second) + int64(s.shift) - s.base.UnixNano()
				vs.Tr = append(vs.Tr, int(vksFloorDiv(rel+int64(vksUnit)/2, int64(vksUnit))))
			} else {
				vs.Tmp++
			}
		}
		sort.Ints(vs.Tr)
		out[k] = vs
	}
	return out
}

// tick advances virtual time by d units: every stored timestamp moves d units into the past.
func (s *vksServer) tick(d int) {
	delta := time.Duration(d) * vksUnit
	for _, root := range s.roots {
		dirs, _ := ioutil.ReadDir(root)
		for _, di := range dirs {
			if !di.IsDir() {
				continue
			}
			files, _ := ioutil.ReadDir(filepath.Join(root, di.Name()))
			for _, fi := range files {
				p := filepath.Join(root, di.Name(), fi.Name())
				if i := strings.Index(fi.Name(), ".trash."); i >= 0 {
					if dl, err := strconv.ParseInt(fi.Name()[i+7:], 10, 64); err == nil {
						np := filepath.Join(root, di.Name(), fmt.Sprintf("%s.trash.%d", fi.Name()[:i], dl-int64(delta/time.Second)))
						os.Rename(p, np)
						p = np
					}
				}
				mt := fi.ModTime().Add(-delta)
				os.Chtimes(p, mt, mt)
			}
		}
	}
	s.shift += delta
}

// mtimeToken is the virtual timestamp token of a real mtime (what scan reports as mt).
func (s *vksServer) mtimeToken(realNs int64) string {
	return strconv.FormatInt(realNs+int64(s.shift), 10)
}
