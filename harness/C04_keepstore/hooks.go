//go:build verif

// verifPoint / verifWriter: the functions the instrumented copy of unix_volume.go calls
// (tools/instrument, DESIGN.md sections 4.1 and 4.3).  Three uses, all configured by the drivers:
//
//   yield points  (C04)  a vScheduler parks the goroutines of registered actors at every label whose
//                        method prefix belongs to the actor; the driver lets one actor run from its
//                        current label to its next label at a time ("turn").
//   kill points   (C02)  the n-th arrival at a label sends SIGKILL to the own process.
//   cancel points (C02)  the n-th arrival at a label calls a registered cancel function and goes on.
//   write errors  (C02)  the k-th chunk written through verifWriter fails with an injected error.
//
// With nothing configured every point is a counter increment.  This file is not a test file so that
// the instrumented non-test source compiles; it is only ever part of `go test -tags verif` builds.

package main

import (
	"context"
	"errors"
	"fmt"
	"io"
	"os"
	"strings"
	"sync"
	"syscall"
	"time"
)

type vHookState struct {
	mu sync.Mutex

	sched *vScheduler

	seen   map[string]int // label -> arrivals
	active map[string]int // method -> calls in progress
	order  []string       // "label@root" in arrival order (capped)

	killLabel string
	killN     int
	killFile  string // every label is appended here before it is acted on (survives SIGKILL)

	cancelLabel string
	cancelN     int
	cancelFn    func()

	errLabel string // e.g. "WriteBlock.Write#2"
}

var vHook = &vHookState{seen: map[string]int{}, active: map[string]int{}}

func verifEnter(method string, root string) {
	vHook.mu.Lock()
	vHook.active[method]++
	vHook.mu.Unlock()
}

func verifExit(method string, root string) {
	vHook.mu.Lock()
	vHook.active[method]--
	vHook.mu.Unlock()
}

// vHookActive reports how many calls of the method are in progress.
func vHookActive(method string) int {
	vHook.mu.Lock()
	defer vHook.mu.Unlock()
	return vHook.active[method]
}

var vErrInjected = errors.New("verif: injected write error")

func vHookReset() {
	vHook.mu.Lock()
	defer vHook.mu.Unlock()
	vHook.sched = nil
	vHook.seen = map[string]int{}
	vHook.order = nil
	vHook.killLabel, vHook.killN, vHook.killFile = "", 0, ""
	vHook.cancelLabel, vHook.cancelN, vHook.cancelFn = "", 0, nil
	vHook.errLabel = ""
}

func verifPoint(label string, root string) {
	verifPointErr(nil, label, root)
}

// verifPointCtx: a point inside a method that has the request's context (Compare, WriteBlock, ...); the
// context identifies the request when two of them run concurrently (vScheduler.byCtx).
func verifPointCtx(ctx context.Context, label string, root string) {
	verifPointErr(ctx, label, root)
}

func verifPointErr(ctx context.Context, label string, root string) error {
	h := vHook
	h.mu.Lock()
	h.seen[label]++
	n := h.seen[label]
	if len(h.order) < 4096 {
		h.order = append(h.order, label+"@"+root)
	}
	sched := h.sched
	kill := h.killLabel == label && h.killN == n
	cancel := h.cancelLabel == label && h.cancelN == n
	cancelFn := h.cancelFn
	inject := h.errLabel == label
	killFile := h.killFile
	h.mu.Unlock()
	if killFile != "" {
		if f, err := os.OpenFile(killFile, os.O_WRONLY|os.O_CREATE|os.O_APPEND, 0644); err == nil {
			fmt.Fprintf(f, "%s %d\n", label, n)
			f.Close()
		}
	}
	if kill {
		syscall.Kill(os.Getpid(), syscall.SIGKILL)
		select {} // never continue past a kill point
	}
	if cancel && cancelFn != nil {
		cancelFn()
	}
	if sched != nil {
		sched.arrive(ctx, label, root)
	}
	if inject {
		return vErrInjected
	}
	return nil
}

type vChunkWriter struct {
	ctx    context.Context
	method string
	root   string
	w      io.Writer
	k      int
}

func (c *vChunkWriter) Write(p []byte) (int, error) {
	c.k++
	if err := verifPointErr(c.ctx, fmt.Sprintf("%s.Write#%d", c.method, c.k), c.root); err != nil {
		return 0, err
	}
	return c.w.Write(p)
}

func verifWriter(method string, root string, w io.Writer) io.Writer {
	return &vChunkWriter{method: method, root: root, w: w}
}

func verifWriterCtx(ctx context.Context, method string, root string, w io.Writer) io.Writer {
	return &vChunkWriter{ctx: ctx, method: method, root: root, w: w}
}

// ---------------------------------------------------------------------------------------------
// Scheduler: turn-based control of a few actors.
//
// An actor is identified by the method prefix of the labels its goroutines reach (the PUT handler
// and the WriteBlock goroutine started by putWithPipe are one actor).  Labels of helper methods
// (lockfile.Flock, lock.Lock, stat.Stat, ...) and labels outside `alphabet` pass through: the call
// site in the operation has its own label.

type vParked struct {
	label string
	vol   int
	ch    chan struct{}
}

type vScheduler struct {
	mu       sync.Mutex
	actorOf  map[string]string // method prefix -> actor
	alphabet map[string]bool   // labels that park (nil = every label of a known prefix)
	vols     map[string]int    // root -> volume number
	parked   map[string]*vParked
	done     map[string]bool
	free     map[string]bool // actor released for good
	wake     chan struct{}   // signalled on every park / done
	executed []string        // "actor:label@vol" in release order
	unknown  map[string]bool // labels of known prefixes outside the alphabet (drift information)
	byCtx    bool            // two requests of one kind: the n-th distinct request context seen is actor <name><n>
	ctxs     []context.Context
}

func vNewScheduler(actorOf map[string]string, alphabet map[string]bool, vols map[string]int) *vScheduler {
	return &vScheduler{actorOf: actorOf, alphabet: alphabet, vols: vols, parked: map[string]*vParked{},
		done: map[string]bool{}, free: map[string]bool{}, wake: make(chan struct{}, 64), unknown: map[string]bool{}}
}

func (s *vScheduler) signal() {
	select {
	case s.wake <- struct{}{}:
	default:
	}
}

func (s *vScheduler) arrive(ctx context.Context, label, root string) {
	i := strings.Index(label, ".")
	if i < 0 {
		return
	}
	s.mu.Lock()
	actor, ok := s.actorOf[label[:i]]
	if ok && s.byCtx && ctx != nil {
		n := -1
		for k, c := range s.ctxs {
			if c == ctx {
				n = k
			}
		}
		if n < 0 {
			s.ctxs = append(s.ctxs, ctx)
			n = len(s.ctxs) - 1
		}
		actor = fmt.Sprintf("%s%d", actor, n+1)
	}
	if !ok || s.free[actor] {
		s.mu.Unlock()
		return
	}
	if s.alphabet != nil && !s.alphabet[label] {
		s.unknown[label] = true
		s.mu.Unlock()
		return
	}
	if s.parked[actor] != nil {
		// a second goroutine of the same actor: do not control it
		s.mu.Unlock()
		return
	}
	p := &vParked{label: label, vol: s.vols[root], ch: make(chan struct{})}
	s.parked[actor] = p
	s.mu.Unlock()
	s.signal()
	<-p.ch
}

func (s *vScheduler) actorDone(actor string) {
	s.mu.Lock()
	s.done[actor] = true
	s.mu.Unlock()
	s.signal()
}

// where reports the label the actor is parked at, or "done", or "" (running / blocked).
func (s *vScheduler) where(actor string) (string, int) {
	s.mu.Lock()
	defer s.mu.Unlock()
	if p := s.parked[actor]; p != nil {
		return p.label, p.vol
	}
	if s.done[actor] {
		return "done", 0
	}
	return "", 0
}

// await waits until the actor is parked or done; "" after the deadline (blocked in the kernel or
// on a mutex held by another actor).
func (s *vScheduler) await(actor string, d time.Duration) (string, int) {
	deadline := time.Now().Add(d)
	for {
		if l, v := s.where(actor); l != "" {
			return l, v
		}
		left := time.Until(deadline)
		if left <= 0 {
			return "", 0
		}
		select {
		case <-s.wake:
		case <-time.After(left):
		}
	}
}

// release lets a parked actor run its next turn; false if it is not parked.
func (s *vScheduler) release(actor string) bool {
	s.mu.Lock()
	p := s.parked[actor]
	if p == nil {
		s.mu.Unlock()
		return false
	}
	s.parked[actor] = nil
	s.executed = append(s.executed, fmt.Sprintf("%s:%s@%d", actor, p.label, p.vol))
	s.mu.Unlock()
	close(p.ch)
	return true
}

// freeAll ends control: every actor runs to completion.
func (s *vScheduler) freeAll() {
	s.mu.Lock()
	var ps []*vParked
	for a := range s.actorOf {
		_ = a
	}
	names := map[string]bool{}
	for _, a := range s.actorOf {
		names[a] = true
		for k := 1; k <= 4; k++ {
			names[fmt.Sprintf("%s%d", a, k)] = true
		}
	}
	for a := range names {
		s.free[a] = true
		if p := s.parked[a]; p != nil {
			s.executed = append(s.executed, fmt.Sprintf("%s:%s@%d", a, p.label, p.vol))
			ps = append(ps, p)
			s.parked[a] = nil
		}
	}
	s.mu.Unlock()
	for _, p := range ps {
		close(p.ch)
	}
}
