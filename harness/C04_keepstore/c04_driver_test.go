//go:build verif

// RUN stage of C04 (DESIGN.md section 6, C04).  Drives the REAL keepstore handlers
// (PUT / TOUCH / DELETE / PUT /trash / PUT /untrash / GET through the router built by handler.setup,
// EmptyTrash the way keepstore.go's emptyTrash calls it) on Directory volumes in temp dirs, and
// records the abstract trace judged by specs/keepstore/KeepstoreGCTrace.tla.  Decides nothing.
//
// Two kinds of scenario (one per line of $VERIF_SCENARIOS):
//
//   schedule (from KeepVolume.tla, Gen configurations)
//     n, ro, ser, life, trash        configuration
//     pre[v], pretr[v]               initial copy / trashed copy per volume
//     wk, tk, xk                     the concurrent requests: w in {put,touch,pull,pull_any}, t in {delete,
//                                    list_eq, list_stale}, x in {untrash, empty, index}
//     rv                             the volume whose timestamp a trash-list item names
//     steps [{a,l,v}..]              the TLC behaviour: whose turn it is (a in w,t,x,tick), at which
//                                    yield-point label l the actor stands, on which volume v
//                                    (for a tick: v = number of units)
//     A turn = the actor runs from its label to its next label (hooks.go).  Labels come from the
//     instrumenter; only the ORDER OF TURNS is imposed, a label that differs from the model's is
//     recorded ("mism") and the turn is taken anyway.
//
//   random ("mode":"random", rseed, len, n)
//     a seeded sequential history of put/touch/get/delete/trashlist/untrash/empty/tick with a scan
//     after every operation.
//
// Concretisation (trusted base): time unit = 1 h, TTL = ttl h, lifetime = life h; "old" = TTL+1
// units, "young" = TTL-1 units; corrupt = same length, different bytes; virtual time by shifting
// stored timestamps (vks_common_test.go).

package main

import (
	"bytes"
	"encoding/json"
	"fmt"
	"io"
	"io/ioutil"
	"math/rand"
	"net/http"
	"net/http/httptest"
	"os"
	"path/filepath"
	"runtime/debug"
	"strings"
	"testing"
	"time"

	"git.arvados.org/arvados.git/sdk/go/ctxlog"
	"git.arvados.org/arvados.git/sdk/go/keepclient"
)

type vC04Step struct {
	A string `json:"a"`
	L string `json:"l"`
	V int    `json:"v"`
}

type vC04Scn struct {
	ID    int        `json:"id"`
	N     int        `json:"n"`
	RO    []bool     `json:"ro"`
	Ser   bool       `json:"ser"`
	Life  int        `json:"life"`
	Trash bool       `json:"trash"`
	WK    string     `json:"wk"`
	TK    string     `json:"tk"`
	XK    string     `json:"xk"`
	Pre   []string   `json:"pre"`
	Pretr []string   `json:"pretr"`
	RV    int        `json:"rv"`
	Steps []vC04Step `json:"steps"`
	Mode  string     `json:"mode"`
	RSeed int64      `json:"rseed"`
	Len   int        `json:"len"`
	Fixed string     `json:"fixed"` // mode random: a fixed history instead of a drawn one
}

const vC04TTL = 2

var vC04Block = []byte("verif C04 block: the quick brown fox jumps over the lazy dog\n")
var vC04Hash = vksHash(vC04Block)

func vC04Corrupt() []byte {
	b := append([]byte(nil), vC04Block...)
	b[7] ^= 0x20
	return b
}

type vC04Run struct {
	srv    *vksServer
	events []map[string]interface{}
	orig   []int64 // virtual timestamp (ns) of the copy placed on each volume (0 = none)
}

func (r *vC04Run) log(ev map[string]interface{}) { r.events = append(r.events, ev) }

func (r *vC04Run) scanEv(kind string) map[string]interface{} {
	return map[string]interface{}{"ev": kind, "vols": r.srv.scan(vC04Hash)}
}

// perform one request synchronously; returns the HTTP status (200 for non-HTTP operations).
func (r *vC04Run) perform(op string, mount int, reqNs int64) int {
	s := r.srv
	switch op {
	case "put":
		return s.do("PUT", "/"+vC04Hash, vC04Block, vksSysToken).Code
	case "touch":
		return s.do("TOUCH", "/"+vC04Hash, nil, vksSysToken).Code
	case "get":
		return s.do("GET", "/"+vC04Hash, nil, vksSysToken).Code
	case "delete":
		return s.do("DELETE", "/"+vC04Hash, nil, vksSysToken).Code
	case "untrash":
		return s.do("PUT", "/untrash/"+vC04Hash, nil, vksSysToken).Code
	case "trashlist":
		tr := TrashRequest{Locator: vC04Hash, BlockMtime: reqNs}
		if mount > 0 {
			tr.MountUUID = s.uuids[mount-1]
		}
		body, _ := json.Marshal([]TrashRequest{tr})
		code := s.do("PUT", "/trash", body, vksSysToken).Code
		// the trash worker consumes the list; wait until the queue is drained
		for {
			st := s.h.trashq.Status()
			if st.InProgress == 0 && st.Queued == 0 {
				break
			}
			time.Sleep(200 * time.Microsecond)
		}
		return code
	case "empty":
		for _, mnt := range s.h.volmgr.writables {
			mnt.EmptyTrash()
		}
		return 200
	case "pull":
		// one pull-list item through the router; the pull worker fetches the block with GetContent
		// (a package variable: here it hands out the block without a network) and stores it
		pr := PullRequest{Locator: vC04Hash, Servers: []string{"localhost:9"}}
		if mount > 0 {
			pr.MountUUID = s.uuids[mount-1]
		}
		body, _ := json.Marshal([]PullRequest{pr})
		code := s.do("PUT", "/pull", body, vksSysToken).Code
		for {
			st := s.h.pullq.Status()
			if st.InProgress == 0 && st.Queued == 0 {
				break
			}
			time.Sleep(200 * time.Microsecond)
		}
		return code
	case "index":
		// IndexTo can panic when a directory entry vanishes under it (see KeepVolume.tla, IStep); a real
		// server's net/http recovers that and the client sees a truncated response: do the same
		resp := httptest.NewRecorder()
		func() {
			defer func() {
				if e := recover(); e != nil {
					resp.Code = 599
				}
			}()
			req, _ := http.NewRequest("GET", "/index", nil)
			req.Header.Set("Authorization", "OAuth2 "+vksSysToken)
			s.h.ServeHTTP(resp, req)
		}()
		entries := []string{}
		for _, line := range strings.Split(resp.Body.String(), "\n") {
			if line == "" {
				continue
			}
			cls := "other"
			if f := strings.Fields(line); len(f) == 2 && f[0] == fmt.Sprintf("%s+%d", vC04Hash, len(vC04Block)) {
				cls = "complete" // name H and the size of the block (= the size of the placed corrupt copy)
			}
			entries = append(entries, cls)
		}
		r.log(map[string]interface{}{"ev": "index", "entries": entries})
		return resp.Code
	}
	return 0
}

func (r *vC04Run) populate(scn *vC04Scn) {
	s := r.srv
	for k := 0; k < scn.N; k++ {
		if scn.XK == "index" {
			// the model's IndexTo always finds the block directory of H
			os.MkdirAll(filepath.Dir(s.blockPath(k, vC04Hash)), 0755)
		}
		switch scn.Pre[k] {
		case "intact_old":
			s.place(k, vC04Hash, vC04Block, -(vC04TTL + 1))
		case "intact_young":
			s.place(k, vC04Hash, vC04Block, -(vC04TTL - 1))
		case "corrupt_old":
			s.place(k, vC04Hash, vC04Corrupt(), -(vC04TTL + 1))
		case "corrupt_young":
			s.place(k, vC04Hash, vC04Corrupt(), -(vC04TTL - 1))
		}
		if k < len(scn.Pretr) {
			switch scn.Pretr[k] {
			case "live":
				s.placeTrash(k, vC04Hash, vC04Block, 1, -(vC04TTL + 1))
			case "expired":
				s.placeTrash(k, vC04Hash, vC04Block, -1, -(vC04TTL + 1))
			}
		}
		var vns int64
		if fi, err := os.Stat(s.blockPath(k, vC04Hash)); err == nil {
			vns = fi.ModTime().UnixNano() + int64(s.shift)
		} else {
			vns = s.base.Add(-time.Duration(vC04TTL+1) * vksUnit).UnixNano()
		}
		r.orig = append(r.orig, vns)
	}
}

func (r *vC04Run) resetEv(scn *vC04Scn) map[string]interface{} {
	ro := make([]bool, scn.N)
	copy(ro, scn.RO)
	return map[string]interface{}{"ev": "reset", "scn": scn.ID, "n": scn.N, "ro": ro, "trash": scn.Trash,
		"life": scn.Life, "ttl": vC04TTL, "vols": r.srv.scan(vC04Hash), "mode": scn.Mode}
}

// requestStamp: the real BlockMtime a trash-list item names: the stored mtime of the copy on
// volume rv (eq) or one nanosecond less (stale).  Also returns the token the contract compares.
func (r *vC04Run) requestStamp(rv int, stale bool) (int64, string) {
	fi, err := os.Stat(r.srv.blockPath(rv-1, vC04Hash))
	var ns int64
	if err == nil {
		ns = fi.ModTime().UnixNano()
	} else {
		ns = r.srv.base.Add(-time.Duration(vC04TTL+1)*vksUnit - r.srv.shift).UnixNano()
	}
	if stale {
		ns--
	}
	return ns, r.srv.mtimeToken(ns)
}

var vC04Prefixes = map[string]string{"Compare": "w", "Touch": "w", "WriteBlock": "w", "Trash": "t", "Mtime": "t",
	"Untrash": "x", "EmptyTrash": "x", "IndexTo": "x"}

// an actor that neither parks nor finishes within this time is taken to be blocked (flock / mutex held by
// another actor); in the unchanged code the model never schedules a blocked actor, so this only
// matters for modified code
const vC04BlockedAfter = 1500 * time.Millisecond
const vC04StartWait = 20 * time.Second

func (r *vC04Run) runSchedule(scn *vC04Scn, alphabet map[string]bool) {
	s := r.srv
	sched := vNewScheduler(vC04Prefixes, alphabet, s.volIndex())
	vHook.mu.Lock()
	vHook.sched = sched
	vHook.mu.Unlock()
	defer func() {
		vHook.mu.Lock()
		vHook.sched = nil
		vHook.mu.Unlock()
	}()

	type actor struct {
		id      int
		op      string
		started bool
		retd    bool
		status  chan int
		mount   int
	}
	actors := map[string]*actor{}
	order := []string{}
	if scn.WK == "put" || scn.WK == "touch" {
		actors["w"] = &actor{id: 1, op: scn.WK, status: make(chan int, 1)}
		order = append(order, "w")
	} else if scn.WK == "pull" {
		// (a pull-list item without mount_uuid, "pull_any", is never sent: the pull worker would
		// dereference a nil *VolumeMount and take the process down, proposed_fixes/C04-3.diff)
		actors["w"] = &actor{id: 1, op: "pull", status: make(chan int, 1), mount: scn.RV}
		order = append(order, "w")
	}
	if scn.TK != "" && scn.TK != "none" {
		op := "trashlist"
		if scn.TK == "delete" {
			op = "delete"
		}
		actors["t"] = &actor{id: 2, op: op, status: make(chan int, 1)}
		order = append(order, "t")
	}
	if scn.XK == "untrash" || scn.XK == "empty" || scn.XK == "index" {
		actors["x"] = &actor{id: 3, op: scn.XK, status: make(chan int, 1)}
		order = append(order, "x")
	}
	mism, unused, blocked := 0, 0, 0
	stalled := false
	stuck := map[string]bool{}

	noteDone := func(name string) {
		a := actors[name]
		if a.retd {
			return
		}
		select {
		case st := <-a.status:
			a.retd = true
			r.log(map[string]interface{}{"ev": "ret", "id": a.id, "status": st})
		default:
		}
	}
	start := func(name string) {
		a := actors[name]
		a.started = true
		var reqNs int64
		tok := "0"
		if a.op == "trashlist" {
			// the item names the timestamp the copy on volume rv had INITIALLY (as the model's item does),
			// expressed in today's real time: stored timestamps have moved back by the clock shift since
			vns := r.orig[scn.RV-1]
			if scn.TK == "list_stale" {
				vns--
			}
			reqNs, tok = vns-int64(s.shift), fmt.Sprintf("%d", vns)
		}
		r.log(map[string]interface{}{"ev": "call", "id": a.id, "op": a.op, "mount": a.mount, "req": tok})
		go func() {
			st := r.perform(a.op, a.mount, reqNs)
			a.status <- st
			sched.actorDone(name)
		}()
		if l, _ := sched.await(name, vC04StartWait); l == "done" {
			noteDone(name)
		} else if l == "" {
			blocked++
		}
	}
	turn := func(name string, want string) {
		a := actors[name]
		if a == nil {
			unused++
			return
		}
		if !a.started {
			if want != "start" {
				mism++
			}
			start(name)
			return
		}
		// an actor found blocked stays blocked until the holder moves: do not wait long for it again
		wait := vC04BlockedAfter
		if stuck[name] {
			wait = 20 * time.Millisecond
		}
		l, _ := sched.await(name, wait)
		switch l {
		case "done":
			stuck[name] = false
			noteDone(name)
			unused++
			return
		case "":
			stuck[name] = true
			blocked++
			return
		}
		stuck[name] = false
		if l != want {
			mism++
		}
		sched.release(name)
		if l2, _ := sched.await(name, vC04BlockedAfter); l2 == "done" {
			noteDone(name)
		} else if l2 == "" {
			stuck[name] = true
			blocked++
		}
	}

	for _, st := range scn.Steps {
		if st.A == "tick" {
			// the clock is moved by rewriting stored timestamps: no actor may be running meanwhile.
			// (An actor taken for blocked only because the machine stalled is waited for here; one that
			// really sits in flock - modified code, lock probes - does not touch timestamps.)
			for _, name := range order {
				if a := actors[name]; a.started && !a.retd {
					if l, _ := sched.await(name, 5*time.Second); l == "done" {
						noteDone(name)
					} else if l == "" {
						stalled = true
					}
				}
			}
			if stalled {
				// somebody is still running (machine stall, or blocked in modified code): rewriting timestamps
				// now could overwrite what it writes.  The rest of the schedule is dropped and the trace is not
				// judged (checks/C04.py counts it; too many = infrastructure error).
				break
			}
			s.tick(st.V)
			r.log(map[string]interface{}{"ev": "tick", "d": st.V})
			continue
		}
		turn(st.A, st.L)
	}
	// drain: whatever is left runs one actor at a time, in a fixed order
	for _, name := range order {
		if !actors[name].started {
			start(name)
		}
	}
	hang := false
	for round := 0; round < 10000; round++ {
		alldone, progress := true, false
		for _, name := range order {
			a := actors[name]
			noteDone(name)
			if a.retd {
				continue
			}
			alldone = false
			l, _ := sched.await(name, vC04BlockedAfter)
			if l == "done" {
				noteDone(name)
				progress = true
			} else if l != "" {
				sched.release(name)
				sched.await(name, vC04BlockedAfter)
				progress = true
			}
		}
		if alldone {
			break
		}
		if !progress {
			// nobody is parked and somebody is not finished: let everything run and wait
			sched.freeAll()
			deadline := time.Now().Add(60 * time.Second)
			for _, name := range order {
				a := actors[name]
				for !a.retd && time.Now().Before(deadline) {
					sched.await(name, 50*time.Millisecond)
					noteDone(name)
				}
				if !a.retd {
					hang = true
				}
			}
			break
		}
	}
	sched.freeAll()
	r.events[0]["order"] = append([]string{}, sched.executed...)
	r.events[0]["mism"] = mism
	r.events[0]["unused"] = unused
	r.events[0]["blocked"] = blocked
	unk := []string{}
	for l := range sched.unknown {
		unk = append(unk, l)
	}
	r.events[0]["unknown"] = unk
	if hang {
		r.events[0]["hang"] = true
	}
	if stalled {
		r.events[0]["stalled"] = true
	}
}

func (r *vC04Run) runRandom(scn *vC04Scn, rnd *rand.Rand) {
	s := r.srv
	ops := []string{"put", "touch", "get", "delete", "trashlist", "trashlist", "untrash", "empty", "tick", "tick", "pull", "index"}
	seq := []string{}
	for i := 0; i < scn.Len; i++ {
		op := ops[rnd.Intn(len(ops))]
		seq = append(seq, op)
		if op == "tick" {
			d := 1 + rnd.Intn(2)
			s.tick(d)
			r.log(map[string]interface{}{"ev": "tick", "d": d})
			continue
		}
		mount, tok := 0, "0"
		var reqNs int64
		if op == "trashlist" {
			if rnd.Intn(3) == 0 {
				mount = 1 + rnd.Intn(scn.N)
			}
			rv := 1 + rnd.Intn(scn.N)
			if mount > 0 && rnd.Intn(4) > 0 {
				rv = mount
			}
			reqNs, tok = r.requestStamp(rv, rnd.Intn(4) == 0)
		}
		if op == "pull" {
			// always with a mount: an item without mount_uuid makes the pull worker dereference a nil
			// *VolumeMount (typed nil in a Volume interface) and the process dies
			for m := 1; m <= scn.N && mount == 0; m++ {
				if k := (m + i) % scn.N; !scn.RO[k] {
					mount = k + 1
				}
			}
			if mount == 0 {
				continue
			}
		}
		r.log(map[string]interface{}{"ev": "call", "id": 1, "op": op, "mount": mount, "req": tok})
		st := r.perform(op, mount, reqNs)
		r.log(map[string]interface{}{"ev": "ret", "id": 1, "status": st})
		r.log(r.scanEv("scan"))
	}
	r.events[0]["ops"] = seq
}

func TestVerifC04(t *testing.T) {
	// every handler request takes a 64 MiB buffer from a sync.Pool that each GC empties: collect rarely
	defer debug.SetGCPercent(debug.SetGCPercent(1000))
	ctxlog.SetLevel("panic")
	defer func(orig func(string, *keepclient.KeepClient) (io.ReadCloser, int64, string, error)) {
		GetContent = orig
	}(GetContent)
	GetContent = func(string, *keepclient.KeepClient) (io.ReadCloser, int64, string, error) {
		return ioutil.NopCloser(bytes.NewReader(vC04Block)), int64(len(vC04Block)), "", nil
	}
	var scns []*vC04Scn
	vReadNDJSON(os.Getenv("VERIF_SCENARIOS"), func() interface{} {
		s := &vC04Scn{}
		scns = append(scns, s)
		return s
	})
	tw := vNewTraceWriter(os.Getenv("VERIF_TRACES"))
	defer tw.Close()
	var alphabet map[string]bool
	if a := os.Getenv("VERIF_C04_ALPHABET"); a != "" {
		alphabet = map[string]bool{}
		for _, l := range strings.Split(a, ",") {
			alphabet[l] = true
		}
	}
	parent, err := ioutil.TempDir(os.Getenv("VERIF_SCRATCH"), "c04-")
	if err != nil {
		t.Fatal(err)
	}
	defer os.RemoveAll(parent)
	t0 := time.Now()
	for _, scn := range scns {
		vHookReset()
		if scn.Mode == "random" {
			rnd := rand.New(rand.NewSource(scn.RSeed))
			scn.N = 1 + rnd.Intn(2)
			scn.RO = make([]bool, scn.N)
			if scn.N == 2 && rnd.Intn(3) == 0 {
				scn.RO[rnd.Intn(2)] = true
			}
			scn.Ser = rnd.Intn(2) == 0
			scn.Life = []int{0, 1, 2, 2}[rnd.Intn(4)]
			scn.Trash = rnd.Intn(8) != 0
			pres := []string{"none", "intact_old", "intact_young", "corrupt_old", "corrupt_young"}
			pretrs := []string{"none", "none", "live", "expired"}
			scn.Pre, scn.Pretr = make([]string, scn.N), make([]string, scn.N)
			for k := 0; k < scn.N; k++ {
				scn.Pre[k] = pres[rnd.Intn(len(pres))]
				scn.Pretr[k] = pretrs[rnd.Intn(len(pretrs))]
			}
			if scn.Fixed == "rolist" {
				// "only on writable volumes": a trash-list item that names a READ-ONLY mount and the right
				// timestamp of an old copy there (both ways of being read-only, see vksStart)
				scn.N, scn.Ser, scn.Trash = 2, false, true
				scn.RO = []bool{scn.RSeed%2 == 0, scn.RSeed%2 == 1}
				scn.Life = []int{0, 2}[(scn.RSeed/2)%2]
				scn.Pre = []string{"intact_old", "intact_old"}
				scn.Pretr = []string{"none", "none"}
			}
			r := &vC04Run{srv: vksGet(t, parent, vksConf{N: scn.N, RO: scn.RO, Ser: scn.Ser, Life: scn.Life, TTL: vC04TTL, Trash: scn.Trash})}
			r.populate(scn)
			r.log(r.resetEv(scn))
			r.events[0]["pre"] = scn.Pre
			r.events[0]["pretr"] = scn.Pretr
			if scn.Fixed == "rolist" {
				rov := 1
				if scn.RO[1] {
					rov = 2
				}
				reqNs, tok := r.requestStamp(rov, false)
				r.log(map[string]interface{}{"ev": "call", "id": 1, "op": "trashlist", "mount": rov, "req": tok})
				st := r.perform("trashlist", rov, reqNs)
				r.log(map[string]interface{}{"ev": "ret", "id": 1, "status": st})
				r.log(r.scanEv("scan"))
				r.events[0]["ops"] = []string{"trashlist"}
				r.finish(tw)
				continue
			}
			r.runRandom(scn, rnd)
			r.finish(tw)
			continue
		}
		for len(scn.RO) < scn.N {
			scn.RO = append(scn.RO, false)
		}
		r := &vC04Run{srv: vksGet(t, parent, vksConf{N: scn.N, RO: scn.RO, Ser: scn.Ser, Life: scn.Life, TTL: vC04TTL, Trash: scn.Trash})}
		r.populate(scn)
		r.log(r.resetEv(scn))
		r.runSchedule(scn, alphabet)
		r.log(r.scanEv("scan"))
		r.finish(tw)
	}
	vksStopAll()
	vHookReset()
	fmt.Printf("VERIF-C04 scenarios=%d wall=%.1fs\n", len(scns), time.Since(t0).Seconds())
	fmt.Println("VERIF-DRIVER-DONE")
}

func (r *vC04Run) finish(tw *vTraceWriter) {
	r.events[0]["elapsed_ms"] = int(time.Since(r.srv.base) / time.Millisecond)
	for _, ev := range r.events {
		tw.Write(ev)
	}
}
