//go:build verif

// RUN stage of C18 (DESIGN.md section 6, C18): drives the real Conn.CollectionGet
// (tryLocalThenRemotes, PDH check in the callback, rewriteManifest) against gated stub backends and
// records the abstract trace judged by specs/federation/FedFetchTrace.tla.
//
// The driver decides nothing.  Scenario fields (FedFetch.tla's Gen configuration, or random ones
// made by checks/C18.py in the same format):
//   n, mode (pdh|uuid), home          number of remotes, kind of request, uuid mode: home backend
//   plan [5]                          what backend 0 (local), 1..n would answer:
//                                     match | mismatch | s404 | s5xx | hang
//   steps [{b,k}]                     order in which outstanding calls are answered;
//                                     {b:-1,k:"cancel"} = the client cancels its request
//   req  exact|hexoff|len|hints       how the requested hash relates to the honest manifest's
//   rseed                             concretisation seed (manifest, signatures, tampering)
//   craft loc_eol                     every collection sent is one specific malformed manifest (regression for KF-C18-1)
//
// Abstraction (trusted base, kept small):
//   vC18PDH   independent portable data hash: line/field tokenizer, hints of block locators dropped
//   vC18Rel   token-wise "only +A<sig> became +R<id>-<sig>" relation between what a backend sent and
//             what the client got

package federation

import (
	"context"
	"crypto/md5"
	"errors"
	"fmt"
	"io"
	"math/rand"
	"net/http"
	"os"
	"strings"
	"sync"
	"testing"
	"time"

	"git.arvados.org/arvados.git/sdk/go/arvados"
	"git.arvados.org/arvados.git/sdk/go/arvadostest"
	"git.arvados.org/arvados.git/sdk/go/ctxlog"
	"git.arvados.org/arvados.git/sdk/go/httpserver"
)

type vC18Step struct {
	B int    `json:"b"`
	K string `json:"k"`
}

type vC18Scenario struct {
	ID    int        `json:"id"`
	N     int        `json:"n"`
	Mode  string     `json:"mode"`
	Home  int        `json:"home"`
	Plan  []string   `json:"plan"`
	Steps []vC18Step `json:"steps"`
	Req   string     `json:"req"`
	Craft string     `json:"craft"`
	RSeed int64      `json:"rseed"`
}

// ---------------------------------------------------------------- manifest concretiser

func vC18Hex(rng *rand.Rand, n int) string {
	const d = "0123456789abcdef"
	b := make([]byte, n)
	for i := range b {
		b[i] = d[rng.Intn(16)]
	}
	return string(b)
}

type vC18Block struct {
	hash string
	size int
}

// an honest manifest as a list of lines of tokens, block locators without hints
type vC18Manifest struct {
	streams []string
	blocks  [][]vC18Block
	files   [][]string
}

var vC18Names = []string{"foo", "bar.txt", `a\040b`, "x+Ay@z", "d41d8cd98f00b204e9800998ecf8427e+0", "+A", `dir/sub/f\134g`, "0:0:f", "R+K"}
var vC18Streams = []string{".", "./d", "./d+Ax@1", `./a\040b/c`, "./acbd18db4cc2f85cedef654fccc4a4d8+3"}

func vC18GenManifest(rng *rand.Rand) vC18Manifest {
	var m vC18Manifest
	ns := 1 + rng.Intn(3)
	for s := 0; s < ns; s++ {
		name := vC18Streams[rng.Intn(len(vC18Streams))]
		if s == 0 && rng.Intn(2) == 0 {
			name = "."
		}
		m.streams = append(m.streams, name)
		nb := 1 + rng.Intn(3)
		var bl []vC18Block
		total := 0
		for i := 0; i < nb; i++ {
			sz := []int{0, 1, 3, 10, 67108864}[rng.Intn(5)]
			h := vC18Hex(rng, 32)
			if sz == 0 {
				h = "d41d8cd98f00b204e9800998ecf8427e"
			}
			bl = append(bl, vC18Block{h, sz})
			total += sz
		}
		m.blocks = append(m.blocks, bl)
		nf := 1 + rng.Intn(3)
		var fl []string
		for i := 0; i < nf; i++ {
			pos := 0
			if total > 0 {
				pos = rng.Intn(total)
			}
			ln := 0
			if total-pos > 0 {
				ln = rng.Intn(total - pos + 1)
			}
			fl = append(fl, fmt.Sprintf("%d:%d:%s", pos, ln, vC18Names[rng.Intn(len(vC18Names))]))
		}
		m.files = append(m.files, fl)
	}
	return m
}

// text of the manifest as backend `who` would send it: its own signatures and other hints
func (m vC18Manifest) render(rng *rand.Rand, who int) string {
	var sb strings.Builder
	for s := range m.streams {
		sb.WriteString(m.streams[s])
		for _, b := range m.blocks[s] {
			loc := fmt.Sprintf("%s+%d", b.hash, b.size)
			sig := fmt.Sprintf("+A%s@%08x", vC18Hex(rng, 40), 0x60000000+rng.Intn(1<<20)+who)
			switch rng.Intn(7) {
			case 0: // unsigned
			case 1:
				loc += sig
			case 2:
				loc += "+Kzzzzz" + sig
			case 3:
				loc += sig + "+Bfoo-bar"
			case 4:
				loc += "+Kzzzzz" // other hint only
			case 5:
				loc += "+Rzzzzz-" + vC18Hex(rng, 40) + "@5f000000" + sig // already carries a remote hint
			default:
				loc += sig + "+C1@2" + fmt.Sprintf("+A%s@%08x", vC18Hex(rng, 40), 0x61000000+who)
			}
			sb.WriteString(" " + loc)
		}
		for _, f := range m.files[s] {
			sb.WriteString(" " + f)
		}
		sb.WriteString("\n")
	}
	return sb.String()
}

// one single-token tampering of a manifest text
func vC18Tamper(rng *rand.Rand, mt string) string {
	lines := strings.Split(strings.TrimSuffix(mt, "\n"), "\n")
	li := rng.Intn(len(lines))
	toks := strings.Split(lines[li], " ")
	ti := rng.Intn(len(toks))
	t := toks[ti]
	flip := func(c byte) byte {
		switch {
		case c == '9':
			return '0'
		case c == 'f':
			return 'a'
		case c == 'z':
			return 'y'
		default:
			return c + 1
		}
	}
	trailing := "\n"
	switch rng.Intn(8) {
	case 0, 1, 2: // alter one character of the token
		if len(t) > 0 {
			i := rng.Intn(len(t))
			c := t[i]
			if (c >= '0' && c <= '9') || (c >= 'a' && c <= 'z') {
				t = t[:i] + string(flip(c)) + t[i+1:]
			} else if vC18IsHex32(t) {
				// a block locator: its separators are left alone ("hash+size" directly followed by
				// junk is read as a hint by the Go definition of the portable data hash and as
				// part of the size by others; the statement does not say which) - alter the hash
				j := rng.Intn(32)
				t = t[:j] + string(flip(t[j])) + t[j+1:]
			} else {
				t = t[:i] + "x" + t[i+1:]
			}
		}
		toks[ti] = t
	case 3: // drop the token
		toks = append(toks[:ti:ti], toks[ti+1:]...)
	case 4: // repeat the token
		toks = append(toks[:ti+1:ti+1], toks[ti:]...)
	case 5: // swap with a neighbour
		if ti+1 < len(toks) {
			toks[ti], toks[ti+1] = toks[ti+1], toks[ti]
		} else if ti > 0 {
			toks[ti], toks[ti-1] = toks[ti-1], toks[ti]
		}
	case 6: // extra token
		toks = append(toks, "0:0:extra")
	default: // whitespace
		if rng.Intn(2) == 0 {
			trailing = ""
		} else {
			toks[ti] = t + " "
		}
	}
	lines[li] = strings.Join(toks, " ")
	return strings.Join(lines, "\n") + trailing
}

// ---------------------------------------------------------------- abstraction functions

func vC18IsHex32(s string) bool {
	if len(s) < 32 {
		return false
	}
	for i := 0; i < 32; i++ {
		c := s[i]
		if !((c >= '0' && c <= '9') || (c >= 'a' && c <= 'f')) {
			return false
		}
	}
	return true
}

// independent portable data hash (manifest format: md5 and length of the text with every block
// locator reduced to hash+size)
func vC18PDH(mt string) string {
	lines := strings.Split(mt, "\n")
	for i, line := range lines {
		toks := strings.Split(line, " ")
		for j := 1; j < len(toks); j++ {
			t := toks[j]
			if !vC18IsHex32(t) || len(t) < 34 || t[32] != '+' {
				continue
			}
			parts := strings.Split(t, "+")
			digits := parts[1] != ""
			for _, c := range parts[1] {
				if c < '0' || c > '9' {
					digits = false
				}
			}
			if digits {
				toks[j] = parts[0] + "+" + parts[1]
			}
		}
		lines[i] = strings.Join(toks, " ")
	}
	stripped := strings.Join(lines, "\n")
	return fmt.Sprintf("%x+%d", md5.Sum([]byte(stripped)), len(stripped))
}

// hash+size part of a requested portable data hash
func vC18HashSize(req string) string {
	parts := strings.Split(req, "+")
	if len(parts) < 2 {
		return req
	}
	return parts[0] + "+" + parts[1]
}

// got is sent with each +A hint of a block locator turned into +R<id>-, nothing else changed
func vC18Rel(sent, got, id string, remote bool) bool {
	if !remote {
		return sent == got
	}
	sl, gl := strings.Split(sent, "\n"), strings.Split(got, "\n")
	if len(sl) != len(gl) {
		return false
	}
	for i := range sl {
		st, gt := strings.Split(sl[i], " "), strings.Split(gl[i], " ")
		if len(st) != len(gt) {
			return false
		}
		for j := range st {
			want := st[j]
			if j >= 1 && vC18IsHex32(want) && len(want) > 32 && want[32] == '+' {
				parts := strings.Split(want, "+")
				for k := 1; k < len(parts); k++ {
					if strings.HasPrefix(parts[k], "A") {
						parts[k] = "R" + id + "-" + parts[k][1:]
					}
				}
				want = strings.Join(parts, "+")
			}
			if gt[j] != want {
				return false
			}
		}
	}
	return true
}

// input class of the manifests sent (for known-finding matching): a block locator is the last token
// of a line and the stream name on the next line contains "+A" (malformed: no file token follows)
func vC18Shape(sent map[int]string) string {
	for _, mt := range sent {
		lines := strings.Split(mt, "\n")
		for i := 0; i+1 < len(lines); i++ {
			toks := strings.Split(lines[i], " ")
			last := toks[len(toks)-1]
			next := strings.Split(lines[i+1], " ")[0]
			if len(toks) > 1 && vC18IsHex32(last) && len(last) > 32 && last[32] == '+' && strings.Contains(next, "+A") {
				return "loc_eol_plusA_stream"
			}
		}
	}
	return "plain"
}

// ---------------------------------------------------------------- gated stub backends

type vC18Answer struct {
	kind     string // abstract kind, as logged
	status   int    // 0 = a collection
	manifest string
}

type vC18Arrival struct {
	b       int
	release chan vC18Answer
}

type vC18Gate struct {
	mu       sync.Mutex
	closed   bool
	events   []map[string]interface{}
	arrivals chan *vC18Arrival
	sent     map[int]string
}

func (g *vC18Gate) log(ev map[string]interface{}) {
	g.mu.Lock()
	defer g.mu.Unlock()
	if !g.closed {
		g.events = append(g.events, ev)
	}
}

type vC18Backend struct {
	arvadostest.APIStub
	g *vC18Gate
	b int
}

func (be *vC18Backend) CollectionGet(ctx context.Context, opts arvados.GetOptions) (arvados.Collection, error) {
	g := be.g
	g.log(map[string]interface{}{"ev": "ask", "b": be.b})
	a := &vC18Arrival{b: be.b, release: make(chan vC18Answer, 1)}
	g.arrivals <- a
	select {
	case ans := <-a.release:
		g.mu.Lock()
		if !g.closed {
			g.events = append(g.events, map[string]interface{}{"ev": "answer", "b": be.b, "k": ans.kind})
			if ans.status == 0 {
				g.sent[be.b] = ans.manifest
			}
		}
		g.mu.Unlock()
		if ans.status != 0 {
			return arvados.Collection{}, httpserver.ErrorWithStatus(errors.New("verif: scripted error"), ans.status)
		}
		return arvados.Collection{UUID: "zzzzz-4zz18-000000000000000", ManifestText: ans.manifest,
			PortableDataHash: arvados.PortableDataHash(ans.manifest)}, nil
	case <-ctx.Done():
		g.log(map[string]interface{}{"ev": "answer", "b": be.b, "k": "cancelled"})
		return arvados.Collection{}, ctx.Err()
	}
}

func vC18Run(scn vC18Scenario) []map[string]interface{} {
	rng := rand.New(rand.NewSource(int64(scn.ID)*104729 + scn.RSeed))
	g := &vC18Gate{arrivals: make(chan *vC18Arrival, 64), sent: map[int]string{}}
	ids := []string{"aaaaa", "bbbbb", "ccccc", "ddddd", "eeeee"}
	cluster := &arvados.Cluster{ClusterID: ids[0], RemoteClusters: map[string]arvados.RemoteCluster{}}
	conn := &Conn{cluster: cluster, local: &vC18Backend{g: g, b: 0}, remotes: map[string]backend{}}
	for b := 1; b <= scn.N; b++ {
		conn.remotes[ids[b]] = &vC18Backend{g: g, b: b}
		cluster.RemoteClusters[ids[b]] = arvados.RemoteCluster{Host: "in-process.local", Proxy: true}
	}
	honest := vC18GenManifest(rng)
	truePDH := vC18PDH(honest.render(rng, 0))
	var request string
	if scn.Mode == "uuid" {
		request = fmt.Sprintf("%s-4zz18-%015d", ids[scn.Home], rng.Intn(1000000))
	} else {
		hash, size := strings.Split(truePDH, "+")[0], strings.Split(truePDH, "+")[1]
		switch scn.Req {
		case "hexoff":
			i := rng.Intn(32)
			c := hash[i]
			if c == 'f' {
				c = '0'
			} else if c == '9' {
				c = 'a'
			} else {
				c++
			}
			request = hash[:i] + string(c) + hash[i+1:] + "+" + size
		case "len":
			switch rng.Intn(4) {
			case 0:
				request = hash + "+" + size + "0"
			case 1:
				request = hash + "+" + size[:len(size)-1]
				if len(size) == 1 {
					request = hash + "+" + size + "1"
				}
			case 2:
				request = hash[:31] + "+" + size
			default:
				request = hash + "0+" + size
			}
		case "hints":
			request = truePDH + []string{"+Kzzzzz", "+A" + vC18Hex(rng, 40) + "@5fffffff", "+K@a+B"}[rng.Intn(3)]
		default:
			request = truePDH
		}
	}
	want := vC18HashSize(request)

	g.events = append(g.events, map[string]interface{}{"ev": "reset", "scn": scn.ID, "n": scn.N, "mode": scn.Mode,
		"home": scn.Home, "req": scn.Req})

	parent, cancelParent := context.WithCancel(ctxlog.Context(context.Background(), ctxlog.New(io.Discard, "text", "error")))
	defer cancelParent()
	done := make(chan struct{})
	go func() {
		defer close(done)
		defer func() {
			if r := recover(); r != nil {
				g.log(map[string]interface{}{"ev": "panic", "what": fmt.Sprint(r)})
			}
		}()
		c, err := conn.CollectionGet(parent, arvados.GetOptions{UUID: request})
		g.mu.Lock()
		rel := make([]bool, 5)
		if err == nil {
			for b, sent := range g.sent {
				rel[b] = vC18Rel(sent, c.ManifestText, ids[b], b != 0)
			}
		}
		g.mu.Unlock()
		g.mu.Lock()
		shape := vC18Shape(g.sent)
		g.mu.Unlock()
		ev := map[string]interface{}{"ev": "done", "ok": err == nil,
			"pdhOK": err == nil && vC18PDH(c.ManifestText) == want, "rel": rel, "shape": shape}
		if os.Getenv("VERIF_C18_DEBUG") != "" {
			// replay aid: the concrete texts
			g.mu.Lock()
			sent := map[string]string{}
			for b, m := range g.sent {
				sent[fmt.Sprint(b)] = m
			}
			g.mu.Unlock()
			ev["dbg_request"], ev["dbg_got"], ev["dbg_sent"] = request, c.ManifestText, sent
		}
		g.log(ev)
	}()

	// the answer backend b gives when released, according to its plan
	answerOf := func(b int) (vC18Answer, bool) {
		plan := "s404"
		if b < len(scn.Plan) {
			plan = scn.Plan[b]
		}
		switch plan {
		case "s404":
			return vC18Answer{kind: "s404", status: http.StatusNotFound}, true
		case "s5xx":
			return vC18Answer{kind: "s5xx", status: []int{500, 502, 503}[rng.Intn(3)]}, true
		case "hang":
			return vC18Answer{}, false
		}
		mt := honest.render(rng, b)
		if plan == "mismatch" {
			mt = vC18Tamper(rng, mt)
		}
		if scn.Craft == "loc_eol" {
			// a token swap that leaves a block locator at the end of a line, before a stream
			// whose name contains "+A"
			mt = fmt.Sprintf(". %s+3+A%s@5fffffff 0:3:foo %s+4+Kzzzzz\n./d+Ax@1 %s+1+A%s@5fffffff 0:1:bar\n",
				vC18Hex(rng, 32), vC18Hex(rng, 40), vC18Hex(rng, 32), vC18Hex(rng, 32), vC18Hex(rng, 40))
		}
		kind := "mismatch"
		if scn.Mode == "uuid" || vC18PDH(mt) == want {
			// a tampering that only touches hints does not change the portable data hash
			kind = "match"
		}
		return vC18Answer{kind: kind, manifest: mt}, true
	}

	pending := map[int]*vC18Arrival{}
	isDone := func() bool {
		select {
		case <-done:
			return true
		default:
			return false
		}
	}
	waitFor := func(b int) bool {
		deadline := time.After(3 * time.Second)
		for pending[b] == nil {
			select {
			case a := <-g.arrivals:
				pending[a.b] = a
			case <-done:
				return false
			case <-deadline:
				return false
			}
		}
		return true
	}
	unused := 0
	for i, st := range scn.Steps {
		if st.K == "cancel" {
			g.log(map[string]interface{}{"ev": "cancel"})
			cancelParent()
			continue
		}
		if st.K == "cancelled" {
			// the hanging backend ends by itself once its context is cancelled (the stub logs it)
			continue
		}
		if !waitFor(st.B) {
			unused = len(scn.Steps) - i
			break
		}
		a := pending[st.B]
		delete(pending, st.B)
		if ans, ok := answerOf(st.B); ok {
			a.release <- ans
		} // a hanging backend answers only when its context is cancelled
	}
	// the scenario is over: whatever is still asked is answered as planned; if only hanging calls
	// are left the client gives up
	for !isDone() {
		select {
		case a := <-g.arrivals:
			if ans, ok := answerOf(a.b); ok {
				a.release <- ans
			}
		case <-done:
		case <-time.After(200 * time.Millisecond):
			g.log(map[string]interface{}{"ev": "cancel"})
			cancelParent()
			select {
			case <-done:
			case <-time.After(20 * time.Second):
				g.log(map[string]interface{}{"ev": "hang"})
				goto finish
			}
		}
	}
finish:
	cancelParent()
	// abandoned calls end through their cancelled contexts; give them a moment so that their
	// (post-return) answers are in the trace, then close it
	time.Sleep(200 * time.Microsecond)
	g.mu.Lock()
	g.closed = true
	evs := g.events
	g.mu.Unlock()
	if unused > 0 {
		evs[0]["unused_steps"] = unused
	}
	return evs
}

func TestVerifC18(t *testing.T) {
	var scns []vC18Scenario
	vReadNDJSON(os.Getenv("VERIF_SCENARIOS"), func() interface{} { scns = append(scns, vC18Scenario{}); return &scns[len(scns)-1] })
	out := vNewTraceWriter(os.Getenv("VERIF_TRACES"))
	defer out.Close()
	const par = 8
	res := make([][]map[string]interface{}, len(scns))
	var wg sync.WaitGroup
	sem := make(chan struct{}, par)
	for i := range scns {
		wg.Add(1)
		sem <- struct{}{}
		go func(i int) {
			defer wg.Done()
			defer func() { <-sem }()
			res[i] = vC18Run(scns[i])
		}(i)
	}
	wg.Wait()
	for _, evs := range res {
		for _, ev := range evs {
			out.Write(ev)
		}
	}
	fmt.Println("VERIF-DRIVER-DONE scenarios:", len(scns))
}
