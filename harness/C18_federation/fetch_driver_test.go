//go:build verif

// RUN stage of C18 (DESIGN.md section 6, C18): drives the real Conn.CollectionGet
// (tryLocalThenRemotes, PDH check in the callback, rewriteManifest) against gated stub backends and
// records the abstract trace judged by specs/federation/FedFetchTrace.tla.
//
// The driver decides nothing.  Scenario fields (FedFetch.tla's Gen configuration, or random ones
// made by checks/C18.py in the same format):
//   n, mode (pdh|uuid), home          number of remotes, kind of request, uuid mode: home backend
//   plan [5]                          what backend 0 (local), 1..n would answer:
//                                     match | mismatch | s404 | s5xx | hang
//   steps [{b,k}]                     order in which outstanding calls are answered;
//                                     {b:-1,k:"cancel"} = the client cancels its request
//   req  exact|hexoff|len|hints       how the requested hash relates to the honest manifest's
//   rseed                             concretisation seed (manifest, signatures, tampering)
//   craft loc_eol                     every collection sent is one specific malformed manifest (regression for KF-C18-1)
//
// Abstraction (trusted base, kept small):
//   vC18PDH   independent portable data hash: line/field tokenizer, hints of block locators dropped
//   vC18Rel   token-wise "only +A<sig> became +R<id>-<sig>" relation between what a backend sent and
//             what the client got

package federation

import (
	"context"
	"errors"
	"fmt"
	"io"
	"math/rand"
	"net/http"
	"os"
	"runtime/debug"
	"strings"
	"sync"
	"testing"
	"time"

	"git.arvados.org/arvados.git/sdk/go/arvados"
	"git.arvados.org/arvados.git/sdk/go/arvadostest"
	"git.arvados.org/arvados.git/sdk/go/ctxlog"
	"git.arvados.org/arvados.git/sdk/go/httpserver"
)

type vC18Step struct {
	B int    `json:"b"`
	K string `json:"k"`
}

type vC18Scenario struct {
	ID    int        `json:"id"`
	N     int        `json:"n"`
	Mode  string     `json:"mode"`
	Home  int        `json:"home"`
	Plan  []string   `json:"plan"`
	Steps []vC18Step `json:"steps"`
	Req   string     `json:"req"`
	Craft string     `json:"craft"`
	MM    string     `json:"mm"` // "empty": a mismatch answer is a collection with an empty manifest text
	RSeed int64      `json:"rseed"`
}

// ---------------------------------------------------------------- gated stub backends

type vC18Answer struct {
	kind     string // abstract kind, as logged
	status   int    // 0 = a collection
	manifest string
}

type vC18Arrival struct {
	b       int
	release chan vC18Answer
}

type vC18Gate struct {
	mu       sync.Mutex
	closed   bool
	events   []map[string]interface{}
	arrivals chan *vC18Arrival
	sent     map[int]string
}

func (g *vC18Gate) log(ev map[string]interface{}) {
	g.mu.Lock()
	defer g.mu.Unlock()
	if !g.closed {
		g.events = append(g.events, ev)
	}
}

type vC18Backend struct {
	arvadostest.APIStub
	g *vC18Gate
	b int
}

func (be *vC18Backend) CollectionGet(ctx context.Context, opts arvados.GetOptions) (arvados.Collection, error) {
	g := be.g
	g.log(map[string]interface{}{"ev": "ask", "b": be.b})
	a := &vC18Arrival{b: be.b, release: make(chan vC18Answer, 1)}
	g.arrivals <- a
	select {
	case ans := <-a.release:
		g.mu.Lock()
		if !g.closed {
			g.events = append(g.events, map[string]interface{}{"ev": "answer", "b": be.b, "k": ans.kind})
			if ans.status == 0 {
				g.sent[be.b] = ans.manifest
			}
		}
		g.mu.Unlock()
		if ans.status != 0 {
			return arvados.Collection{}, httpserver.ErrorWithStatus(errors.New("verif: scripted error"), ans.status)
		}
		return arvados.Collection{UUID: "zzzzz-4zz18-000000000000000", ManifestText: ans.manifest,
			PortableDataHash: arvados.PortableDataHash(ans.manifest)}, nil
	case <-ctx.Done():
		g.log(map[string]interface{}{"ev": "answer", "b": be.b, "k": "cancelled"})
		return arvados.Collection{}, ctx.Err()
	}
}

func vC18Run(scn vC18Scenario) []map[string]interface{} {
	rng := rand.New(rand.NewSource(int64(scn.ID)*104729 + scn.RSeed))
	g := &vC18Gate{arrivals: make(chan *vC18Arrival, 64), sent: map[int]string{}}
	ids := []string{"aaaaa", "bbbbb", "ccccc", "ddddd", "eeeee"}
	cluster := &arvados.Cluster{ClusterID: ids[0], RemoteClusters: map[string]arvados.RemoteCluster{}}
	conn := &Conn{cluster: cluster, local: &vC18Backend{g: g, b: 0}, remotes: map[string]backend{}}
	for b := 1; b <= scn.N; b++ {
		conn.remotes[ids[b]] = &vC18Backend{g: g, b: b}
		cluster.RemoteClusters[ids[b]] = arvados.RemoteCluster{Host: "in-process.local", Proxy: true}
	}
	honest := vC18GenManifest(rng)
	truePDH := vC18PDH(honest.render(rng, 0))
	var request string
	if scn.Mode == "uuid" {
		request = fmt.Sprintf("%s-4zz18-%015d", ids[scn.Home], rng.Intn(1000000))
	} else {
		hash, size := strings.Split(truePDH, "+")[0], strings.Split(truePDH, "+")[1]
		switch scn.Req {
		case "hexoff":
			i := rng.Intn(32)
			c := hash[i]
			if c == 'f' {
				c = '0'
			} else if c == '9' {
				c = 'a'
			} else {
				c++
			}
			request = hash[:i] + string(c) + hash[i+1:] + "+" + size
		case "len":
			switch rng.Intn(4) {
			case 0:
				request = hash + "+" + size + "0"
			case 1:
				request = hash + "+" + size[:len(size)-1]
				if len(size) == 1 {
					request = hash + "+" + size + "1"
				}
			case 2:
				request = hash[:31] + "+" + size
			default:
				request = hash + "0+" + size
			}
		case "hints":
			request = truePDH + []string{"+Kzzzzz", "+A" + vC18Hex(rng, 40) + "@5fffffff", "+K@a+B"}[rng.Intn(3)]
		default:
			request = truePDH
		}
	}
	want := vC18HashSize(request)

	g.events = append(g.events, map[string]interface{}{"ev": "reset", "scn": scn.ID, "n": scn.N, "mode": scn.Mode,
		"home": scn.Home, "req": scn.Req})

	parent, cancelParent := context.WithCancel(ctxlog.Context(context.Background(), ctxlog.New(io.Discard, "text", "error")))
	defer cancelParent()
	done := make(chan struct{})
	go func() {
		defer close(done)
		defer func() {
			if r := recover(); r != nil {
				g.log(map[string]interface{}{"ev": "panic", "what": fmt.Sprint(r), "stack": string(debug.Stack())})
			}
		}()
		c, err := conn.CollectionGet(parent, arvados.GetOptions{UUID: request})
		g.mu.Lock()
		rel := make([]bool, 5)
		if err == nil {
			for b, sent := range g.sent {
				rel[b] = vC18Rel(sent, c.ManifestText, ids[b], b != 0)
			}
		}
		g.mu.Unlock()
		g.mu.Lock()
		shape := vC18Shape(g.sent)
		g.mu.Unlock()
		ev := map[string]interface{}{"ev": "done", "ok": err == nil,
			"pdhOK": err == nil && vC18PDH(c.ManifestText) == want, "rel": rel, "shape": shape}
		if os.Getenv("VERIF_C18_DEBUG") != "" {
			// replay aid: the concrete texts
			g.mu.Lock()
			sent := map[string]string{}
			for b, m := range g.sent {
				sent[fmt.Sprint(b)] = m
			}
			g.mu.Unlock()
			ev["dbg_request"], ev["dbg_got"], ev["dbg_sent"] = request, c.ManifestText, sent
		}
		g.log(ev)
	}()

	// the answer backend b gives when released, according to its plan
	answerOf := func(b int) (vC18Answer, bool) {
		plan := "s404"
		if b < len(scn.Plan) {
			plan = scn.Plan[b]
		}
		switch plan {
		case "s404":
			return vC18Answer{kind: "s404", status: http.StatusNotFound}, true
		case "s5xx":
			return vC18Answer{kind: "s5xx", status: []int{500, 502, 503}[rng.Intn(3)]}, true
		case "hang":
			return vC18Answer{}, false
		}
		mt := honest.render(rng, b)
		if plan == "mismatch" {
			mt = vC18Tamper(rng, mt)
			if scn.MM == "empty" {
				mt = "" // 200 with the manifest stripped
			}
		}
		if scn.Craft == "loc_eol" {
			// a token swap that leaves a block locator at the end of a line, before a stream
			// whose name contains "+A"
			mt = fmt.Sprintf(". %s+3+A%s@5fffffff 0:3:foo %s+4+Kzzzzz\n./d+Ax@1 %s+1+A%s@5fffffff 0:1:bar\n",
				vC18Hex(rng, 32), vC18Hex(rng, 40), vC18Hex(rng, 32), vC18Hex(rng, 32), vC18Hex(rng, 40))
		}
		kind := "mismatch"
		if scn.Mode == "uuid" || vC18PDH(mt) == want {
			// a tampering that only touches hints does not change the portable data hash
			kind = "match"
		}
		return vC18Answer{kind: kind, manifest: mt}, true
	}

	pending := map[int]*vC18Arrival{}
	isDone := func() bool {
		select {
		case <-done:
			return true
		default:
			return false
		}
	}
	waitFor := func(b int) bool {
		deadline := time.After(3 * time.Second)
		for pending[b] == nil {
			select {
			case a := <-g.arrivals:
				pending[a.b] = a
			case <-done:
				return false
			case <-deadline:
				return false
			}
		}
		return true
	}
	// Once the client has cancelled, no further answer is released: the calls still outstanding end
	// through their cancelled contexts (a released answer could race with the cancellation).
	unused := 0
	cancelled := false
	for i, st := range scn.Steps {
		if st.K == "cancel" {
			g.log(map[string]interface{}{"ev": "cancel"})
			cancelled = true
			cancelParent()
			continue
		}
		if st.K == "cancelled" || cancelled {
			// a hanging backend ends by itself once its context is cancelled (the stub logs it)
			continue
		}
		if !waitFor(st.B) {
			unused = len(scn.Steps) - i
			break
		}
		a := pending[st.B]
		delete(pending, st.B)
		if ans, ok := answerOf(st.B); ok {
			a.release <- ans
		} // a hanging backend answers only when its context is cancelled
	}
	// the scenario is over: whatever is still asked is answered as planned; if only hanging calls
	// are left the client gives up
	for !isDone() {
		select {
		case a := <-g.arrivals:
			if ans, ok := answerOf(a.b); ok && !cancelled {
				a.release <- ans
			}
		case <-done:
		case <-time.After(200 * time.Millisecond):
			if !cancelled {
				g.log(map[string]interface{}{"ev": "cancel"})
				cancelled = true
				cancelParent()
			}
			select {
			case <-done:
			case <-time.After(20 * time.Second):
				g.log(map[string]interface{}{"ev": "hang"})
				goto finish
			}
		}
	}
finish:
	cancelParent()
	// abandoned calls end through their cancelled contexts; give them a moment so that their
	// (post-return) answers are in the trace, then close it
	time.Sleep(200 * time.Microsecond)
	g.mu.Lock()
	g.closed = true
	evs := g.events
	g.mu.Unlock()
	if unused > 0 {
		evs[0]["unused_steps"] = unused
	}
	return evs
}

func TestVerifC18(t *testing.T) {
	var scns []vC18Scenario
	vReadNDJSON(os.Getenv("VERIF_SCENARIOS"), func() interface{} { scns = append(scns, vC18Scenario{}); return &scns[len(scns)-1] })
	out := vNewTraceWriter(os.Getenv("VERIF_TRACES"))
	defer out.Close()
	const par = 8
	res := make([][]map[string]interface{}, len(scns))
	var wg sync.WaitGroup
	sem := make(chan struct{}, par)
	for i := range scns {
		wg.Add(1)
		sem <- struct{}{}
		go func(i int) {
			defer wg.Done()
			defer func() { <-sem }()
			res[i] = vC18Run(scns[i])
		}(i)
	}
	wg.Wait()
	for _, evs := range res {
		for _, ev := range evs {
			out.Write(ev)
		}
	}
	fmt.Println("VERIF-DRIVER-DONE scenarios:", len(scns))
}
