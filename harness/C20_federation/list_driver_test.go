//go:build verif

// RUN stage of C20 (DESIGN.md section 6, C20): drives the real federation.Conn list path
// (Conn.CollectionList / Conn.ContainerList -> generated_*List -> splitListRequest) against
// gated, recording stub backends and records the abstract trace judged by
// specs/federation/FedListTrace.tla.
//
// The driver decides nothing.  Scenario fields (from FedList.tla's Gen configurations, or
// "random" scenarios made by checks/C20.py):
//   local, known        cluster numbers (cluster k has the UUID prefix kkkkk with k='a'+k)
//   filters [[u..]..]   the uuid filters, abstract UUIDs: cluster*10+j (j<9) well-formed,
//                       90..98 malformed strings (length != 27)
//   exists [u..]        objects that exist at their home cluster's backend
//   nraw                number of operand entries (nraw - sum(len(filters)) duplicates are added)
//   max                 API.MaxItemsPerResponse
//   other,count,limit,offset,order   the request also carries ...
//   steps [{c,k,items}] which outstanding backend call is answered next and how:
//                       k = page | err | noprog | extra | lie
//   mode "random", rseed, psize, faults [[c, callindex, kind]..]  instead of steps
//   kind collection|container, sel, style   concretisation choices
//
// Concretiser: vC20UUID (abstract -> string), filter operand style; abstraction: vC20Gate.abs.

package federation

import (
	"context"
	"errors"
	"fmt"
	"math/rand"
	"os"
	"runtime/debug"
	"sort"
	"sync"
	"testing"
	"time"

	"git.arvados.org/arvados.git/sdk/go/arvados"
	"git.arvados.org/arvados.git/sdk/go/arvadostest"
)

type vC20Step struct {
	C     int    `json:"c"`
	K     string `json:"k"`
	Items []int  `json:"items"`
}

type vC20Scenario struct {
	ID      int        `json:"id"`
	Mode    string     `json:"mode"`
	RSeed   int64      `json:"rseed"`
	Local   int        `json:"local"`
	Known   []int      `json:"known"`
	Filters [][]int    `json:"filters"`
	Exists  []int      `json:"exists"`
	NRaw    int        `json:"nraw"`
	Max     int        `json:"max"`
	Other   bool       `json:"other"`
	Count   bool       `json:"count"`
	Limit   bool       `json:"limit"`
	Offset  bool       `json:"offset"`
	Order   bool       `json:"order"`
	Steps   []vC20Step `json:"steps"`
	Kind    string     `json:"kind"`
	Sel     int        `json:"sel"`
	Style   int        `json:"style"`
	PSize   int        `json:"psize"`
	Faults  [][]interface{} `json:"faults"`
}

func vC20Prefix(c int) string {
	b := byte('a' + c)
	return string([]byte{b, b, b, b, b})
}

var vC20Malformed = []string{"", "bbbbb-4zz18-short", "bbbbb-4zz18-0000000000000011x", "not a uuid", "bbbbb", "ccccc-4zz18-",
	"aaaaa-4zz18-00000000000000", "d41d8cd98f00b204e9800998ecf8427e+0", "bbbbb-4zz18-0000000000000011\n"}

type vC20Arrival struct {
	c       int
	batch   []int
	release chan vC20Answer
}

type vC20Answer struct {
	err   bool
	items []int
}

type vC20Gate struct {
	mu       sync.Mutex
	closed   bool
	events   []map[string]interface{}
	infix    string
	toAbs    map[string]int
	arrivals chan *vC20Arrival
	ncalls   int
	sel      int
	mtimes   map[int]time.Time
}

func (g *vC20Gate) uuid(u int) string {
	if u >= 90 {
		return vC20Malformed[(u-90)%len(vC20Malformed)]
	}
	return fmt.Sprintf("%s-%s-%015d", vC20Prefix(u/10), g.infix, u)
}

func (g *vC20Gate) abs(s string) int {
	if u, ok := g.toAbs[s]; ok {
		return u
	}
	return 99
}

func (g *vC20Gate) log(ev map[string]interface{}) {
	g.mu.Lock()
	defer g.mu.Unlock()
	if !g.closed {
		g.events = append(g.events, ev)
	}
}

// uuid strings asked for by opts: intersection of its `uuid =` / `uuid in` filters
func (g *vC20Gate) batchOf(opts arvados.ListOptions) []int {
	var cur map[string]bool
	for _, f := range opts.Filters {
		if f.Attr != "uuid" || (f.Operator != "=" && f.Operator != "in") {
			continue
		}
		this := map[string]bool{}
		switch op := f.Operand.(type) {
		case string:
			this[op] = true
		case []string:
			for _, s := range op {
				this[s] = true
			}
		case []interface{}:
			for _, v := range op {
				if s, ok := v.(string); ok {
					this[s] = true
				}
			}
		}
		if cur == nil {
			cur = this
		} else {
			for s := range cur {
				if !this[s] {
					delete(cur, s)
				}
			}
		}
	}
	out := []int{}
	for s := range cur {
		out = append(out, g.abs(s))
	}
	sort.Ints(out)
	return out
}

// far above the contract's bound on calls (2n+2 per cluster); calls beyond it are refused, and only
// the first refusal is logged
const vC20CallCap = 48

func (g *vC20Gate) serve(c int, opts arvados.ListOptions) ([]int, bool) {
	batch := g.batchOf(opts)
	g.mu.Lock()
	closed := g.closed
	g.ncalls++
	over := g.ncalls > vC20CallCap
	if !closed && g.ncalls <= vC20CallCap+1 {
		g.events = append(g.events, map[string]interface{}{"ev": "call", "c": c, "batch": batch})
		if over {
			g.events = append(g.events, map[string]interface{}{"ev": "resp", "c": c, "batch": batch, "err": true, "items": []int{}})
		}
	}
	g.mu.Unlock()
	if closed || over {
		return nil, true
	}
	a := &vC20Arrival{c: c, batch: batch, release: make(chan vC20Answer, 1)}
	g.arrivals <- a
	ans := <-a.release
	return ans.items, ans.err
}

type vC20Backend struct {
	arvadostest.APIStub
	g *vC20Gate
	c int
}

func vC20HasUUID(sel []string) bool {
	if sel == nil {
		return true
	}
	for _, s := range sel {
		if s == "uuid" {
			return true
		}
	}
	return false
}

func (b *vC20Backend) CollectionList(ctx context.Context, opts arvados.ListOptions) (arvados.CollectionList, error) {
	items, fail := b.g.serve(b.c, opts)
	if fail {
		return arvados.CollectionList{}, errors.New("verif: backend error")
	}
	var resp arvados.CollectionList
	for _, u := range items {
		it := arvados.Collection{Name: "n-" + b.g.uuid(u), ModifiedAt: b.g.mtimes[u]}
		if vC20HasUUID(opts.Select) {
			it.UUID = b.g.uuid(u)
		}
		resp.Items = append(resp.Items, it)
	}
	return resp, nil
}

func (b *vC20Backend) ContainerList(ctx context.Context, opts arvados.ListOptions) (arvados.ContainerList, error) {
	items, fail := b.g.serve(b.c, opts)
	if fail {
		return arvados.ContainerList{}, errors.New("verif: backend error")
	}
	var resp arvados.ContainerList
	for _, u := range items {
		it := arvados.Container{ModifiedAt: b.g.mtimes[u]}
		if vC20HasUUID(opts.Select) {
			it.UUID = b.g.uuid(u)
		}
		resp.Items = append(resp.Items, it)
	}
	return resp, nil
}

func vC20Run(scn vC20Scenario) []map[string]interface{} {
	rng := rand.New(rand.NewSource(int64(scn.ID)*7919 + scn.RSeed))
	g := &vC20Gate{toAbs: map[string]int{}, arrivals: make(chan *vC20Arrival, 256), sel: scn.Sel, mtimes: map[int]time.Time{}}
	g.infix = "4zz18"
	if scn.Kind == "container" {
		g.infix = "dz642"
	}
	for u := 0; u < 99; u++ {
		if u >= 90 && u-90 >= len(vC20Malformed) {
			continue
		}
		g.toAbs[g.uuid(u)] = u
		g.mtimes[u] = time.Unix(1600000000+int64(rng.Intn(5)), 0)
	}
	exists := map[int]bool{}
	for _, u := range scn.Exists {
		exists[u] = true
	}

	cluster := &arvados.Cluster{ClusterID: vC20Prefix(scn.Local), RemoteClusters: map[string]arvados.RemoteCluster{}}
	cluster.API.MaxItemsPerResponse = scn.Max
	conn := &Conn{cluster: cluster, remotes: map[string]backend{}}
	for _, k := range scn.Known {
		be := &vC20Backend{g: g, c: k}
		if k == scn.Local {
			conn.local = be
		} else {
			conn.remotes[vC20Prefix(k)] = be
			cluster.RemoteClusters[vC20Prefix(k)] = arvados.RemoteCluster{Host: "in-process.local", Proxy: true}
		}
	}

	// concretise the request
	opts := arvados.ListOptions{Count: "none", Limit: -1}
	total := 0
	for _, f := range scn.Filters {
		total += len(f)
	}
	dups := scn.NRaw - total
	for i, f := range scn.Filters {
		strs := []string{}
		for _, u := range f {
			strs = append(strs, g.uuid(u))
		}
		if i == 0 {
			for d := 0; d < dups && len(f) > 0; d++ {
				strs = append(strs, g.uuid(f[rng.Intn(len(f))]))
			}
		}
		rng.Shuffle(len(strs), func(i, j int) { strs[i], strs[j] = strs[j], strs[i] })
		switch {
		case len(strs) == 1 && (scn.Style+i)%3 == 0:
			opts.Filters = append(opts.Filters, arvados.Filter{Attr: "uuid", Operator: "=", Operand: strs[0]})
		case (scn.Style+i)%2 == 0:
			opts.Filters = append(opts.Filters, arvados.Filter{Attr: "uuid", Operator: "in", Operand: strs})
		default:
			ifs := []interface{}{}
			for _, s := range strs {
				ifs = append(ifs, s)
			}
			if scn.Style%5 == 3 {
				// a non-string element cannot match anything and is skipped
				ifs = append(ifs, 42)
			}
			opts.Filters = append(opts.Filters, arvados.Filter{Attr: "uuid", Operator: "in", Operand: ifs})
		}
	}
	if scn.Other {
		var f arvados.Filter
		switch rng.Intn(3) {
		case 0:
			f = arvados.Filter{Attr: "owner_uuid", Operator: "=", Operand: vC20Prefix(scn.Local) + "-tpzed-000000000000000"}
		case 1:
			f = arvados.Filter{Attr: "uuid", Operator: "!=", Operand: g.uuid(8)}
		default:
			f = arvados.Filter{Attr: "uuid", Operator: "like", Operand: "%"}
		}
		if rng.Intn(2) == 0 {
			opts.Filters = append([]arvados.Filter{f}, opts.Filters...)
		} else {
			opts.Filters = append(opts.Filters, f)
		}
	}
	if scn.Count {
		opts.Count = []string{"exact", ""}[rng.Intn(2)]
	}
	if scn.Limit {
		opts.Limit = []int64{0, 1, 100}[rng.Intn(3)]
	}
	if scn.Offset {
		opts.Offset = 1
	}
	if scn.Order {
		opts.Order = []string{"uuid asc"}
	}
	if scn.Kind != "container" {
		switch scn.Sel {
		case 1:
			opts.Select = []string{"uuid", "name"}
		case 2:
			opts.Select = []string{"name"}
		}
	}

	g.events = append(g.events, map[string]interface{}{"ev": "reset", "scn": scn.ID, "local": scn.Local, "known": scn.Known,
		"filters": scn.Filters, "exists": scn.Exists, "nraw": scn.NRaw, "max": scn.Max, "other": scn.Other, "count": scn.Count,
		"limit": scn.Limit, "offset": scn.Offset, "order": scn.Order, "kind": scn.Kind, "sel": scn.Sel, "mode": scn.Mode})

	done := make(chan struct{})
	go func() {
		defer close(done)
		defer func() {
			if r := recover(); r != nil {
				g.log(map[string]interface{}{"ev": "panic", "what": fmt.Sprint(r), "stack": string(debug.Stack())})
			}
		}()
		items := []int{}
		var err error
		if scn.Kind == "container" {
			var l arvados.ContainerList
			l, err = conn.ContainerList(context.Background(), opts)
			for _, it := range l.Items {
				items = append(items, g.abs(it.UUID))
			}
		} else {
			var l arvados.CollectionList
			l, err = conn.CollectionList(context.Background(), opts)
			for _, it := range l.Items {
				if it.UUID == "" && len(it.Name) > 2 {
					items = append(items, g.abs(it.Name[2:]))
				} else {
					items = append(items, g.abs(it.UUID))
				}
			}
		}
		g.log(map[string]interface{}{"ev": "done", "ok": err == nil, "items": items})
	}()

	pending := map[int][]*vC20Arrival{}
	take := func(a *vC20Arrival) { pending[a.c] = append(pending[a.c], a) }
	isDone := func() bool {
		select {
		case <-done:
			return true
		default:
			return false
		}
	}
	answer := func(a *vC20Arrival, err bool, items []int) {
		if items == nil {
			items = []int{}
		}
		g.log(map[string]interface{}{"ev": "resp", "c": a.c, "batch": a.batch, "err": err, "items": items})
		a.release <- vC20Answer{err: err, items: items}
	}
	have := func(a *vC20Arrival) []int {
		out := []int{}
		for _, u := range a.batch {
			if exists[u] && u/10 == a.c { // a backend has the objects of its own cluster only
				out = append(out, u)
			}
		}
		return out
	}
	pop := func(c int) *vC20Arrival {
		a := pending[c][0]
		pending[c] = pending[c][1:]
		return a
	}
	waitFor := func(c int) bool {
		deadline := time.After(3 * time.Second)
		for len(pending[c]) == 0 {
			select {
			case a := <-g.arrivals:
				take(a)
			case <-done:
				return false
			case <-deadline:
				return false
			}
		}
		return true
	}
	shuffled := func(items []int) []int {
		out := append([]int{}, items...)
		rng.Shuffle(len(out), func(i, j int) { out[i], out[j] = out[j], out[i] })
		return out
	}

	unused := 0
	if scn.Mode == "random" {
		ncall := map[int]int{}
		faultAt := map[[2]int]string{}
		for _, f := range scn.Faults {
			faultAt[[2]int{int(f[0].(float64)), int(f[1].(float64))}] = f[2].(string)
		}
		for !isDone() {
			// collect what has arrived (idle window: trace shape only, never a verdict)
			for settled := false; !settled; {
				select {
				case a := <-g.arrivals:
					take(a)
				case <-time.After(300 * time.Microsecond):
					settled = true
				}
			}
			var cands []int
			for c, q := range pending {
				if len(q) > 0 {
					cands = append(cands, c)
				}
			}
			if len(cands) == 0 {
				select {
				case a := <-g.arrivals:
					take(a)
				case <-done:
				case <-time.After(20 * time.Second):
					g.log(map[string]interface{}{"ev": "hang"})
					goto finish
				}
				continue
			}
			sort.Ints(cands)
			c := cands[rng.Intn(len(cands))]
			a := pop(c)
			ncall[c]++
			h := shuffled(have(a))
			switch faultAt[[2]int{c, ncall[c]}] {
			case "err":
				answer(a, true, nil)
			case "noprog":
				answer(a, false, []int{c*10 + 9})
			case "extra":
				if len(h) > 0 {
					n := 1 + rng.Intn(len(h))
					answer(a, false, shuffled(append(h[:n:n], c*10+9)))
				} else {
					answer(a, false, h)
				}
			case "repeat":
				if len(h) > 0 {
					answer(a, false, append(h, h[0]))
				} else {
					answer(a, false, h)
				}
			case "lie":
				answer(a, false, nil)
			default:
				n := len(h)
				if scn.PSize > 0 && n > scn.PSize {
					n = scn.PSize
				} else if scn.PSize < 0 && n > 0 {
					n = 1 + rng.Intn(n)
				}
				answer(a, false, h[:n])
			}
		}
	} else {
		for i, st := range scn.Steps {
			if !waitFor(st.C) {
				unused = len(scn.Steps) - i
				break
			}
			a := pop(st.C)
			switch {
			case st.K == "err":
				answer(a, true, nil)
			case st.K == "page" && len(st.Items) == 0:
				// the model's empty page (nothing asked for exists) or its pass-through answer
				// (everything asked for that exists)
				answer(a, false, shuffled(have(a)))
			default: // page, noprog, extra, lie: exactly the items the model chose
				answer(a, false, shuffled(st.Items))
			}
		}
		// whatever the code still asks for is answered with a full well-behaved page
		for !isDone() {
			select {
			case a := <-g.arrivals:
				take(a)
			case <-done:
			case <-time.After(20 * time.Second):
				g.log(map[string]interface{}{"ev": "hang"})
				goto finish
			}
			for c, q := range pending {
				for range q {
					a := pop(c)
					answer(a, false, shuffled(have(a)))
				}
			}
		}
	}
finish:
	g.mu.Lock()
	g.closed = true
	evs := g.events
	g.mu.Unlock()
	if unused > 0 {
		evs[0]["unused_steps"] = unused
	}
	// unblock stragglers
	go func() {
		for {
			select {
			case a := <-g.arrivals:
				a.release <- vC20Answer{err: true}
			case <-time.After(2 * time.Second):
				return
			}
		}
	}()
	for _, q := range pending {
		for _, a := range q {
			a.release <- vC20Answer{err: true}
		}
	}
	return evs
}

func TestVerifC20(t *testing.T) {
	var scns []vC20Scenario
	vReadNDJSON(os.Getenv("VERIF_SCENARIOS"), func() interface{} { scns = append(scns, vC20Scenario{}); return &scns[len(scns)-1] })
	out := vNewTraceWriter(os.Getenv("VERIF_TRACES"))
	defer out.Close()
	const par = 8
	res := make([][]map[string]interface{}, len(scns))
	var wg sync.WaitGroup
	sem := make(chan struct{}, par)
	for i := range scns {
		wg.Add(1)
		sem <- struct{}{}
		go func(i int) {
			defer wg.Done()
			defer func() { <-sem }()
			res[i] = vC20Run(scns[i])
		}(i)
	}
	wg.Wait()
	for _, evs := range res {
		for _, ev := range evs {
			out.Write(ev)
		}
	}
	fmt.Println("VERIF-DRIVER-DONE scenarios:", len(scns))
}
