//go:build verif

// RUN stage of C17 (lib/crunchrun/copier.go): materialises the abstract output tree of a scenario in a
// temporary host directory, runs the real copier.Copy against a fake Keep and a stub API client, and
// records the returned manifest projected to the abstract syntax of specs/collfs/Manifest.tla.
//
// Scenario (from specs/collfs/OutputCopy.tla, Emit):
//   nodes  [{path:[name..], k:"none"|"dir"|"file"|"link", c:block-like content id, abs:bool, tg:[name..]}]
//          below the container output directory /out (parents before children); also seeded random trees
//          made by checks/C17.py (deeper, more entries) in the same form
//   mroot  the container path of a read-only collection mount ([] none; /mnt; /out/m; /out/a/m ...) whose manifest
//          is `mount`, showing the subtree `mpath` of it (arvados.Mount.Path)
//   sec    the container path of a secret mount ([] none; /sec; /out/s; /out/a/s ...): if it lies below /out and
//          its parent directory exists, the secret's bytes are really there in the host directory
// Event: {"ev":"copy","kind":"ok"|"error"|"panic","out":[stream..],"nb":[{"id":..,"segs":[[content id,off,len]..]}]}
//   out: the manifest returned by Copy; blocks written during the copy get ids 7000+100k+size (k < 29) and are
//   described in nb by the host file contents they hold (content bytes identify file content and offset).
//
// Uses the concretiser of C10 (vc10_common, instantiated for this package by checks/C17.py).
// The driver decides nothing.

package crunchrun

import (
	"crypto/md5"
	"fmt"
	"io"
	"os"
	"path/filepath"
	"strings"
	"sync"
	"testing"

	"git.arvados.org/arvados.git/sdk/go/arvados"
	"git.arvados.org/arvados.git/sdk/go/arvadosclient"
	"git.arvados.org/arvados.git/sdk/go/manifest"
)

type vC17Node struct {
	Path    [][]int `json:"path"`
	K       string  `json:"k"`
	Content int     `json:"c"`
	Abs     bool    `json:"abs"`
	Target  [][]int `json:"tg"`
}

type vC17Scenario struct {
	ID    int          `json:"id"`
	Nodes []vC17Node   `json:"nodes"`
	MRoot [][]int      `json:"mroot"`
	MPath [][]int      `json:"mpath"`
	Sec   [][]int      `json:"sec"`
	Mount []vC10Stream `json:"mount"`
}

const vC17PDH = "0123456789abcdef0123456789abcdef+99"

type vC17Keep struct {
	mu     sync.Mutex
	w      *vC10World
	put    map[string][]byte // hash -> content of blocks written by the copier
	order  []string
	readBy int
}

func (k *vC17Keep) PutB(buf []byte) (string, int, error) {
	k.mu.Lock()
	defer k.mu.Unlock()
	h := fmt.Sprintf("%x", md5.Sum(buf))
	if _, ok := k.put[h]; !ok {
		k.put[h] = append([]byte(nil), buf...)
		k.order = append(k.order, h)
	}
	return fmt.Sprintf("%s+%d", h, len(buf)), 1, nil
}

func (k *vC17Keep) ReadAt(locator string, p []byte, off int) (int, error) {
	k.mu.Lock()
	defer k.mu.Unlock()
	h := strings.SplitN(locator, "+", 2)[0]
	if d, ok := k.put[h]; ok {
		if off > len(d) {
			return 0, io.EOF
		}
		return copy(p, d[off:]), nil
	}
	return k.w.ReadAt(locator, p, off)
}

func (k *vC17Keep) ManifestFileReader(m manifest.Manifest, filename string) (arvados.File, error) {
	return nil, fmt.Errorf("verif: not implemented")
}
func (k *vC17Keep) LocalLocator(locator string) (string, error) { return locator, nil }
func (k *vC17Keep) ClearBlockCache()                            {}

type vC17API struct{ text string }

func (a *vC17API) Create(string, arvadosclient.Dict, interface{}) error { return fmt.Errorf("verif: no") }
func (a *vC17API) Get(resourceType string, uuid string, parameters arvadosclient.Dict, output interface{}) error {
	if resourceType == "collections" && uuid == vC17PDH {
		output.(*arvados.Collection).ManifestText = a.text
		return nil
	}
	return fmt.Errorf("verif: %s %s not found", resourceType, uuid)
}
func (a *vC17API) Update(string, string, arvadosclient.Dict, interface{}) error { return fmt.Errorf("verif: no") }
func (a *vC17API) Call(method, resourceType, uuid, action string, parameters arvadosclient.Dict, output interface{}) error {
	return fmt.Errorf("verif: no")
}
func (a *vC17API) CallRaw(method string, resourceType string, uuid string, action string, parameters arvadosclient.Dict) (io.ReadCloser, error) {
	return nil, fmt.Errorf("verif: no")
}
func (a *vC17API) Discovery(key string) (interface{}, error) { return nil, fmt.Errorf("verif: no") }

type vC17Quiet struct{}

func (vC17Quiet) Printf(string, ...interface{}) {}

func vC17Join(comps [][]int) string {
	parts := make([]string, len(comps))
	for i, c := range comps {
		parts[i] = vC10Str(c)
	}
	return strings.Join(parts, "/")
}

// vC17Signed: the mounted collection as the API server hands it out, every non-empty block with a +A signature.
func vC17Signed(m []vC10Stream) []vC10Stream {
	out := make([]vC10Stream, len(m))
	for i, st := range m {
		out[i] = vC10Stream{Name: st.Name, Toks: st.Toks}
		for _, b := range st.Blocks {
			if b%100 > 0 {
				b = 10000 + b%10000
			}
			out[i].Blocks = append(out[i].Blocks, b)
		}
	}
	return out
}

func vC17Run(s *vC17Scenario) (ev vC10Ev) {
	ev = vC10Ev{"ev": "copy", "kind": "ok", "out": []vC10Stream{}, "nb": []vC10Ev{}}
	w := vC10NewWorld(s.Mount)
	for _, n := range s.Nodes {
		if n.K == "file" && n.Content%100 > 0 {
			// host file contents share the byte coding of blocks but are not blocks that exist in Keep
			w.add(n.Content)
			delete(w.byHash, w.hash[n.Content])
		}
	}
	host, err := os.MkdirTemp("", "verif-c17-")
	if err != nil {
		panic(err)
	}
	defer os.RemoveAll(host)
	for _, n := range s.Nodes {
		p := filepath.Join(host, vC17Join(n.Path))
		switch n.K {
		case "dir":
			err = os.Mkdir(p, 0755)
		case "file":
			err = os.WriteFile(p, w.data[n.Content], 0644) // nil (empty) for a zero-size content id
		case "link":
			t := vC17Join(n.Target)
			if n.Abs {
				t = "/" + t
			}
			err = os.Symlink(t, p)
		}
		if err != nil {
			panic("verif: cannot materialise scenario: " + err.Error())
		}
	}
	cp := copier{
		arvClient:     &vC17API{text: w.render(vC17Signed(s.Mount), false)},
		hostOutputDir: host,
		ctrOutputDir:  "/out",
		mounts:        map[string]arvados.Mount{"/out": {Kind: "tmp"}},
		secretMounts:  map[string]arvados.Mount{},
		logger:        vC17Quiet{},
	}
	keep := &vC17Keep{w: w, put: map[string][]byte{}}
	cp.keepClient = keep
	if len(s.MRoot) > 0 {
		cp.mounts["/"+vC17Join(s.MRoot)] = arvados.Mount{Kind: "collection", PortableDataHash: vC17PDH, Path: vC17Join(s.MPath)}
		if len(s.MRoot) > 1 && vC10Str(s.MRoot[0]) == "out" {
			// the mount point: an (empty) directory in the host output dir, as the container runtime leaves it
			hp := filepath.Join(host, vC17Join(s.MRoot[1:]))
			if fi, err := os.Lstat(filepath.Dir(hp)); err == nil && fi.IsDir() {
				if err := os.Mkdir(hp, 0755); err != nil {
					panic(err)
				}
			}
		}
	}
	if len(s.Sec) > 0 {
		root := "/" + vC17Join(s.Sec)
		cp.secretMounts[root] = arvados.Mount{Kind: "text", Content: "xyzzy"}
		if len(s.Sec) > 1 && vC10Str(s.Sec[0]) == "out" {
			hp := filepath.Join(host, vC17Join(s.Sec[1:]))
			if fi, err := os.Lstat(filepath.Dir(hp)); err == nil && fi.IsDir() { // a real directory, not a link to one
				if err := os.WriteFile(hp, []byte("xyzzy"), 0600); err != nil {
					panic(err)
				}
			}
		}
	}
	var text string
	func() {
		defer func() {
			if r := recover(); r != nil {
				vC10OnlyCodecPanics(r) // a panic of this driver or of its stubs is infrastructure trouble, not an observation
				ev["kind"], ev["detail"] = "panic", fmt.Sprint(r)
			}
		}()
		text, err = cp.Copy()
		if err != nil {
			if strings.Contains(err.Error(), "verif:") {
				// the copier reached a stub this driver does not implement: nothing can be said about the property
				panic("verif: copier used an unimplemented stub: " + err.Error())
			}
			ev["kind"], ev["detail"] = "error", err.Error()
		}
	}()
	if ev["kind"] != "ok" {
		return ev
	}
	// blocks written during the copy: new ids, described by the host contents they hold
	nb := []vC10Ev{}
	for k, h := range keep.order {
		d := keep.put[h]
		if _, known := w.byHash[h]; known || len(d) == 0 {
			continue // identical to a block that already exists (same locator): nothing new to describe
		}
		if len(d) > 99 || k >= 29 {
			panic("verif: written block larger than 99 bytes, or more than 29 written blocks")
		}
		id := 7000 + 100*k + len(d) // 7000..9899: below 10000 (no hint class), apart from mount blocks, host contents and 99xx ("unknown")
		w.byHash[h] = id
		nb = append(nb, vC10Ev{"id": id, "segs": w.segsOfBytes(d)})
	}
	out, err := w.parse(text)
	if err != nil {
		ev["kind"], ev["detail"] = "unparseable", err.Error()+": "+text
		return ev
	}
	ev["out"], ev["nb"], ev["text"] = out, nb, text
	return ev
}

func TestVerifC17(t *testing.T) {
	var scns []*vC17Scenario
	vReadNDJSON(os.Getenv("VERIF_SCENARIOS"), func() interface{} {
		s := &vC17Scenario{}
		scns = append(scns, s)
		return s
	})
	tw := vNewTraceWriter(os.Getenv("VERIF_TRACES"))
	for _, s := range scns {
		tw.Write(vC10Ev{"ev": "reset", "scn": s.ID, "nodes": s.Nodes, "mroot": s.MRoot, "mpath": s.MPath, "sec": s.Sec, "mount": s.Mount})
		tw.Write(vC17Run(s))
	}
	tw.Close()
	fmt.Printf("VERIF-C17 scenarios=%d\n", len(scns))
	fmt.Println("VERIF-DRIVER-DONE")
}
