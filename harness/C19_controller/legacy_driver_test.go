//go:build verif

// RUN stage of C19, site "legacy": the controller's legacy federation handlers
// (Handler.setupProxyRemoteCluster -> genericFederatedRequestHandler -> remoteClusterRequest ->
// saltAuthToken -> proxy.Do) forwarding a workflow request to a recording HTTP server standing
// in for the remote cluster.  The api_client_authorizations lookup of validateAPItoken is served
// by a fake database/sql driver.

package controller

import (
	"context"
	"database/sql"
	"database/sql/driver"
	"encoding/base64"
	"errors"
	"fmt"
	"io"
	"math/rand"
	"net/http"
	"net/http/httptest"
	"net/url"
	"os"
	"strings"
	"sync"
	"testing"

	"git.arvados.org/arvados.git/sdk/go/arvados"
	"github.com/jmoiron/sqlx"
)

// ---- fake database: SELECT aca.uuid, aca.scopes, users.uuid ... WHERE api_token=$1
type vC19DB struct {
	mu   sync.Mutex
	rows map[string][3]string
}

type vC19DBConn struct{ db *vC19DB }
type vC19DBRows struct {
	row  *[3]string
	done bool
}

func (d *vC19DB) Connect(context.Context) (driver.Conn, error) { return &vC19DBConn{d}, nil }
func (d *vC19DB) Driver() driver.Driver                        { return d }
func (d *vC19DB) Open(string) (driver.Conn, error)             { return &vC19DBConn{d}, nil }
func (c *vC19DBConn) Prepare(string) (driver.Stmt, error)      { return nil, errors.New("verif: not implemented") }
func (c *vC19DBConn) Close() error                             { return nil }
func (c *vC19DBConn) Begin() (driver.Tx, error)                { return nil, errors.New("verif: not implemented") }
func (c *vC19DBConn) QueryContext(ctx context.Context, q string, args []driver.NamedValue) (driver.Rows, error) {
	if !strings.Contains(q, "api_client_authorizations") || len(args) != 1 {
		return nil, errors.New("verif: unexpected query")
	}
	tok, _ := args[0].Value.(string)
	c.db.mu.Lock()
	defer c.db.mu.Unlock()
	if r, ok := c.db.rows[tok]; ok {
		return &vC19DBRows{row: &r}, nil
	}
	return &vC19DBRows{}, nil
}
func (r *vC19DBRows) Columns() []string { return []string{"uuid", "scopes", "uuid"} }
func (r *vC19DBRows) Close() error      { return nil }
func (r *vC19DBRows) Next(dest []driver.Value) error {
	if r.row == nil || r.done {
		return io.EOF
	}
	r.done = true
	dest[0], dest[1], dest[2] = r.row[0], r.row[1], r.row[2]
	return nil
}

func TestVerifC19Legacy(t *testing.T) {
	var scns []vC19Scenario
	vReadNDJSON(os.Getenv("VERIF_SCENARIOS"), func() interface{} { scns = append(scns, vC19Scenario{}); return &scns[len(scns)-1] })
	out := vNewTraceWriter(os.Getenv("VERIF_TRACES"))
	defer out.Close()
	rec := &vC19Recorder{}
	srv := httptest.NewServer(rec)
	defer srv.Close()
	u, _ := url.Parse(srv.URL)

	fakedb := &vC19DB{rows: map[string][3]string{}}
	h := &Handler{Cluster: &arvados.Cluster{
		ClusterID: vC19Home,
		RemoteClusters: map[string]arvados.RemoteCluster{
			vC19Remote: {Host: u.Host, Scheme: "http", Proxy: true},
		},
	}}
	h.proxy = &proxy{Name: "arvados-controller"}
	h.secureClient = &http.Client{CheckRedirect: neverRedirect}
	h.insecureClient = h.secureClient
	h.pgdb = sqlx.NewDb(sql.OpenDB(fakedb), "postgres")
	local := 0
	stack := h.setupProxyRemoteCluster(http.HandlerFunc(func(w http.ResponseWriter, r *http.Request) {
		local++
		w.WriteHeader(http.StatusNotFound)
	}))

	for _, scn := range scns {
		rng := rand.New(rand.NewSource(int64(scn.ID)*15485863 + scn.RSeed))
		var toks []vC19Concrete
		fakedb.mu.Lock()
		fakedb.rows = map[string][3]string{}
		for _, a := range scn.Toks {
			c := vC19Token(rng, a.C)
			toks = append(toks, c)
			if a.C == "legLocal" || a.C == "legRemote" {
				fakedb.rows[c.token] = [3]string{c.acaUUID, `["all"]`, c.userUU}
			}
		}
		fakedb.mu.Unlock()

		// build the incoming request
		q := url.Values{}
		form := url.Values{}
		hdr := http.Header{}
		for i, a := range scn.Toks {
			tok := toks[i].token
			switch a.P {
			case "oauth2":
				hdr.Set("Authorization", "OAuth2 "+tok)
			case "bearer":
				hdr.Set("Authorization", "Bearer "+tok)
			case "basic":
				hdr.Set("Authorization", "Basic "+base64.StdEncoding.EncodeToString([]byte("user:"+tok)))
			case "query":
				q.Add("api_token", tok)
			case "form":
				form.Add("api_token", tok)
			case "cookie":
				hdr.Add("Cookie", "arvados_api_token="+base64.URLEncoding.EncodeToString([]byte(tok)))
			}
		}
		path := "/arvados/v1/workflows/" + vC19Remote + "-7fd4e-000000000000000"
		method := "GET"
		var body io.Reader
		if len(form) > 0 || scn.ID%5 == 0 {
			method = "POST"
			form.Set("_method", "GET")
			if scn.ID%2 == 0 {
				form.Set("select", `["uuid","name"]`)
			}
			body = strings.NewReader(form.Encode())
			hdr.Set("Content-Type", "application/x-www-form-urlencoded")
		} else if scn.ID%2 == 0 {
			q.Set("select", `["uuid"]`)
		}
		target := path
		if len(q) > 0 {
			target += "?" + q.Encode()
		}
		req := httptest.NewRequest(method, "http://controller.example"+target, body)
		for k, v := range hdr {
			req.Header[k] = v
		}
		out.Write(map[string]interface{}{"ev": "reset", "scn": scn.ID, "site": scn.Site, "toks": scn.Toks, "method": method})
		rec.take()
		w := httptest.NewRecorder()
		panicked := ""
		func() {
			// a panic of the handler is what net/http would turn into an aborted connection:
			// nothing is forwarded
			defer func() {
				if r := recover(); r != nil {
					panicked = fmt.Sprint(r)
				}
			}()
			stack.ServeHTTP(w, req)
		}()
		reqs := rec.take()
		if len(reqs) == 0 {
			out.Write(map[string]interface{}{"ev": "refuse", "status": w.Code, "panic": panicked})
			continue
		}
		obs := vC19Observe(reqs, toks)
		out.Write(map[string]interface{}{"ev": "forward", "obs": obs, "nreq": len(reqs)})
	}
	fmt.Println("VERIF-DRIVER-DONE scenarios:", len(scns), "handled locally:", local)
}
