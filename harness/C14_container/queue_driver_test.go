//go:build verif

// Queue-level binding of C14: the REAL container.Queue (Lock / Unlock / Cancel / Update / Forget,
// updateWithResp, dontupdate) against a gated fake APIClient, for one container.  Schedules are
// behaviours of specs/dispatch/QueueCache.tla (random walks) or hand-written ones; the recorded
// events are judged by specs/dispatch/QueueCacheTrace.tla.  The driver decides nothing.
//
// Steps {a, x}:
//   call x        a goroutine calls cq.Lock / cq.Unlock / cq.Cancel (x = lock|unlock|cancel); the
//                 request arrives at the fake API and waits
//   commit        the fake API performs the call on its record (or refuses it)
//   deliver       the answer is returned to the queue (updateWithResp); the call returns
//   updstart      a goroutine calls cq.Update(); its first container-list request arrives and waits
//                 (unprocessed: the poll sees the record as it is when the request is released)
//   updend        the request is released, every further request of this Update is answered at
//                 once; Update returns
//   usercancel, running, complete   the record changes (user / crunch-run)
//   forget        cq.Forget
// The version of the record is carried in the Priority field (1000 + version), which the queue
// copies into its cache from polls and from answers alike.
// Events: {"ev":"truth","s","v"}, {"ev":"cache","in","v","s","fresh","by","late"} after every step of
// the queue; late = a poll taken after the server performed the call was applied before its answer
// arrived (the class of the known finding KF-C14-2).

package container

import (
	"errors"
	"fmt"
	"io"
	"os"
	"runtime"
	"strings"
	"sync"
	"testing"
	"time"

	"git.arvados.org/arvados.git/sdk/go/arvados"
	"github.com/sirupsen/logrus"
)

const vQUUID = "zzzzz-dz642-000000000000001"
const vQAuth = "zzzzz-gj3su-verifdispatcher"

type vQStep struct {
	A string `json:"a"`
	X string `json:"x"`
}

type vQScenario struct {
	ID    int      `json:"id"`
	Steps []vQStep `json:"steps"`
}

type vQOp struct {
	kind    string
	failed  bool // the server refused the call: its answer is an error and does not touch the cache
	commit  chan struct{}
	acked   chan struct{}
	deliver chan struct{}
}

type vQFake struct {
	mu       sync.Mutex
	state    string
	ver      int
	events   []map[string]interface{}
	op       *vQOp
	arrived  chan struct{}
	holdList bool          // the next container-list request waits
	listGate chan struct{} // closed to release it
	listHere chan struct{}
}

func (f *vQFake) record() arvados.Container {
	c := arvados.Container{UUID: vQUUID, State: arvados.ContainerState(f.state), Priority: int64(1000 + f.ver),
		RuntimeConstraints: arvados.RuntimeConstraints{VCPUs: 1, RAM: 1 << 30}}
	if f.state == "Locked" || f.state == "Running" {
		c.LockedByUUID = vQAuth
	}
	return c
}

// caller holds mu
func (f *vQFake) set(state string) {
	f.state = state
	f.ver++
	f.events = append(f.events, map[string]interface{}{"ev": "truth", "s": state, "v": f.ver})
}

func vQMatch(c arvados.Container, filters []arvados.Filter) bool {
	for _, fl := range filters {
		switch fl.Attr {
		case "locked_by_uuid":
			if c.LockedByUUID != fl.Operand {
				return false
			}
		case "state":
			if string(c.State) != fmt.Sprint(fl.Operand) {
				return false
			}
		case "priority":
			if !(c.Priority > 0) {
				return false
			}
		case "uuid":
			switch fl.Operator {
			case "in":
				found := false
				for _, u := range fl.Operand.([]string) {
					found = found || u == c.UUID
				}
				if !found {
					return false
				}
			case ">":
				if !(c.UUID > fl.Operand.(string)) {
					return false
				}
			}
		}
	}
	return true
}

func (f *vQFake) RequestAndDecode(dst interface{}, method, path string, body io.Reader, params interface{}) error {
	switch {
	case strings.HasSuffix(path, "api_client_authorizations/current"):
		dst.(*arvados.APIClientAuthorization).UUID = vQAuth
		return nil
	case method == "GET" && path == "arvados/v1/containers":
		f.mu.Lock()
		if f.holdList {
			f.holdList = false
			gate := f.listGate
			f.mu.Unlock()
			f.listHere <- struct{}{}
			<-gate
			f.mu.Lock()
		}
		defer f.mu.Unlock()
		p := params.(arvados.ResourceListParams)
		list := dst.(*arvados.ContainerList)
		if c := f.record(); vQMatch(c, p.Filters) && p.Offset == 0 {
			list.Items = append(list.Items, c)
		}
		return nil
	case method == "POST" || method == "PUT":
		kind := "cancel"
		if strings.HasSuffix(path, "/lock") {
			kind = "lock"
		} else if strings.HasSuffix(path, "/unlock") {
			kind = "unlock"
		} else if m, ok := params.(map[string]map[string]map[string]interface{}); ok && m != nil {
			return nil // runtime_status update: not modelled
		}
		op := &vQOp{kind: kind, commit: make(chan struct{}), acked: make(chan struct{}), deliver: make(chan struct{})}
		f.mu.Lock()
		f.op = op
		f.mu.Unlock()
		f.arrived <- struct{}{}
		<-op.commit
		f.mu.Lock()
		var err error
		switch {
		case kind == "lock" && f.state == "Queued":
			f.set("Locked")
		case kind == "unlock" && f.state == "Locked":
			f.set("Queued")
		case kind == "cancel" && (f.state == "Queued" || f.state == "Locked" || f.state == "Running"):
			f.set("Cancelled")
		default:
			err = errors.New("verif: 422 invalid state transition")
			op.failed = true
		}
		resp := f.record()
		f.mu.Unlock()
		close(op.acked)
		<-op.deliver
		if err != nil {
			return err
		}
		*dst.(*arvados.Container) = resp
		return nil
	}
	return errors.New("verif: unexpected request " + method + " " + path)
}

func TestVerifC14Queue(t *testing.T) {
	var scns []*vQScenario
	vReadNDJSON(os.Getenv("VERIF_SCENARIOS"), func() interface{} {
		s := &vQScenario{}
		scns = append(scns, s)
		return s
	})
	tw := vNewTraceWriter(os.Getenv("VERIF_TRACES"))
	defer tw.Close()
	logger := logrus.New()
	logger.Out = io.Discard
	wait := func(ch chan struct{}) bool {
		select {
		case <-ch:
			return true
		case <-time.After(20 * time.Second):
			return false
		}
	}
	stuck := 0
	for _, scn := range scns {
		f := &vQFake{state: "Queued", arrived: make(chan struct{}, 1), listHere: make(chan struct{}, 1)}
		cq := NewQueue(logger, nil, func(*arvados.Container) (arvados.InstanceType, error) {
			return arvados.InstanceType{Name: "t1"}, nil
		}, f)
		var callDone, updDone chan struct{}
		opState := "none" // none sent committed
		opLate := false
		updOn, updDirty := false, false
		applied, skipped := 0, 0
		obs := func(by string, fresh, late bool) {
			ctr, ok := cq.Get(vQUUID)
			v := 0
			if ok {
				v = int(ctr.Priority) - 1000
			}
			f.mu.Lock()
			f.events = append(f.events, map[string]interface{}{"ev": "cache", "in": ok, "v": v, "s": string(ctr.State),
				"fresh": fresh, "by": by, "late": late})
			f.mu.Unlock()
		}
		env := func(from []string, to string) bool {
			f.mu.Lock()
			defer f.mu.Unlock()
			for _, s := range from {
				if f.state == s {
					f.set(to)
					return true
				}
			}
			return false
		}
		for _, st := range scn.Steps {
			ok := false
			switch st.A {
			case "call":
				if opState == "none" {
					callDone = make(chan struct{})
					done := callDone
					go func(k string) {
						switch k {
						case "lock":
							cq.Lock(vQUUID)
						case "unlock":
							cq.Unlock(vQUUID)
						default:
							cq.Cancel(vQUUID)
						}
						close(done)
					}(st.X)
					if ok = wait(f.arrived); ok {
						opState, opLate = "sent", false
					}
				}
			case "commit":
				if opState == "sent" {
					close(f.op.commit)
					if ok = wait(f.op.acked); ok {
						opState = "committed"
					}
				}
			case "deliver":
				if opState == "committed" {
					close(f.op.deliver)
					if ok = wait(callDone); ok {
						opState = "none"
						if updOn && !f.op.failed {
							updDirty = true // updateWithResp put the container into dontupdate
						}
						obs("deliver", false, opLate)
					}
				}
			case "updstart":
				if !updOn {
					f.mu.Lock()
					f.holdList = true
					f.listGate = make(chan struct{})
					f.mu.Unlock()
					updDone = make(chan struct{})
					done := updDone
					go func() { cq.Update(); close(done) }()
					if ok = wait(f.listHere); ok {
						updOn, updDirty = true, false
					}
				}
			case "updend":
				if updOn {
					f.mu.Lock()
					close(f.listGate)
					f.mu.Unlock()
					ok = wait(updDone)
					if !ok && os.Getenv("VERIF_DEBUG") != "" {
						buf := make([]byte, 1<<16)
						fmt.Printf("VERIF-STACKS %s\n", buf[:runtime.Stack(buf, true)])
					}
					if ok {
						updOn = false
						if opState == "committed" && !updDirty {
							opLate = true
						}
						obs("update", !updDirty, false)
					}
				}
			case "usercancel":
				ok = env([]string{"Queued", "Locked", "Running"}, "Cancelled")
			case "running":
				ok = env([]string{"Locked"}, "Running")
			case "complete":
				ok = env([]string{"Running"}, "Complete")
			case "forget":
				cq.Forget(vQUUID)
				ok = true
				obs("forget", false, false)
			}
			if ok {
				applied++
			} else {
				skipped++
				if os.Getenv("VERIF_DEBUG") != "" {
					fmt.Printf("VERIF-SKIP scn=%d step=%+v op=%s upd=%v\n", scn.ID, st, opState, updOn)
				}
			}
		}
		// wind down (not recorded): let pending goroutines finish
		f.mu.Lock()
		nev := len(f.events)
		if updOn {
			close(f.listGate)
		}
		f.mu.Unlock()
		if opState == "sent" {
			close(f.op.commit)
			wait(f.op.acked)
			opState = "committed"
		}
		if opState == "committed" {
			close(f.op.deliver)
			if !wait(callDone) {
				stuck++
			}
		}
		if updOn && !wait(updDone) {
			stuck++
		}
		tw.Write(map[string]interface{}{"ev": "reset", "scn": scn.ID, "applied": applied, "skipped": skipped})
		f.mu.Lock()
		for _, ev := range f.events[:nev] {
			tw.Write(ev)
		}
		f.mu.Unlock()
	}
	if stuck > 0 {
		fmt.Printf("VERIF-NOTE %d calls did not return\n", stuck)
	}
	fmt.Println("VERIF-DRIVER-DONE")
}
