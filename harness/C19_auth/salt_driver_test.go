//go:build verif

// RUN stage of C19, site "salt": auth.SaltToken called directly on every token class.

package auth

import (
	"errors"
	"fmt"
	"math/rand"
	"os"
	"strings"
	"testing"
)

func TestVerifC19Salt(t *testing.T) {
	var scns []vC19Scenario
	vReadNDJSON(os.Getenv("VERIF_SCENARIOS"), func() interface{} { scns = append(scns, vC19Scenario{}); return &scns[len(scns)-1] })
	out := vNewTraceWriter(os.Getenv("VERIF_TRACES"))
	defer out.Close()
	for _, scn := range scns {
		rng := rand.New(rand.NewSource(int64(scn.ID)*15485863 + scn.RSeed))
		tok := vC19Token(rng, scn.Toks[0].C)
		out.Write(map[string]interface{}{"ev": "reset", "scn": scn.ID, "site": scn.Site, "toks": scn.Toks})
		got, err := SaltToken(tok.token, vC19Remote)
		again, err2 := SaltToken(tok.token, vC19Remote)
		// "salted": the result carries the expected salted form (same UUID, the harness's own HMAC) as its
		// first three segments - further segments of the original may or may not be kept - and a second
		// call gives the same result
		r := "other"
		switch {
		case errors.Is(err, ErrSalted):
			r = "ErrSalted"
		case errors.Is(err, ErrObsoleteToken):
			r = "ErrObsolete"
		case errors.Is(err, ErrTokenFormat):
			r = "ErrFormat"
		case err != nil:
			r = "other"
		case got == tok.token:
			r = "same"
		case (got == tok.salted || strings.HasPrefix(got, tok.salted+"/")) && !strings.Contains(got, tok.secret) && again == got && err2 == nil:
			r = "salted"
		}
		out.Write(map[string]interface{}{"ev": "salt", "r": r})
	}
	fmt.Println("VERIF-DRIVER-DONE scenarios:", len(scns))
}
