//go:build verif

// Shared part of the C19 drivers (DESIGN.md section 6, C19).  The same file is kept in
// harness/C19_auth, C19_federation, C19_controller and C19_keepstore (only the package clause
// differs; checks/C19.py verifies that the copies are identical).
//
// Concretiser: vC19Token turns a token class of TokenSalt.tla into a concrete token string.
// Abstraction: vC19Observe searches the bytes of a request received by the (fake) remote cluster
// for the original secret, the unchanged token, the expected salted form (independent HMAC-SHA1)
// and the twice-salted form.  The drivers decide nothing.

package auth

import (
	"crypto/hmac"
	"crypto/sha1"
	"encoding/base64"
	"fmt"
	"io"
	"math/rand"
	"net/http"
	"net/url"
	"sort"
	"strings"
	"sync"
)

const (
	vC19Home   = "aaaaa"
	vC19Remote = "bbbbb"
	vC19Other  = "ccccc"
)

type vC19Tok struct {
	C string `json:"c"`
	P string `json:"p"`
}

type vC19Scenario struct {
	ID    int       `json:"id"`
	Site  string    `json:"site"`
	Toks  []vC19Tok `json:"toks"`
	RSeed int64     `json:"rseed"`
}

type vC19Concrete struct {
	class   string
	token   string // as the client sent it
	secret  string // what must not be disclosed
	acaUUID string // legacy tokens: UUID of the api_client_authorization it resolves to locally
	userUU  string // legacy tokens: UUID of the user owning it
	salted  string // expected salted form for the remote
	twice   string // salted form salted again
}

func vC19Rand(rng *rand.Rand, n int, alphabet string) string {
	b := make([]byte, n)
	for i := range b {
		b[i] = alphabet[rng.Intn(len(alphabet))]
	}
	return string(b)
}

const vC19Alnum = "0123456789abcdefghijklmnopqrstuvwxyz"

func vC19HMAC(secret, remote string) string {
	m := hmac.New(sha1.New, []byte(secret))
	io.WriteString(m, remote)
	return fmt.Sprintf("%x", m.Sum(nil))
}

func vC19Token(rng *rand.Rand, class string) vC19Concrete {
	uuidOf := func(cluster string) string { return cluster + "-gj3su-" + vC19Rand(rng, 15, vC19Alnum) }
	t := vC19Concrete{class: class}
	v2 := func(uuid, secret string) {
		t.token = "v2/" + uuid + "/" + secret
		t.secret = secret
		t.salted = "v2/" + uuid + "/" + vC19HMAC(secret, vC19Remote)
		t.twice = "v2/" + uuid + "/" + vC19HMAC(vC19HMAC(secret, vC19Remote), vC19Remote)
	}
	switch class {
	case "v2s39":
		v2(uuidOf(vC19Home), vC19Rand(rng, 39, vC19Alnum))
	case "v2s41":
		v2(uuidOf(vC19Home), vC19Rand(rng, 41, vC19Alnum))
	case "v2s50":
		v2(uuidOf(vC19Home), vC19Rand(rng, 50, vC19Alnum))
	case "v2extra":
		v2(uuidOf(vC19Home), vC19Rand(rng, 50, vC19Alnum))
		t.token += []string{"/extra", "/a/b", "/"}[rng.Intn(3)]
	case "v2non40":
		v2(uuidOf(vC19Home), vC19Rand(rng, 39, vC19Alnum)+"z")
	case "saltR", "saltX", "saltH":
		cl := map[string]string{"saltR": vC19Remote, "saltX": vC19Other, "saltH": vC19Home}[class]
		uuid := uuidOf(cl)
		secret := vC19Rand(rng, 40, "0123456789abcdef")
		t.token = "v2/" + uuid + "/" + secret
		t.secret = secret
		t.salted = t.token
		t.twice = "v2/" + uuid + "/" + vC19HMAC(secret, vC19Remote)
	case "legLocal", "legRemote", "legUnknown":
		t.token = vC19Rand(rng, 41+rng.Intn(20), vC19Alnum)
		t.secret = t.token
		owner := vC19Home
		if class == "legRemote" {
			owner = vC19Remote
		}
		t.acaUUID = uuidOf(owner)
		t.userUU = owner + "-tpzed-" + vC19Rand(rng, 15, vC19Alnum)
		t.salted = "v2/" + t.acaUUID + "/" + vC19HMAC(t.token, vC19Remote)
		t.twice = "v2/" + t.acaUUID + "/" + vC19HMAC(vC19HMAC(t.token, vC19Remote), vC19Remote)
	default: // opaque
		t.token = []string{
			"eyJhbGciOiJSUzI1NiJ9." + vC19Rand(rng, 30, vC19Alnum+"ABCDEFGHIJKLMNOPQRSTUVWXYZ-_") + "." + vC19Rand(rng, 20, vC19Alnum+"-_"),
			vC19Rand(rng, 12, vC19Alnum),
			"v2/" + vC19Rand(rng, 27, vC19Alnum),
			"v1/" + vC19Rand(rng, 10, vC19Alnum) + "/" + vC19Rand(rng, 50, vC19Alnum),
			vC19Rand(rng, 45, vC19Alnum) + "Z",
		}[rng.Intn(5)]
		t.secret = t.token
		t.salted = "\x00no salted form\x00"
		t.twice = "\x00no twice form\x00"
	}
	return t
}

// what the fake remote cluster received
type vC19Captured struct {
	uri    string
	header http.Header
	body   string
}

type vC19Recorder struct {
	mu   sync.Mutex
	reqs []vC19Captured
	body string // response body
}

func (r *vC19Recorder) ServeHTTP(w http.ResponseWriter, req *http.Request) {
	b, _ := io.ReadAll(req.Body)
	r.mu.Lock()
	r.reqs = append(r.reqs, vC19Captured{uri: req.RequestURI, header: req.Header.Clone(), body: string(b)})
	body := r.body
	r.mu.Unlock()
	if body == "" {
		body = "{}"
	}
	w.Header().Set("Content-Type", "application/json")
	w.Write([]byte(body))
}

func (r *vC19Recorder) take() []vC19Captured {
	r.mu.Lock()
	defer r.mu.Unlock()
	out := r.reqs
	r.reqs = nil
	return out
}

// the UUID by which a forwarded form of the token is recognised ("" for a string that has none)
func vC19UUIDOf(t vC19Concrete) string {
	if t.acaUUID != "" {
		return t.acaUUID
	}
	if parts := strings.Split(t.token, "/"); len(parts) >= 3 && parts[0] == "v2" && t.class != "opaque" {
		return parts[1]
	}
	return ""
}

// vC19Observe: one observation record per incoming token (with the places where its secret was seen:
// "url", "body", "header:<name>").
func vC19Observe(reqs []vC19Captured, toks []vC19Concrete) []map[string]interface{} {
	type place struct{ name, text string }
	var places []place
	for _, rq := range reqs {
		places = append(places, place{"url", rq.uri})
		if u, err := url.QueryUnescape(rq.uri); err == nil {
			places = append(places, place{"url", u})
		}
		places = append(places, place{"body", rq.body})
		if u, err := url.QueryUnescape(rq.body); err == nil {
			places = append(places, place{"body", u})
		}
		for k, vs := range rq.header {
			for _, v := range vs {
				name := "header:" + strings.ToLower(k)
				places = append(places, place{name, v})
				if k == "Authorization" && strings.HasPrefix(v, "Basic ") {
					if d, err := base64.StdEncoding.DecodeString(strings.TrimPrefix(v, "Basic ")); err == nil {
						places = append(places, place{name, string(d)})
					}
				}
				if k == "Cookie" {
					for _, c := range (&http.Request{Header: http.Header{"Cookie": {v}}}).Cookies() {
						if d, err := base64.URLEncoding.DecodeString(c.Value); err == nil {
							places = append(places, place{name, string(d)})
						}
						if d, err := base64.StdEncoding.DecodeString(c.Value); err == nil {
							places = append(places, place{name, string(d)})
						}
					}
				}
			}
		}
	}
	obs := make([]map[string]interface{}, len(toks))
	for i, t := range toks {
		o := map[string]interface{}{"leak": false, "same": false, "salted": false, "twice": false, "uuid": false}
		where := map[string]bool{}
		uuid := vC19UUIDOf(t)
		for _, p := range places {
			if uuid != "" && strings.Contains(p.text, uuid) {
				o["uuid"] = true // the token is forwarded in some form
			}
			if strings.Contains(p.text, t.secret) {
				o["leak"] = true
				where[p.name] = true
			}
			if strings.Contains(p.text, t.token) {
				o["same"] = true
			}
			if strings.Contains(p.text, t.salted) {
				o["salted"] = true
			}
			if strings.Contains(p.text, t.twice) {
				o["twice"] = true
			}
		}
		ws := []string{}
		for w := range where {
			ws = append(ws, w)
		}
		sort.Strings(ws)
		o["where"] = ws // places in which this token's secret was seen
		obs[i] = o
	}
	return obs
}
