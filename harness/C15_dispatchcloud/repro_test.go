//go:build verif

// Deterministic reproduction of KF-C15-1 (C15): the REAL worker.Pool with a scripted Executor.
// No timing is involved: the executor's answers alone enforce the order
//
//   StartContainer(c)            rr.Start() blocks in "crunch-run --detach ... c"
//   probe  "crunch-run --list" -> c      updateRunning: starting -> running
//   probe  "crunch-run --list" -> (none) updateRunning: closeRunner(c): rr.Close(), exited placeholder
//   "--detach" returns                   startContainer's goroutine: running[c] = rr   (rr is closed)
//   probe  "crunch-run --list" -> (none) updateRunning: closeRunner(c): rr.Close() again
//
// Before commit e9d9f24 the last step panicked ("close of closed channel") and the dispatcher process
// died (KF-C15-1, fixed); kept as a regression scenario (9001).
//
// Second regression scenario (9002, KF-C15-2, fixed by 954c07f), also free of timing: an Executor
// calls target.VerifyHostKey - as sshexecutor does when its connection is established - AFTER the
// instance has been destroyed and pool.sync has dropped the worker:
//
//   boot probe Execute("true")            blocks
//   instance.Destroy(); wait until pool.Instances() no longer lists it
//   target.VerifyHostKey(hostkey, nil)    TagVerifier -> Pool.reportSSHConnected(inst): wp.workers[id] == nil
//
// Each scenario runs in a child process; the parent records {"ev":"crashed"} or {"ev":"final"} for
// specs/dispatch/DispatchLiveTrace.tla.  The driver decides nothing.

package dispatchcloud

import (
	"context"
	"encoding/json"
	"fmt"
	"io"
	"io/ioutil"
	"os"
	"os/exec"
	"strings"
	"sync"
	"testing"
	"time"

	"git.arvados.org/arvados.git/lib/cloud"
	"git.arvados.org/arvados.git/lib/dispatchcloud/test"
	"git.arvados.org/arvados.git/lib/dispatchcloud/worker"
	"git.arvados.org/arvados.git/sdk/go/arvados"
	"git.arvados.org/arvados.git/sdk/go/arvadostest"
	"git.arvados.org/arvados.git/sdk/go/ctxlog"
	"github.com/prometheus/client_golang/prometheus"
	"github.com/sirupsen/logrus"
	"golang.org/x/crypto/ssh"
)

type vReproExec struct {
	mu        sync.Mutex
	uuid      string
	phase     int // 0 idle, 1 detach blocked, 2 listed once, 3 listed as gone, 4 detach released
	release   chan struct{}
	listAfter int // "--list" calls answered after the release
	released  time.Time
	done      chan struct{}
}

func (x *vReproExec) SetTarget(cloud.ExecutorTarget) {}
func (x *vReproExec) Close()                         {}

func (x *vReproExec) Execute(env map[string]string, cmd string, stdin io.Reader) ([]byte, []byte, error) {
	switch {
	case strings.Contains(cmd, "--detach"):
		x.mu.Lock()
		x.phase = 1
		x.mu.Unlock()
		<-x.release
		return nil, nil, nil
	case strings.HasSuffix(cmd, "--list"):
		x.mu.Lock()
		defer x.mu.Unlock()
		switch x.phase {
		case 1:
			x.phase = 2
			return []byte(x.uuid + "\n"), nil, nil
		case 2:
			x.phase = 3
			return []byte("\n"), nil, nil
		case 3:
			x.phase = 4
			x.released = time.Now()
			close(x.release)
			return []byte("\n"), nil, nil
		case 4:
			// survived: several probes after startContainer's goroutine has certainly finished
			x.listAfter++
			if x.listAfter >= 6 && time.Since(x.released) > 500*time.Millisecond {
				x.phase = 5
				close(x.done)
			}
		}
		return []byte("\n"), nil, nil
	}
	return nil, nil, nil // boot probe, kill
}

// Executor of scenario 9002
type vReproExec2 struct {
	mu      sync.Mutex
	target  cloud.ExecutorTarget
	hostkey ssh.PublicKey
	sis     cloud.InstanceSet
	pool    func() *worker.Pool
	fired   bool
	done    chan struct{}
	note    string
}

func (x *vReproExec2) SetTarget(t cloud.ExecutorTarget) { x.mu.Lock(); x.target = t; x.mu.Unlock() }
func (x *vReproExec2) Close()                           {}
func (x *vReproExec2) Execute(env map[string]string, cmd string, stdin io.Reader) ([]byte, []byte, error) {
	x.mu.Lock()
	if x.fired {
		x.mu.Unlock()
		return nil, nil, fmt.Errorf("verif: instance gone")
	}
	x.fired = true
	target := x.target
	x.mu.Unlock()
	defer close(x.done)
	insts, _ := x.sis.Instances(nil)
	for _, inst := range insts {
		inst.Destroy()
	}
	for t0 := time.Now(); len(x.pool().Instances()) > 0; time.Sleep(time.Millisecond) {
		if time.Since(t0) > 30*time.Second {
			x.note = "worker was not dropped"
			return nil, nil, fmt.Errorf("verif: not applicable")
		}
	}
	// what sshexecutor does once its connection is up
	target.VerifyHostKey(x.hostkey, nil)
	return nil, nil, fmt.Errorf("verif: instance gone")
}

func TestVerifC15Repro2Child(t *testing.T) {
	if os.Getenv("VERIF_C15_CHILD") == "" {
		t.Skip("child of TestVerifC15Repro")
	}
	logger := logrus.New()
	logger.Out = io.Discard
	rawhost, err := ioutil.ReadFile("test/sshkey_vm")
	if err != nil {
		t.Fatal(err)
	}
	hostpriv, err := ssh.ParsePrivateKey(rawhost)
	if err != nil {
		t.Fatal(err)
	}
	sd := &test.StubDriver{HostKey: hostpriv}
	it := test.InstanceType(1)
	cluster := &arvados.Cluster{
		Containers: arvados.ContainersConfig{
			CrunchRunCommand: "crunch-run",
			CloudVMs: arvados.CloudVMsConfig{
				SyncInterval:       arvados.Duration(5 * time.Millisecond),
				ProbeInterval:      arvados.Duration(2 * time.Millisecond),
				MaxProbesPerSecond: 1000,
				TimeoutIdle:        arvados.Duration(time.Hour),
				TimeoutBooting:     arvados.Duration(time.Hour),
				TimeoutProbe:       arvados.Duration(time.Hour),
				TagKeyPrefix:       "test:",
			},
		},
		InstanceTypes: arvados.InstanceTypeMap{it.Name: it},
	}
	arvadostest.SetServiceURL(&cluster.Services.Controller, "https://"+os.Getenv("ARVADOS_API_HOST")+"/")
	arvClient, _ := arvados.NewClientFromConfig(cluster)
	arvClient.AuthToken = arvadostest.AdminToken
	sis, err := sd.InstanceSet(nil, "verif-repro2", nil, logger)
	if err != nil {
		t.Fatal(err)
	}
	var pool *worker.Pool
	var pmu sync.Mutex
	x := &vReproExec2{hostkey: hostpriv.PublicKey(), sis: sis, done: make(chan struct{}),
		pool: func() *worker.Pool { pmu.Lock(); defer pmu.Unlock(); return pool }}
	pmu.Lock()
	pool = worker.NewPool(logger, arvClient, prometheus.NewRegistry(), "verif-repro2", sis,
		func(inst cloud.Instance) worker.Executor { x.SetTarget(inst); return x }, nil, cluster)
	pmu.Unlock()
	defer pool.Stop()
	for t0 := time.Now(); !pool.Create(it); time.Sleep(time.Millisecond) {
		if time.Since(t0) > 30*time.Second {
			t.Fatal("Create refused")
		}
	}
	select {
	case <-x.done:
	case <-time.After(60 * time.Second):
		t.Fatal("script not completed")
	}
	if x.note != "" {
		fmt.Println("VERIF-CHILD-NOTE", x.note)
		return
	}
	fmt.Println("VERIF-CHILD-DONE")
}

func TestVerifC15ReproChild(t *testing.T) {
	if os.Getenv("VERIF_C15_CHILD") == "" {
		t.Skip("child of TestVerifC15Repro")
	}
	logger := logrus.New()
	logger.Out = io.Discard
	rawhost, err := ioutil.ReadFile("test/sshkey_vm")
	if err != nil {
		t.Fatal(err)
	}
	hostpriv, err := ssh.ParsePrivateKey(rawhost)
	if err != nil {
		t.Fatal(err)
	}
	sd := &test.StubDriver{HostKey: hostpriv}
	it := test.InstanceType(1)
	cluster := &arvados.Cluster{
		Containers: arvados.ContainersConfig{
			CrunchRunCommand: "crunch-run",
			CloudVMs: arvados.CloudVMsConfig{
				SyncInterval:       arvados.Duration(5 * time.Millisecond),
				ProbeInterval:      arvados.Duration(2 * time.Millisecond),
				MaxProbesPerSecond: 1000,
				TimeoutIdle:        arvados.Duration(time.Hour),
				TimeoutBooting:     arvados.Duration(time.Hour),
				TimeoutProbe:       arvados.Duration(time.Hour),
				TagKeyPrefix:       "test:",
			},
		},
		InstanceTypes: arvados.InstanceTypeMap{it.Name: it},
	}
	arvadostest.SetServiceURL(&cluster.Services.Controller, "https://"+os.Getenv("ARVADOS_API_HOST")+"/")
	arvClient, _ := arvados.NewClientFromConfig(cluster)
	arvClient.AuthToken = arvadostest.AdminToken
	sis, err := sd.InstanceSet(nil, "verif-repro", nil, logger)
	if err != nil {
		t.Fatal(err)
	}
	uuid := test.ContainerUUID(1)
	x := &vReproExec{uuid: uuid, release: make(chan struct{}), done: make(chan struct{})}
	_ = ctxlog.Context(context.Background(), logger)
	pool := worker.NewPool(logger, arvClient, prometheus.NewRegistry(), "verif-repro", sis,
		func(cloud.Instance) worker.Executor { return x }, nil, cluster)
	defer pool.Stop()
	notify := pool.Subscribe()
	if !pool.Create(it) {
		t.Fatal("Create refused")
	}
	ctr := arvados.Container{UUID: uuid, State: arvados.ContainerStateLocked, Priority: 1}
	deadline := time.After(60 * time.Second)
	for started := false; !started; {
		started = pool.StartContainer(it, ctr)
		if !started {
			select {
			case <-notify:
			case <-time.After(5 * time.Millisecond):
			case <-deadline:
				t.Fatal("worker never became idle")
			}
		}
	}
	select {
	case <-x.done:
	case <-deadline:
		t.Fatal("script not completed")
	}
	fmt.Println("VERIF-CHILD-DONE")
}

func TestVerifC15Repro(t *testing.T) {
	out, err := os.Create(os.Getenv("VERIF_TRACES"))
	if err != nil {
		t.Fatal(err)
	}
	defer out.Close()
	w := func(m map[string]interface{}) {
		b, _ := json.Marshal(m)
		out.WriteString(string(b) + "\n")
	}
	for _, sc := range []struct {
		id    int
		child string
	}{{9001, "^TestVerifC15ReproChild$"}, {9002, "^TestVerifC15Repro2Child$"}} {
		cmd := exec.Command(os.Args[0], "-test.run", sc.child, "-test.timeout", "5m")
		cmd.Env = append(os.Environ(), "VERIF_C15_CHILD=1")
		cout, cerr := cmd.CombinedOutput()
		w(map[string]interface{}{"ev": "reset", "scn": sc.id, "nc": 1, "nw": 1, "init": []string{"Locked"}, "mode": "sound"})
		if cerr == nil && strings.Contains(string(cout), "VERIF-CHILD-DONE") {
			w(map[string]interface{}{"ev": "final", "timedout": false, "notfinal": []int{}, "instances": 0, "repro": true})
		} else if msg, where, code := vClassifyDeath(string(cout)); code {
			w(map[string]interface{}{"ev": "crashed", "msg": msg, "where": where, "scn": sc.id})
		} else {
			// neither survived nor died of a panic in the code under test: the script could not be
			// applied (or the run itself failed): infrastructure, not an observation
			tail := string(cout)
			if len(tail) > 1500 {
				tail = tail[len(tail)-1500:]
			}
			fmt.Printf("VERIF-NOTE repro scenario %d not applicable: %s\n", sc.id, tail)
			w(map[string]interface{}{"ev": "infra", "what": "regression scenario not applicable", "scn": sc.id})
		}
	}
	fmt.Println("VERIF-DRIVER-DONE")
}
