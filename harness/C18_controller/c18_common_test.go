//go:build verif

// Shared part of the C18 drivers (DESIGN.md section 6, C18); the same file is kept in
// harness/C18_federation (Conn.CollectionGet) and harness/C18_controller (legacy
// fetchRemoteCollectionByPDH/ByUUID); only the package clause differs, checks/C18.py verifies that.
//
// Concretiser: vC18GenManifest / render / vC18Tamper.
// Abstraction (trusted base, kept small):
//   vC18PDH   independent portable data hash: line/field tokenizer, hints of block locators dropped
//   vC18Rel   token-wise "only +A<sig> became +R<id>-<sig>" relation between what a backend sent and
//             what the client got
//   vC18Shape input class of the manifests sent (known-finding matching)

package controller

import (
	"crypto/md5"
	"fmt"
	"math/rand"
	"strings"
)

// ---------------------------------------------------------------- manifest concretiser

func vC18Hex(rng *rand.Rand, n int) string {
	const d = "0123456789abcdef"
	b := make([]byte, n)
	for i := range b {
		b[i] = d[rng.Intn(16)]
	}
	return string(b)
}

type vC18Block struct {
	hash string
	size int
}

// an honest manifest as a list of lines of tokens, block locators without hints
type vC18Manifest struct {
	streams []string
	blocks  [][]vC18Block
	files   [][]string
}

var vC18Names = []string{"foo", "bar.txt", `a\040b`, "x+Ay@z", "d41d8cd98f00b204e9800998ecf8427e+0", "+A", `dir/sub/f\134g`, "0:0:f", "R+K"}
var vC18Streams = []string{".", "./d", "./d+Ax@1", `./a\040b/c`, "./acbd18db4cc2f85cedef654fccc4a4d8+3"}

func vC18GenManifest(rng *rand.Rand) vC18Manifest {
	var m vC18Manifest
	ns := 1 + rng.Intn(3)
	for s := 0; s < ns; s++ {
		name := vC18Streams[rng.Intn(len(vC18Streams))]
		if s == 0 && rng.Intn(2) == 0 {
			name = "."
		}
		m.streams = append(m.streams, name)
		nb := 1 + rng.Intn(3)
		var bl []vC18Block
		total := 0
		for i := 0; i < nb; i++ {
			sz := []int{0, 1, 3, 10, 67108864}[rng.Intn(5)]
			h := vC18Hex(rng, 32)
			if sz == 0 {
				h = "d41d8cd98f00b204e9800998ecf8427e"
			}
			bl = append(bl, vC18Block{h, sz})
			total += sz
		}
		m.blocks = append(m.blocks, bl)
		nf := 1 + rng.Intn(3)
		var fl []string
		for i := 0; i < nf; i++ {
			pos := 0
			if total > 0 {
				pos = rng.Intn(total)
			}
			ln := 0
			if total-pos > 0 {
				ln = rng.Intn(total - pos + 1)
			}
			fl = append(fl, fmt.Sprintf("%d:%d:%s", pos, ln, vC18Names[rng.Intn(len(vC18Names))]))
		}
		m.files = append(m.files, fl)
	}
	return m
}

// text of the manifest as backend `who` would send it: its own signatures and other hints
func (m vC18Manifest) render(rng *rand.Rand, who int) string {
	var sb strings.Builder
	for s := range m.streams {
		sb.WriteString(m.streams[s])
		for _, b := range m.blocks[s] {
			loc := fmt.Sprintf("%s+%d", b.hash, b.size)
			sig := fmt.Sprintf("+A%s@%08x", vC18Hex(rng, 40), 0x60000000+rng.Intn(1<<20)+who)
			switch rng.Intn(7) {
			case 0: // unsigned
			case 1:
				loc += sig
			case 2:
				loc += "+Kzzzzz" + sig
			case 3:
				loc += sig + "+Bfoo-bar"
			case 4:
				loc += "+Kzzzzz" // other hint only
			case 5:
				loc += "+Rzzzzz-" + vC18Hex(rng, 40) + "@5f000000" + sig // already carries a remote hint
			default:
				loc += sig + "+C1@2" + fmt.Sprintf("+A%s@%08x", vC18Hex(rng, 40), 0x61000000+who)
			}
			sb.WriteString(" " + loc)
		}
		for _, f := range m.files[s] {
			sb.WriteString(" " + f)
		}
		sb.WriteString("\n")
	}
	return sb.String()
}

// one single-token tampering of a manifest text
func vC18Tamper(rng *rand.Rand, mt string) string {
	lines := strings.Split(strings.TrimSuffix(mt, "\n"), "\n")
	li := rng.Intn(len(lines))
	toks := strings.Split(lines[li], " ")
	ti := rng.Intn(len(toks))
	t := toks[ti]
	flip := func(c byte) byte {
		switch {
		case c == '9':
			return '0'
		case c == 'f':
			return 'a'
		case c == 'z':
			return 'y'
		default:
			return c + 1
		}
	}
	trailing := "\n"
	switch rng.Intn(8) {
	case 0, 1, 2: // alter one character of the token
		if len(t) > 0 {
			i := rng.Intn(len(t))
			c := t[i]
			if (c >= '0' && c <= '9') || (c >= 'a' && c <= 'z') {
				t = t[:i] + string(flip(c)) + t[i+1:]
			} else if vC18IsHex32(t) {
				// a block locator: its separators are left alone ("hash+size" directly followed by
				// junk is read as a hint by the Go definition of the portable data hash and as
				// part of the size by others; the statement does not say which) - alter the hash
				j := rng.Intn(32)
				t = t[:j] + string(flip(t[j])) + t[j+1:]
			} else {
				t = t[:i] + "x" + t[i+1:]
			}
		}
		toks[ti] = t
	case 3: // drop the token
		toks = append(toks[:ti:ti], toks[ti+1:]...)
	case 4: // repeat the token
		toks = append(toks[:ti+1:ti+1], toks[ti:]...)
	case 5: // swap with a neighbour
		if ti+1 < len(toks) {
			toks[ti], toks[ti+1] = toks[ti+1], toks[ti]
		} else if ti > 0 {
			toks[ti], toks[ti-1] = toks[ti-1], toks[ti]
		}
	case 6: // extra token
		toks = append(toks, "0:0:extra")
	default: // whitespace
		if rng.Intn(2) == 0 {
			trailing = ""
		} else {
			toks[ti] = t + " "
		}
	}
	lines[li] = strings.Join(toks, " ")
	return strings.Join(lines, "\n") + trailing
}

// ---------------------------------------------------------------- abstraction functions

func vC18IsHex32(s string) bool {
	if len(s) < 32 {
		return false
	}
	for i := 0; i < 32; i++ {
		c := s[i]
		if !((c >= '0' && c <= '9') || (c >= 'a' && c <= 'f')) {
			return false
		}
	}
	return true
}

// independent portable data hash (manifest format: md5 and length of the text with every block
// locator reduced to hash+size)
func vC18PDH(mt string) string {
	lines := strings.Split(mt, "\n")
	for i, line := range lines {
		toks := strings.Split(line, " ")
		for j := 1; j < len(toks); j++ {
			t := toks[j]
			if !vC18IsHex32(t) || len(t) < 34 || t[32] != '+' {
				continue
			}
			parts := strings.Split(t, "+")
			digits := parts[1] != ""
			for _, c := range parts[1] {
				if c < '0' || c > '9' {
					digits = false
				}
			}
			if digits {
				toks[j] = parts[0] + "+" + parts[1]
			}
		}
		lines[i] = strings.Join(toks, " ")
	}
	stripped := strings.Join(lines, "\n")
	return fmt.Sprintf("%x+%d", md5.Sum([]byte(stripped)), len(stripped))
}

// hash+size part of a requested portable data hash
func vC18HashSize(req string) string {
	parts := strings.Split(req, "+")
	if len(parts) < 2 {
		return req
	}
	return parts[0] + "+" + parts[1]
}

// a well-formed block locator: 32 hex digits, +size, then hints +<capital letter>...
func vC18WellFormedLocator(t string) bool {
	if !vC18IsHex32(t) || len(t) < 34 || t[32] != '+' {
		return false
	}
	parts := strings.Split(t, "+")
	if parts[1] == "" {
		return false
	}
	for _, c := range parts[1] {
		if c < '0' || c > '9' {
			return false
		}
	}
	for _, p := range parts[2:] {
		if p == "" || p[0] < 'A' || p[0] > 'Z' {
			return false
		}
	}
	return true
}

// a well-formed permission hint (without the '+'): A<40 hex>@<8 hex>
func vC18WellFormedSig(p string) bool {
	if len(p) != 50 || p[0] != 'A' || p[41] != '@' {
		return false
	}
	for i, c := range p[1:] {
		if i == 40 {
			continue
		}
		if !((c >= '0' && c <= '9') || (c >= 'a' && c <= 'f')) {
			return false
		}
	}
	return true
}

// got is sent with each +A hint of a block locator turned into +R<id>-, nothing else changed.
// A well-formed permission hint of a well-formed locator in locator position (after the stream name,
// before the first file token) MUST be rewritten;
// for anything else that merely looks like it ("+A..." inside a malformed locator-like token, a
// malformed "+A" hint) both the rewritten and the untouched form are accepted - the statement speaks
// about permission hints +A<signature>@<expiry>, a stricter parser than the current regexp is as good.
func vC18Rel(sent, got, id string, remote bool) bool {
	if !remote {
		return sent == got
	}
	sl, gl := strings.Split(sent, "\n"), strings.Split(got, "\n")
	if len(sl) != len(gl) {
		return false
	}
	for i := range sl {
		st, gt := strings.Split(sl[i], " "), strings.Split(gl[i], " ")
		if len(st) != len(gt) {
			return false
		}
		locpos := true // j is in locator position: every token between the stream name and j is locator-like
		for j := range st {
			locatorLike := j >= 1 && vC18IsHex32(st[j]) && len(st[j]) > 32 && st[j][32] == '+'
			inLocPos := locpos && locatorLike
			if j >= 1 && !locatorLike {
				locpos = false
			}
			if st[j] == gt[j] && !(inLocPos && vC18WellFormedLocator(st[j])) {
				continue // untouched, and nothing in it had to be rewritten
			}
			if !locatorLike {
				return false // not locator-like: must be untouched
			}
			sp, gp := strings.Split(st[j], "+"), strings.Split(gt[j], "+")
			if len(sp) != len(gp) {
				return false
			}
			wf := inLocPos && vC18WellFormedLocator(st[j]) // elsewhere (after a file token): both forms accepted
			for k := range sp {
				rewritten := "R" + id + "-" + strings.TrimPrefix(sp[k], "A")
				switch {
				case k >= 2 && wf && vC18WellFormedSig(sp[k]):
					if gp[k] != rewritten {
						return false
					}
				case k >= 1 && strings.HasPrefix(sp[k], "A"):
					if gp[k] != rewritten && gp[k] != sp[k] {
						return false
					}
				default:
					if gp[k] != sp[k] {
						return false
					}
				}
			}
		}
	}
	return true
}

// input class of the manifests sent (for known-finding matching):
//   loc_eol_plusA_stream  a block locator is the last token of a line and the stream name on the next
//                         line contains "+A" (malformed: no file token follows)
//   no_final_newline      a manifest does not end with a newline
func vC18Shape(sent map[int]string) string {
	for _, mt := range sent {
		lines := strings.Split(mt, "\n")
		for i := 0; i+1 < len(lines); i++ {
			toks := strings.Split(lines[i], " ")
			last := toks[len(toks)-1]
			next := strings.Split(lines[i+1], " ")[0]
			if len(toks) > 1 && vC18IsHex32(last) && len(last) > 32 && last[32] == '+' && strings.Contains(next, "+A") {
				return "loc_eol_plusA_stream"
			}
		}
	}
	for _, mt := range sent {
		if !strings.HasSuffix(mt, "\n") {
			return "no_final_newline"
		}
	}
	return "plain"
}

