//go:build verif

// RUN stage of C18, legacy path (DESIGN.md section 6, C18 "the legacy path is bound the same way
// through Handler"): drives lib/controller/fed_collections.go - fetchRemoteCollectionByPDH and
// fetchRemoteCollectionByUUID with rewriteSignatures - through the real handler stack
// (Handler.setupProxyRemoteCluster -> genericFederatedRequestHandler -> delegates ->
// localClusterRequest / remoteClusterRequest -> saltAuthToken -> proxy.Do) against gated HTTP
// servers standing in for the local Rails API (backend 0) and the remote clusters (1..n), and
// records the abstract trace judged by specs/federation/FedFetchTrace.tla (FedFetchContract).
//
// Scenario format: as harness/C18_federation/fetch_driver_test.go (FedFetch.tla with
// Variant = "legacy").  `style` "legacy" restricts the generated manifests to what the legacy
// hashing can digest (see vL18Digestible).  The driver decides nothing.
//
// Soundness of the event order: an "answer" is logged by the server handler immediately before
// it writes the response.  A response can still be lost if the client side was cancelled in
// between, therefore the driver never releases an answer after it has cancelled the request.

package controller

import (
	"context"
	"encoding/json"
	"fmt"
	"math/rand"
	"net/http"
	"net/http/httptest"
	"net/url"
	"os"
	"runtime/debug"
	"strings"
	"sync"
	"testing"
	"time"

	"git.arvados.org/arvados.git/sdk/go/arvados"
)

type vL18Step struct {
	B int    `json:"b"`
	K string `json:"k"`
}

type vL18Scenario struct {
	ID    int        `json:"id"`
	N     int        `json:"n"`
	Mode  string     `json:"mode"`
	Home  int        `json:"home"`
	Plan  []string   `json:"plan"`
	Steps []vL18Step `json:"steps"`
	Req   string     `json:"req"`
	RSeed int64      `json:"rseed"`
	Craft string     `json:"craft"`
	MM    string     `json:"mm"` // "empty": a mismatch answer is a collection with an empty manifest text
	Seq   bool       `json:"seq"`
}

type vL18Answer struct {
	kind     string
	status   int
	body     string
	manifest string
}

type vL18Arrival struct {
	b       int
	release chan vL18Answer
}

type vL18Gate struct {
	mu       sync.Mutex
	closed   bool
	events   []map[string]interface{}
	arrivals chan *vL18Arrival
	sent     map[int]string
	inflight int
	tag      string
}

func (g *vL18Gate) log(ev map[string]interface{}) {
	g.mu.Lock()
	defer g.mu.Unlock()
	if !g.closed {
		g.events = append(g.events, ev)
	}
}

// one set of servers per worker; the gate of the scenario being run is swapped in
type vL18Worker struct {
	mu      sync.Mutex
	gate    *vL18Gate
	servers []*httptest.Server
	hosts   []string
	client  *http.Client
}

func vL18NewWorker() *vL18Worker {
	wk := &vL18Worker{client: &http.Client{CheckRedirect: neverRedirect, Transport: &http.Transport{MaxIdleConnsPerHost: 8}}}
	for b := 0; b < 5; b++ {
		b := b
		srv := httptest.NewServer(http.HandlerFunc(func(w http.ResponseWriter, r *http.Request) {
			wk.mu.Lock()
			g := wk.gate
			wk.mu.Unlock()
			if g == nil || r.Header.Get("X-Verif-Scn") != g.tag {
				// a straggler of an earlier scenario of this worker
				http.Error(w, "verif: no such scenario", http.StatusServiceUnavailable)
				return
			}
			g.mu.Lock()
			g.inflight++
			if !g.closed {
				g.events = append(g.events, map[string]interface{}{"ev": "ask", "b": b})
			}
			closed := g.closed
			g.mu.Unlock()
			defer func() {
				g.mu.Lock()
				g.inflight--
				g.mu.Unlock()
			}()
			if closed {
				http.Error(w, "verif: scenario over", http.StatusServiceUnavailable)
				return
			}
			a := &vL18Arrival{b: b, release: make(chan vL18Answer, 1)}
			g.arrivals <- a
			select {
			case ans := <-a.release:
				g.mu.Lock()
				if !g.closed {
					g.events = append(g.events, map[string]interface{}{"ev": "answer", "b": b, "k": ans.kind})
					if ans.status == http.StatusOK {
						g.sent[b] = ans.manifest
					}
				}
				g.mu.Unlock()
				w.Header().Set("Content-Type", "application/json")
				w.WriteHeader(ans.status)
				w.Write([]byte(ans.body))
			case <-r.Context().Done():
				g.log(map[string]interface{}{"ev": "answer", "b": b, "k": "cancelled"})
			}
		}))
		u, _ := url.Parse(srv.URL)
		wk.servers = append(wk.servers, srv)
		wk.hosts = append(wk.hosts, u.Host)
	}
	return wk
}

// rewriteSignatures hashes "hash+size" for locators matching keepclient.SignedLocatorRe and every
// other token verbatim: an honest manifest is digestible by it iff every hinted locator carries
// exactly one +A hint, placed after any other hint... (the two render styles excluded here are
// "+K hint without signature" and "two +A hints"); see checks/C18.py assumptions.
func vL18Digestible(mt string) bool {
	for _, line := range strings.Split(mt, "\n") {
		toks := strings.Split(line, " ")
		for j := 1; j < len(toks); j++ {
			t := toks[j]
			if !vC18IsHex32(t) || len(t) < 34 || t[32] != '+' {
				continue
			}
			parts := strings.Split(t, "+")
			nA := 0
			for _, p := range parts[2:] {
				if strings.HasPrefix(p, "A") {
					nA++
				}
			}
			if len(parts) > 2 && nA != 1 {
				return false
			}
		}
	}
	return true
}

func vL18Run(wk *vL18Worker, scn vL18Scenario) []map[string]interface{} {
	rng := rand.New(rand.NewSource(int64(scn.ID)*104729 + scn.RSeed))
	g := &vL18Gate{arrivals: make(chan *vL18Arrival, 64), sent: map[int]string{}, tag: fmt.Sprint(scn.ID)}
	wk.mu.Lock()
	wk.gate = g
	wk.mu.Unlock()
	ids := []string{"aaaaa", "bbbbb", "ccccc", "ddddd", "eeeee"}
	cluster := &arvados.Cluster{ClusterID: ids[0], RemoteClusters: map[string]arvados.RemoteCluster{}}
	cluster.Services.RailsAPI.InternalURLs = map[arvados.URL]arvados.ServiceInstance{
		arvados.URL(url.URL{Scheme: "http", Host: wk.hosts[0]}): {}}
	for b := 1; b <= scn.N; b++ {
		cluster.RemoteClusters[ids[b]] = arvados.RemoteCluster{Host: wk.hosts[b], Scheme: "http", Proxy: true}
	}
	if scn.ID%4 == 0 {
		// entries the code must skip
		cluster.RemoteClusters["*"] = arvados.RemoteCluster{Proxy: true}
		cluster.RemoteClusters[ids[0]] = arvados.RemoteCluster{Host: wk.hosts[0], Scheme: "http"}
	}
	// MaxRequestAmplification 1 makes the remote requests sequential: then the order of answers
	// cannot be chosen, the scenario's steps are ignored and every call is answered as planned
	cluster.API.MaxRequestAmplification = []int{0, 4, 8}[scn.ID%3]
	if scn.Seq {
		cluster.API.MaxRequestAmplification = 1
	}
	h := &Handler{Cluster: cluster}
	h.proxy = &proxy{Name: "arvados-controller"}
	h.secureClient = wk.client // one client per worker: connections are kept alive across scenarios
	h.insecureClient = h.secureClient
	fellThrough := false
	stack := h.setupProxyRemoteCluster(http.HandlerFunc(func(w http.ResponseWriter, r *http.Request) {
		fellThrough = true
		http.Error(w, "verif: local handler stack", http.StatusNotFound)
	}))

	// an honest manifest the legacy hashing can digest
	var honest vC18Manifest
	var probe string
	for try := 0; ; try++ {
		honest = vC18GenManifest(rng)
		probe = honest.render(rng, 0)
		if vL18Digestible(probe) || try > 200 {
			break
		}
	}
	truePDH := vC18PDH(probe)
	var request string
	if scn.Mode == "uuid" {
		request = fmt.Sprintf("%s-4zz18-%015d", ids[scn.Home], rng.Intn(1000000))
	} else {
		hash, size := strings.Split(truePDH, "+")[0], strings.Split(truePDH, "+")[1]
		switch scn.Req {
		case "hexoff":
			i := rng.Intn(32)
			c := hash[i]
			if c == 'f' {
				c = '0'
			} else if c == '9' {
				c = 'a'
			} else {
				c++
			}
			request = hash[:i] + string(c) + hash[i+1:] + "+" + size
		case "len":
			if rng.Intn(2) == 0 || len(size) == 1 {
				request = hash + "+" + size + "0"
			} else {
				request = hash + "+" + size[:len(size)-1]
			}
		default:
			request = truePDH
		}
	}
	want := vC18HashSize(request)
	g.events = append(g.events, map[string]interface{}{"ev": "reset", "scn": scn.ID, "n": scn.N, "mode": scn.Mode,
		"home": scn.Home, "req": scn.Req, "path": "legacy"})

	parent, cancelParent := context.WithCancel(context.Background())
	defer cancelParent()
	done := make(chan struct{})
	go func() {
		defer close(done)
		defer func() {
			if r := recover(); r != nil {
				g.log(map[string]interface{}{"ev": "panic", "what": fmt.Sprint(r), "stack": string(debug.Stack())})
			}
		}()
		req := httptest.NewRequest("GET", "http://controller.example/arvados/v1/collections/"+request, nil).WithContext(parent)
		req.Header.Set("X-Verif-Scn", g.tag)
		req.Header.Set("Authorization", "Bearer v2/"+ids[0]+"-gj3su-000000000000000/"+vC18Hex(rng, 50))
		w := httptest.NewRecorder()
		stack.ServeHTTP(w, req)
		var c arvados.Collection
		ok := w.Code == http.StatusOK && json.Unmarshal(w.Body.Bytes(), &c) == nil
		g.mu.Lock()
		rel := make([]bool, 5)
		if ok {
			for b, sent := range g.sent {
				rel[b] = vC18Rel(sent, c.ManifestText, ids[b], b != 0)
			}
		}
		shape := vC18Shape(g.sent)
		g.mu.Unlock()
		ev := map[string]interface{}{"ev": "done", "ok": ok, "pdhOK": ok && vC18PDH(c.ManifestText) == want,
			"rel": rel, "shape": shape, "status": w.Code, "fellthrough": fellThrough}
		if os.Getenv("VERIF_C18_DEBUG") != "" {
			// replay aid: the concrete texts
			g.mu.Lock()
			sent := map[string]string{}
			for b, m := range g.sent {
				sent[fmt.Sprint(b)] = m
			}
			g.mu.Unlock()
			ev["dbg_request"], ev["dbg_body"], ev["dbg_sent"] = request, w.Body.String(), sent
		}
		g.log(ev)
	}()

	answerOf := func(b int) (vL18Answer, bool) {
		plan := "s404"
		if b < len(scn.Plan) {
			plan = scn.Plan[b]
		}
		switch plan {
		case "s404":
			return vL18Answer{kind: "s404", status: http.StatusNotFound, body: `{"errors":["not found"]}`}, true
		case "s5xx":
			return vL18Answer{kind: "s5xx", status: []int{500, 502, 503}[rng.Intn(3)], body: `{"errors":["verif: scripted error"]}`}, true
		case "hang":
			return vL18Answer{}, false
		}
		var mt string
		for try := 0; ; try++ {
			mt = honest.render(rng, b)
			if vL18Digestible(mt) || try > 200 {
				break
			}
		}
		// the record's own portable_data_hash: an honest backend reports the true one; a dishonest
		// one either keeps the honest value or claims what was asked for
		field := arvados.PortableDataHash(mt)
		if plan == "mismatch" {
			mt = vC18Tamper(rng, mt)
			if scn.MM == "empty" {
				mt = "" // 200 with the manifest stripped
			}
			if scn.Mode == "pdh" && rng.Intn(2) == 0 {
				field = want
			}
		}
		if scn.Craft == "loc_eol" {
			mt = fmt.Sprintf(". %s+3+A%s@5fffffff 0:3:foo %s+4+A%s@5fffffff\n./d+Ax@1 %s+1+A%s@5fffffff 0:1:bar\n",
				vC18Hex(rng, 32), vC18Hex(rng, 40), vC18Hex(rng, 32), vC18Hex(rng, 40), vC18Hex(rng, 32), vC18Hex(rng, 40))
			field = arvados.PortableDataHash(mt)
		}
		if scn.Craft == "no_final_newline" {
			// the honest manifest with its last newline cut off
			mt = strings.TrimSuffix(honest.render(rng, b), "\n")
			for try := 0; !vL18Digestible(mt) && try < 200; try++ {
				mt = strings.TrimSuffix(honest.render(rng, b), "\n")
			}
			field = want
		}
		kind := "mismatch"
		if scn.Mode == "uuid" || vC18PDH(mt) == want {
			kind = "match"
		}
		body, _ := json.Marshal(map[string]interface{}{"kind": "arvados#collection", "uuid": ids[b] + "-4zz18-000000000000000",
			"portable_data_hash": field, "manifest_text": mt})
		return vL18Answer{kind: kind, status: http.StatusOK, body: string(body), manifest: mt}, true
	}

	pending := map[int]*vL18Arrival{}
	isDone := func() bool {
		select {
		case <-done:
			return true
		default:
			return false
		}
	}
	waitFor := func(b int) bool {
		deadline := time.After(3 * time.Second)
		for pending[b] == nil {
			select {
			case a := <-g.arrivals:
				pending[a.b] = a
			case <-done:
				return false
			case <-deadline:
				return false
			}
		}
		return true
	}
	// A backend planned to "hang" answers only when the client is gone or, if the request cannot end
	// otherwise, last and with a 5xx (a gateway timeout).  The client never cancels: over HTTP an
	// answer released just before a cancellation could be logged and still be lost.
	unused := 0
	hung := map[int]*vL18Arrival{}
	late5xx := func() {
		for b, a := range hung {
			delete(hung, b)
			a.release <- vL18Answer{kind: "s5xx", status: http.StatusGatewayTimeout, body: `{"errors":["verif: timeout"]}`}
		}
	}
	for i, st := range scn.Steps {
		if scn.Seq {
			break
		}
		if st.K == "cancel" {
			// the model's "client gives up": every call still outstanding hangs
			for b := 1; b <= scn.N; b++ {
				if b < len(scn.Plan) && scn.Plan[b] == "hang" && hung[b] == nil && waitFor(b) {
					hung[b] = pending[b]
					delete(pending, b)
				}
			}
			if scn.Plan[0] == "hang" && hung[0] == nil && waitFor(0) {
				hung[0] = pending[0]
				delete(pending, 0)
			}
			late5xx()
			continue
		}
		if st.K == "cancelled" {
			continue
		}
		if !waitFor(st.B) {
			unused = len(scn.Steps) - i
			break
		}
		a := pending[st.B]
		delete(pending, st.B)
		if ans, ok := answerOf(st.B); ok {
			a.release <- ans
		} else {
			hung[st.B] = a
		}
	}
	for !isDone() {
		select {
		case a := <-g.arrivals:
			if ans, ok := answerOf(a.b); ok {
				a.release <- ans
			} else {
				hung[a.b] = a
			}
		case <-done:
		case <-time.After(60 * time.Millisecond):
			for b, a := range pending {
				delete(pending, b)
				if ans, ok := answerOf(b); ok {
					a.release <- ans
				} else {
					hung[b] = a
				}
			}
			if len(hung) > 0 {
				late5xx()
				continue
			}
			select {
			case a := <-g.arrivals:
				pending[a.b] = a
			case <-done:
			case <-time.After(20 * time.Second):
				g.log(map[string]interface{}{"ev": "hang"})
				goto finish
			}
		}
	}
finish:
	cancelParent()
	// abandoned calls end through their cancelled requests; wait for the handlers so that they do
	// not run into the next scenario of this worker
	for i := 0; i < 2000; i++ {
		g.mu.Lock()
		n := g.inflight
		g.mu.Unlock()
		if n == 0 {
			break
		}
		time.Sleep(time.Millisecond)
	}
	g.mu.Lock()
	g.closed = true
	evs := g.events
	g.mu.Unlock()
	if unused > 0 {
		evs[0]["unused_steps"] = unused
	}
	return evs
}

func TestVerifC18Legacy(t *testing.T) {
	var scns []vL18Scenario
	vReadNDJSON(os.Getenv("VERIF_SCENARIOS"), func() interface{} { scns = append(scns, vL18Scenario{}); return &scns[len(scns)-1] })
	out := vNewTraceWriter(os.Getenv("VERIF_TRACES"))
	defer out.Close()
	const par = 8
	res := make([][]map[string]interface{}, len(scns))
	var wg sync.WaitGroup
	next := make(chan int)
	for w := 0; w < par; w++ {
		wg.Add(1)
		go func() {
			defer wg.Done()
			wk := vL18NewWorker()
			defer func() {
				for _, s := range wk.servers {
					s.Close()
				}
			}()
			for i := range next {
				res[i] = vL18Run(wk, scns[i])
			}
		}()
	}
	for i := range scns {
		next <- i
	}
	close(next)
	wg.Wait()
	for _, evs := range res {
		for _, ev := range evs {
			out.Write(ev)
		}
	}
	fmt.Println("VERIF-DRIVER-DONE scenarios:", len(scns))
}
