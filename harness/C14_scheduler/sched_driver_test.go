//go:build verif

// RUN stage of C14, binding (i): the REAL Scheduler stepped through behaviours of
// specs/dispatch/Dispatch.tla (Gen configuration: SpecAtomic, AtomicQueue) against vSim.
//
// Scenario: {id, nc, nw, init [state per container], steps [{a, c, w, x}]}.
// Scheduler steps are executed by the real code:
//   rq            sch.runQueue()        (the following rqvisit/rqstart/rqend/rqtail* steps are its inside)
//   sync          sch.sync()
//   fixiter ...   sch.fixStaleLocks() in a goroutine, advanced by pool notifications
//   gostart       nothing to do: the goroutines lockContainer/cancel/kill/requeue started by the
//                 real code have already reached their latch
//   apicommit     the pending queue.Lock/Unlock/Cancel call of container c is answered
//   apifail       ... with an error and no effect
// Environment steps change vSim (if enabled there; otherwise they are counted as skipped):
//   usercancel userhold procrunning procfinalize procend proccrash vmboot vmbreak vmreportbroken opsetib update syncfail
//   probestart probeend startexec killtick idleshutdown opkill destroyok instancegone restart
// Random scenarios (mode "random"): the driver draws enabled steps itself with a seeded generator
// over larger instances; same recording.
// The driver decides nothing; the recorded events are judged by specs/dispatch/DispatchTrace.tla.

package scheduler

import (
	"context"
	"errors"
	"fmt"
	"io"
	"math/rand"
	"os"
	"runtime"
	"testing"
	"time"

	"git.arvados.org/arvados.git/sdk/go/ctxlog"
	"github.com/sirupsen/logrus"
)

type vStep struct {
	A string `json:"a"`
	C int    `json:"c"`
	W int    `json:"w"`
	X string `json:"x"`
}

type vSchedScenario struct {
	ID    int      `json:"id"`
	NC    int      `json:"nc"`
	NW    int      `json:"nw"`
	Init  []string `json:"init"`
	Steps []vStep  `json:"steps"`
	Mode  string   `json:"mode"`
	RSeed int64    `json:"rseed"`
	N     int      `json:"n"`
	// random mode: which fault classes may occur
	Restarts int  `json:"restarts"`
	StaleTO  bool `json:"staleto"`
}

type vSchedRun struct {
	s       *vSim
	sch     *Scheduler
	ctx     context.Context
	phase   string // boot fix run
	fixDone chan struct{}
	fixOn   bool
	staleTO time.Duration
	skipped int
	kfclass bool
	applied int
	base    int
}

func (r *vSchedRun) newScheduler() {
	r.sch = New(r.ctx, vSimQueue{r.s}, vSimPool{r.s}, nil, r.staleTO, time.Hour)
	r.phase = "boot"
	r.fixOn = false
}

// wait until the goroutines started by the scheduler are blocked in a gate or have ended
func (r *vSchedRun) settle() bool {
	deadline := time.Now().Add(20 * time.Second)
	for {
		r.s.mu.Lock()
		ng := len(r.s.gates)
		r.s.mu.Unlock()
		extra := 0
		if r.fixOn {
			extra = 1
		}
		if runtime.NumGoroutine() <= r.base+ng+extra {
			return true
		}
		if time.Now().After(deadline) {
			return false
		}
		time.Sleep(20 * time.Microsecond)
	}
}

func (r *vSchedRun) answer(c int, fail bool) bool {
	s := r.s
	s.mu.Lock()
	var g *vGate
	for i, x := range s.gates {
		if x.c == c {
			g = x
			s.gates = append(s.gates[:i], s.gates[i+1:]...)
			break
		}
	}
	if g == nil {
		s.mu.Unlock()
		return false
	}
	var err error
	if fail {
		err = errors.New("verif: API call failed")
	} else {
		err = s.apiCall(g.c, g.kind)
	}
	s.mu.Unlock()
	g.done <- err
	return r.settle()
}

// one iteration of fixStaleLocks: returns when the goroutine has read the queue again or has ended
func (r *vSchedRun) fixAdvance(first bool) {
	s := r.s
	s.mu.Lock()
	n0 := s.nEntries
	s.mu.Unlock()
	if first {
		r.fixDone = make(chan struct{})
		r.fixOn = true
		s.mu.Lock()
		s.direct = true
		s.mu.Unlock()
		go func() {
			r.sch.fixStaleLocks()
			close(r.fixDone)
		}()
	} else {
		s.mu.Lock()
		s.notify()
		s.mu.Unlock()
	}
	deadline := time.After(20 * time.Second)
	for {
		select {
		case <-r.fixDone:
			r.fixEnded()
			return
		case <-s.arrived:
			s.mu.Lock()
			n := s.nEntries
			s.mu.Unlock()
			if n > n0 {
				// the iteration's reads are done; it now waits for a notification or the timeout
				return
			}
		case <-deadline:
			return
		}
	}
}

func (r *vSchedRun) fixEnded() {
	r.fixOn = false
	r.phase = "run"
	r.s.mu.Lock()
	if !r.s.frozen && r.staleTO < time.Hour { // only where StaleLockTimeout can expire at all
		for x := 1; x <= r.s.nw; x++ {
			if r.s.wk[x].st == "unknown" {
				// fixStaleLocks returned while a worker was still unknown: the known class
				r.kfclass = true
			}
		}
	}
	r.s.direct = false
	r.s.mu.Unlock()
}

// the dispatcher process is gone (or the scenario is over) while fixStaleLocks is still waiting:
// let the goroutine run out with the API frozen, so that nothing it does has any effect
func (r *vSchedRun) killFix() {
	if !r.fixOn {
		return
	}
	s := r.s
	s.mu.Lock()
	s.frozen = true
	saved := map[int]string{}
	for x := 1; x <= s.nw; x++ {
		saved[x] = s.wk[x].st
		if s.wk[x].st == "unknown" {
			s.wk[x].st = "absent"
		}
	}
	s.notify()
	s.mu.Unlock()
	r.fixWaitEnd(20 * time.Second)
	s.mu.Lock()
	for x := 1; x <= s.nw; x++ {
		s.wk[x].st = saved[x]
	}
	s.frozen = false
	s.mu.Unlock()
}

func (r *vSchedRun) fixWaitEnd(d time.Duration) {
	if !r.fixOn {
		return
	}
	select {
	case <-r.fixDone:
		r.fixEnded()
	case <-time.After(d):
	}
}

// apply one step; false = not enabled here (skipped)
func (r *vSchedRun) apply(st vStep, ahead []vStep) bool {
	s := r.s
	c, w := st.C, st.W
	switch st.A {
	case "rq":
		if r.phase != "run" {
			return false
		}
		s.mu.Lock()
		s.direct = true
		s.hintCreate, s.hintShutdown, s.hintStart = nil, nil, map[int]int{}
		for _, a := range ahead {
			if a.A == "rqvisit" && a.W != 0 {
				s.hintCreate = append(s.hintCreate, a.W)
			} else if a.A == "rqstart" && a.W != 0 {
				s.hintStart[a.C] = a.W
			} else if a.A == "rqtailend" && a.W != 0 {
				s.hintShutdown = append(s.hintShutdown, a.W)
			} else if a.A == "sync" || a.A == "rq" {
				break
			}
		}
		s.mu.Unlock()
		r.sch.runQueue()
		s.mu.Lock()
		s.direct = false
		s.mu.Unlock()
		return r.settle()
	case "rqvisit", "rqstart", "rqend", "rqtail", "rqtailend", "gostart", "fixwake", "fixunlock":
		return true
	case "sync":
		if r.phase != "run" {
			return false
		}
		r.sch.sync()
		return r.settle()
	case "fixiter":
		if r.phase != "fix" {
			return false
		}
		r.fixAdvance(!r.fixOn)
		return true
	case "fixtimeout", "fixdone":
		if r.phase != "fix" {
			return false
		}
		if !r.fixOn {
			r.fixAdvance(true)
		} else if st.A == "fixdone" {
			s.mu.Lock()
			s.notify()
			s.mu.Unlock()
		}
		r.fixWaitEnd(2 * time.Second)
		return !r.fixOn
	case "apicommit":
		return r.answer(c, false)
	case "apifail":
		return r.answer(c, true)
	case "restart":
		// the old dispatcher's goroutines die with it: their pending API calls get an error
		s.mu.Lock()
		gs := s.gates
		s.gates = nil
		s.mu.Unlock()
		for _, g := range gs {
			g.done <- errors.New("verif: dispatcher gone")
		}
		r.killFix()
		r.settle()
		r.sch.wakeup.Stop()
		s.mu.Lock()
		s.resetDispatcher()
		s.ev(map[string]interface{}{"ev": "restart"})
		s.mu.Unlock()
		r.newScheduler()
		return true
	}
	s.mu.Lock()
	defer s.mu.Unlock()
	switch st.A {
	case "update":
		s.update()
		if r.phase == "boot" {
			r.phase = "fix"
		}
		return true
	case "usercancel":
		if a := s.api[c]; a.state == "Queued" || a.state == "Locked" || a.state == "Running" {
			s.setAPI(c, "Cancelled", a.prio)
			return true
		}
	case "userhold":
		if a := s.api[c]; a.prio > 0 && (a.state == "Queued" || a.state == "Locked" || a.state == "Running") {
			s.setAPI(c, a.state, 0)
			return true
		}
	case "procrunning":
		if s.procs[w][c] && s.api[c].state == "Locked" {
			s.setAPI(c, "Running", s.api[c].prio)
			return true
		}
	case "procfinalize":
		if s.procs[w][c] && s.api[c].state == "Running" {
			s.setAPI(c, "Complete", s.api[c].prio)
			return true
		}
	case "procend":
		if s.procs[w][c] && s.api[c].state != "Locked" && s.api[c].state != "Running" {
			s.procExit(c, w)
			return true
		}
	case "proccrash":
		if s.procs[w][c] {
			s.procExit(c, w)
			return true
		}
	case "vmboot":
		if s.exists[w] && !s.booted[w] {
			s.booted[w] = true
			return true
		}
	case "vmbreak":
		if s.exists[w] && !s.broken[w] {
			s.broken[w] = true
			return true
		}
	case "opsetib":
		if s.wk[w].st != "absent" && s.ib[w] != st.X {
			s.ib[w] = st.X
			s.ev(map[string]interface{}{"ev": "setib", "w": w, "b": st.X})
			return true
		}
	case "probestart":
		wk := s.wk[w]
		if (wk.st == "unknown" || wk.st == "booting" || wk.st == "idle" || wk.st == "running") && !s.probing[w].on {
			b0 := wk.st == "idle" || wk.st == "running"
			bt := b0 || s.reach(w)
			ok := (bt || wk.st == "unknown") && s.reach(w)
			list := map[int]bool{}
			if ok {
				for x := range s.procs[w] {
					list[x] = true
				}
			}
			s.probing[w] = &vProbe{on: true, booted: bt, ok: ok, list: list, rb: ok && s.rb[w]}
			delete(s.dirty, w)
			return true
		}
	case "vmreportbroken":
		if s.exists[w] && !s.rb[w] {
			s.rb[w] = true
			return true
		}
	case "syncfail":
		return true
	case "probedrain":
		if p := s.probing[w]; p.on && p.rb && s.ib[w] == "run" && s.wk[w].st != "absent" && s.wk[w].st != "shutdown" {
			s.ib[w] = "drain"
			s.ev(map[string]interface{}{"ev": "setib", "w": w, "b": "drain"})
			return true
		}
	case "probeend":
		p := s.probing[w]
		if !p.on {
			return false
		}
		if p.rb && s.ib[w] == "run" && s.wk[w].st != "absent" && s.wk[w].st != "shutdown" {
			// an answer that says "broken" drains the worker first (probeAndUpdate)
			s.ib[w] = "drain"
			s.ev(map[string]interface{}{"ev": "setib", "w": w, "b": "drain"})
		}
		s.probing[w] = &vProbe{}
		wk := s.wk[w]
		tmo := st.X == "timeout"
		failure := !p.ok || (!p.booted && len(p.list) == 0 && len(wk.running) == 0)
		switch {
		case wk.st == "absent" || wk.st == "shutdown":
		case failure:
			if tmo && s.ib[w] != "hold" {
				s.shutdown(w)
				s.notify()
			}
		case s.dirty[w]:
		default:
			changed := false
			for x := range p.list {
				if wk.running[x] {
				} else if wk.starting[x] {
					delete(wk.starting, x)
					wk.running[x] = true
					changed = true
				} else {
					wk.running[x] = true
					changed = true
				}
			}
			for x := range wk.running {
				if !p.list[x] {
					s.closeRunner(w, x)
					delete(s.killing[w], x)
					changed = true
				}
			}
			if p.booted && (wk.st == "unknown" || wk.st == "booting") {
				wk.st = "idle"
				changed = true
			}
			if changed {
				if wk.st == "idle" && len(wk.starting)+len(wk.running) > 0 {
					wk.st = "running"
				} else if wk.st == "running" && len(wk.starting)+len(wk.running) == 0 {
					wk.st = "idle"
				}
				s.notify()
			}
		}
		return true
	case "startexec":
		wk := s.wk[w]
		if !wk.starting[c] {
			return false
		}
		if s.reach(w) {
			others := []int{}
			for x := 1; x <= s.nw; x++ {
				if s.procs[x][c] {
					others = append(others, x)
				}
			}
			unk := s.liveOnUnknown(c)
			s.procs[w][c] = true
			s.ev(map[string]interface{}{"ev": "procstart", "c": c, "w": w, "others": others, "unk": unk})
		} else {
			s.ev(map[string]interface{}{"ev": "startfailed", "c": c, "w": w})
		}
		delete(wk.starting, c)
		wk.running[c] = true
		s.dirty[w] = true
		return true
	case "killtick":
		if !s.killing[w][c] {
			return false
		}
		wk := s.wk[w]
		if !wk.running[c] && !wk.starting[c] {
			delete(s.killing[w], c)
			return true
		}
		if !s.reach(w) {
			return false
		}
		if s.procs[w][c] {
			s.procExit(c, w)
			return true
		}
		if wk.running[c] {
			s.closeRunner(w, c)
			delete(s.killing[w], c)
			s.notify()
			return true
		}
	case "opkill":
		if st := s.wk[w].st; st != "absent" && st != "shutdown" {
			s.shutdown(w)
			s.notify()
			return true
		}
	case "idleshutdown":
		wk := s.wk[w]
		if s.ib[w] != "hold" && (wk.st == "idle" || (wk.st == "booting" && s.ib[w] == "drain")) {
			s.shutdown(w)
			return true
		}
	case "destroyok":
		if s.wk[w].st == "shutdown" && s.exists[w] {
			s.exists[w], s.booted[w] = false, false
			s.procs[w] = map[int]bool{}
			delete(s.rb, w)
			s.ib[w] = "run"
			s.ev(map[string]interface{}{"ev": "vmgone", "w": w})
			return true
		}
	case "instancegone":
		if s.wk[w].st != "absent" && !s.exists[w] {
			s.wk[w] = &vWk{st: "absent", starting: map[int]bool{}, running: map[int]bool{}}
			s.killing[w] = map[int]bool{}
			s.probing[w] = &vProbe{}
			delete(s.broken, w)
			s.notify()
			return true
		}
	}
	return false
}

// steps that might be enabled now, for random mode
func (r *vSchedRun) candidates(scn *vSchedScenario, restartsLeft int) []vStep {
	s := r.s
	s.mu.Lock()
	defer s.mu.Unlock()
	var out []vStep
	add := func(a string, c, w int, x string, weight int) {
		for i := 0; i < weight; i++ {
			out = append(out, vStep{A: a, C: c, W: w, X: x})
		}
	}
	add("update", 0, 0, "", 3)
	switch r.phase {
	case "fix":
		add("fixiter", 0, 0, "", 4)
		if scn.StaleTO {
			add("fixtimeout", 0, 0, "", 1)
		}
	case "run":
		add("rq", 0, 0, "", 6)
		add("sync", 0, 0, "", 6)
	}
	if restartsLeft > 0 && r.phase == "run" {
		add("restart", 0, 0, "", 1)
	}
	for _, g := range s.gates {
		add("apicommit", g.c, 0, "", 6)
		add("apifail", g.c, 0, "", 1)
	}
	for c := 1; c <= s.nc; c++ {
		add("usercancel", c, 0, "", 1)
		add("userhold", c, 0, "", 1)
	}
	for w := 1; w <= s.nw; w++ {
		if s.exists[w] && !s.booted[w] {
			add("vmboot", 0, w, "", 4)
		}
		if s.exists[w] {
			add("vmbreak", 0, w, "", 1)
			add("vmreportbroken", 0, w, "", 1)
		}
		if s.wk[w].st != "absent" {
			add("probestart", 0, w, "", 4)
			add("opsetib", 0, w, []string{"hold", "drain", "run"}[len(out)%3], 1)
		}
		if s.probing[w].on {
			add("probeend", 0, w, "", 5)
			add("probeend", 0, w, "timeout", 1)
		}
		add("idleshutdown", 0, w, "", 1)
		if s.wk[w].st != "absent" && len(out)%11 == 0 {
			add("opkill", 0, w, "", 1)
		}
		add("destroyok", 0, w, "", 3)
		add("instancegone", 0, w, "", 3)
		for c := range s.wk[w].starting {
			add("startexec", c, w, "", 6)
		}
		for c := range s.killing[w] {
			add("killtick", c, w, "", 5)
		}
		for c := range s.procs[w] {
			add("procrunning", c, w, "", 3)
			add("procfinalize", c, w, "", 3)
			add("procend", c, w, "", 4)
			add("proccrash", c, w, "", 1)
		}
	}
	return out
}

func TestVerifC14Sched(t *testing.T) {
	var scns []*vSchedScenario
	vReadNDJSON(os.Getenv("VERIF_SCENARIOS"), func() interface{} {
		s := &vSchedScenario{}
		scns = append(scns, s)
		return s
	})
	tw := vNewTraceWriter(os.Getenv("VERIF_TRACES"))
	defer tw.Close()
	logger := logrus.New()
	logger.Out = io.Discard
	ctx := ctxlog.Context(context.Background(), logger)
	stuck := 0
	for _, scn := range scns {
		r := &vSchedRun{s: vNewSim(scn.NC, scn.NW, scn.Init), ctx: ctx, staleTO: time.Hour, base: runtime.NumGoroutine()}
		for _, st := range scn.Steps {
			if st.A == "fixtimeout" {
				r.staleTO = 30 * time.Millisecond
			}
		}
		if scn.Mode == "random" && scn.StaleTO {
			r.staleTO = 30 * time.Millisecond
		}
		r.newScheduler()
		if scn.Mode == "random" {
			rnd := rand.New(rand.NewSource(scn.RSeed))
			restarts := scn.Restarts
			for i := 0; i < scn.N; i++ {
				cs := r.candidates(scn, restarts)
				st := cs[rnd.Intn(len(cs))]
				if r.apply(st, nil) {
					r.applied++
					if st.A == "restart" {
						restarts--
					}
				} else {
					r.skipped++
				}
			}
		} else {
			for i, st := range scn.Steps {
				t0 := time.Now()
				ok := r.apply(st, scn.Steps[i+1:])
				if os.Getenv("VERIF_DEBUG") == "2" {
					fmt.Printf("VERIF-STEP %+v ok=%v phase=%s fixOn=%v took %v\n", st, ok, r.phase, r.fixOn, time.Since(t0))
				}
				if d := time.Since(t0); d > 100*time.Millisecond && os.Getenv("VERIF_DEBUG") != "" {
					fmt.Printf("VERIF-SLOW scn=%d step=%+v took %v ok=%v goroutines=%d base=%d\n", scn.ID, st, d, ok, runtime.NumGoroutine(), r.base)
				}
				if ok {
					r.applied++
				} else {
					r.skipped++
				}
			}
		}
		r.s.mu.Lock()
		nev := len(r.s.events)
		r.s.mu.Unlock()
		// wind down (not part of the trace): answer every pending call, let fixStaleLocks end
		for k := 0; k < 100; k++ {
			r.s.mu.Lock()
			ng := len(r.s.gates)
			c := 0
			if ng > 0 {
				c = r.s.gates[0].c
			}
			r.s.mu.Unlock()
			if ng == 0 {
				break
			}
			r.answer(c, true)
		}
		r.killFix()
		if !r.settle() {
			stuck++
		}
		r.sch.wakeup.Stop()
		init := []string{}
		for c := 1; c <= scn.NC; c++ {
			st := "Queued"
			if c-1 < len(scn.Init) {
				st = scn.Init[c-1]
			}
			init = append(init, st)
		}
		tw.Write(map[string]interface{}{"ev": "reset", "scn": scn.ID, "nc": scn.NC, "nw": scn.NW, "init": init,
			"mode": "exact", "applied": r.applied, "skipped": r.skipped, "kfclass": r.kfclass})
		r.s.mu.Lock()
		for _, ev := range r.s.events[:nev] {
			tw.Write(ev)
		}
		r.s.mu.Unlock()
	}
	if stuck > 0 {
		fmt.Printf("VERIF-NOTE %d scenarios did not settle\n", stuck)
	}
	fmt.Println("VERIF-DRIVER-DONE")
}
