//go:build verif

// Scheduler-level binding of C14 (DESIGN.md section 6, C14, binding i).
//
// vSim is an executable copy of the ENVIRONMENT side of specs/dispatch/Dispatch.tla with an atomic
// queue (AtomicQueue = TRUE): API truth, queue cache, worker-pool bookkeeping
// (starting / running / exited), VM process tables, probes, kill loops, cloud.  It implements
// scheduler.WorkerPool and scheduler.ContainerQueue, so the REAL Scheduler (runQueue, sync,
// fixStaleLocks, lockContainer, cancel, kill, requeue and the uuidOp latch) runs against it.
// Everything the scheduler asks changes the sim through these interfaces only; everything else
// happens when the driver applies an environment step of a Gen behaviour.  vSim decides nothing:
// it records the contract events judged by specs/dispatch/DispatchTrace.tla.
//
// Identities: container c <-> test.ContainerUUID(c); instance w = slot number; one instance type.

package scheduler

import (
	"errors"
	"sync"
	"time"

	"git.arvados.org/arvados.git/lib/dispatchcloud/container"
	"git.arvados.org/arvados.git/lib/dispatchcloud/test"
	"git.arvados.org/arvados.git/lib/dispatchcloud/worker"
	"git.arvados.org/arvados.git/sdk/go/arvados"
)

type vEnt struct {
	in    bool
	state string
	prio  int
}

type vWk struct {
	st       string // absent unknown booting idle running shutdown
	starting map[int]bool
	running  map[int]bool
}

type vProbe struct {
	on, booted, ok bool
	rb             bool // the answer says "broken"
	list           map[int]bool
}

type vGate struct {
	c    int
	kind string // lock cancel requeue
	done chan error
}

type vSim struct {
	mu     sync.Mutex
	nc, nw int
	events []map[string]interface{}

	api      map[int]*vEnt        // truth
	procs    map[int]map[int]bool // w -> containers with a live process
	exists   map[int]bool
	booted   map[int]bool
	broken   map[int]bool
	rb       map[int]bool // VMs whose probe answers say "broken"
	ib       map[int]string
	q        map[int]*vEnt // cache
	clock    int64         // logical time: one tick per recorded instant
	updTime  int64
	wk       map[int]*vWk
	exited   map[int]int64 // pool.exited: container -> logical exit time
	probing  map[int]*vProbe
	dirty    map[int]bool
	killing  map[int]map[int]bool
	direct   bool // queue.Unlock is performed at once (inside runQueue / fixStaleLocks)
	frozen   bool // the dispatcher is gone: its API calls have no effect
	gates    []*vGate
	arrived  chan struct{} // signalled when a gated call arrives or the queue is read
	nEntries int
	subs     []chan struct{}
	// the model's choices for the pass under way (which slot Create / StartContainer / Shutdown take)
	hintCreate, hintShutdown []int
	hintStart                map[int]int
}

var vSimIT = test.InstanceType(1)

func vNewSim(nc, nw int, init []string) *vSim {
	s := &vSim{nc: nc, nw: nw, api: map[int]*vEnt{}, procs: map[int]map[int]bool{}, exists: map[int]bool{},
		booted: map[int]bool{}, broken: map[int]bool{}, rb: map[int]bool{}, ib: map[int]string{}, arrived: make(chan struct{}, 1000)}
	for c := 1; c <= nc; c++ {
		st := "Queued"
		if c-1 < len(init) {
			st = init[c-1]
		}
		s.api[c] = &vEnt{in: true, state: st, prio: 1}
	}
	for w := 1; w <= nw; w++ {
		s.procs[w] = map[int]bool{}
		s.ib[w] = "run"
	}
	s.resetDispatcher()
	return s
}

// the dispatcher process (re)starts: all of its memory is lost
func (s *vSim) resetDispatcher() {
	s.q = map[int]*vEnt{}
	for c := 1; c <= s.nc; c++ {
		s.q[c] = &vEnt{}
	}
	s.wk = map[int]*vWk{}
	s.probing = map[int]*vProbe{}
	s.dirty = map[int]bool{}
	s.killing = map[int]map[int]bool{}
	s.exited = map[int]int64{}
	for w := 1; w <= s.nw; w++ {
		st := "absent"
		if s.exists[w] {
			st = "unknown"
		}
		s.wk[w] = &vWk{st: st, starting: map[int]bool{}, running: map[int]bool{}}
		s.probing[w] = &vProbe{}
		s.killing[w] = map[int]bool{}
	}
	s.gates = nil
}

func (s *vSim) ev(m map[string]interface{}) { s.events = append(s.events, m) }

func (s *vSim) tick() int64 { s.clock++; return s.clock }

func vTime(t int64) time.Time {
	if t == 0 {
		return time.Time{}
	}
	return time.Unix(1000000+t, 0)
}

func vCtrOf(uuid string) int {
	for c := 1; c <= 64; c++ {
		if test.ContainerUUID(c) == uuid {
			return c
		}
	}
	return 0
}

// a process of c is alive on an instance the pool has not identified yet (worker state "unknown"),
// and on no other: the situation of the known finding KF-C14-1
func (s *vSim) liveOnUnknown(c int) bool {
	n := 0
	for w := 1; w <= s.nw; w++ {
		if s.procs[w][c] {
			if s.wk[w].st != "unknown" {
				return false
			}
			n++
		}
	}
	return n > 0
}

func (s *vSim) reach(w int) bool { return s.exists[w] && s.booted[w] && !s.broken[w] }

func (s *vSim) hasRunner(c int) bool {
	for w := 1; w <= s.nw; w++ {
		if s.wk[w].running[c] || s.wk[w].starting[c] {
			return true
		}
	}
	return false
}

func (s *vSim) setAPI(c int, state string, prio int) {
	s.api[c].state, s.api[c].prio = state, prio
	s.ev(map[string]interface{}{"ev": "api", "c": c, "s": state, "p": prio})
}

func (s *vSim) procExit(c, w int) {
	delete(s.procs[w], c)
	s.ev(map[string]interface{}{"ev": "exit", "c": c, "w": w})
}

// worker.closeRunner
func (s *vSim) closeRunner(w, c int) {
	wk := s.wk[w]
	if !wk.running[c] {
		return
	}
	delete(wk.running, c)
	s.exited[c] = s.tick()
	s.dirty[w] = true
	if wk.st == "running" && len(wk.running)+len(wk.starting) == 0 {
		wk.st = "idle"
	}
}

func (s *vSim) shutdown(w int) {
	s.wk[w].st = "shutdown"
	s.dirty[w] = true
}

func (s *vSim) notify() {
	for _, ch := range s.subs {
		select {
		case ch <- struct{}{}:
		default:
		}
	}
}

// ---------------------------------------------------------------- scheduler.WorkerPool

type vSimPool struct{ s *vSim }

func (p vSimPool) Running() map[string]time.Time {
	s := p.s
	s.mu.Lock()
	defer s.mu.Unlock()
	r := map[string]time.Time{}
	for w := 1; w <= s.nw; w++ {
		for c := range s.wk[w].running {
			r[test.ContainerUUID(c)] = time.Time{}
		}
		for c := range s.wk[w].starting {
			r[test.ContainerUUID(c)] = time.Time{}
		}
	}
	for c, t := range s.exited {
		r[test.ContainerUUID(c)] = vTime(t)
	}
	return r
}

func (p vSimPool) Unallocated() map[arvados.InstanceType]int {
	s := p.s
	s.mu.Lock()
	defer s.mu.Unlock()
	n := 0
	for w := 1; w <= s.nw; w++ {
		wk := s.wk[w]
		if (wk.st == "unknown" || wk.st == "booting" || wk.st == "idle") && s.ib[w] == "run" && len(wk.running) == 0 {
			n++
		}
	}
	r := map[arvados.InstanceType]int{}
	if n > 0 {
		r[vSimIT] = n
	}
	return r
}

func (p vSimPool) CountWorkers() map[worker.State]int {
	s := p.s
	s.mu.Lock()
	defer s.mu.Unlock()
	r := map[worker.State]int{}
	for w := 1; w <= s.nw; w++ {
		switch s.wk[w].st {
		case "unknown":
			r[worker.StateUnknown]++
		case "booting":
			r[worker.StateBooting]++
		case "idle":
			r[worker.StateIdle]++
		case "running":
			r[worker.StateRunning]++
		case "shutdown":
			r[worker.StateShutdown]++
		}
	}
	s.signal()
	return r
}

func (s *vSim) freeSlot() int {
	for w := 1; w <= s.nw; w++ {
		if s.wk[w].st == "absent" && !s.exists[w] {
			return w
		}
	}
	return 0
}

func (p vSimPool) AtQuota() bool {
	p.s.mu.Lock()
	defer p.s.mu.Unlock()
	return p.s.freeSlot() == 0
}

func (p vSimPool) Create(it arvados.InstanceType) bool {
	s := p.s
	s.mu.Lock()
	defer s.mu.Unlock()
	w := s.freeSlot()
	if w == 0 {
		return false
	}
	if len(s.hintCreate) > 0 {
		if h := s.hintCreate[0]; h >= 1 && h <= s.nw && s.wk[h].st == "absent" && !s.exists[h] {
			w = h
		}
		s.hintCreate = s.hintCreate[1:]
	}
	s.exists[w], s.booted[w] = true, false
	s.wk[w] = &vWk{st: "booting", starting: map[int]bool{}, running: map[int]bool{}}
	s.ev(map[string]interface{}{"ev": "create", "w": w})
	return true
}

func (p vSimPool) Shutdown(it arvados.InstanceType) bool {
	s := p.s
	s.mu.Lock()
	defer s.mu.Unlock()
	for _, try := range []string{"booting", "idle"} {
		pick := 0
		for w := 1; w <= s.nw; w++ {
			if s.wk[w].st == try && s.ib[w] != "hold" && (pick == 0 || (len(s.hintShutdown) > 0 && s.hintShutdown[0] == w)) {
				pick = w
			}
		}
		if pick != 0 {
			s.hintShutdown = nil
			s.shutdown(pick)
			return true
		}
	}
	return false
}

func (p vSimPool) StartContainer(it arvados.InstanceType, ctr arvados.Container) bool {
	s := p.s
	s.mu.Lock()
	defer s.mu.Unlock()
	c := vCtrOf(ctr.UUID)
	pick := 0
	for w := 1; w <= s.nw; w++ {
		if s.wk[w].st == "idle" && s.ib[w] == "run" && it == vSimIT && (pick == 0 || s.hintStart[c] == w) {
			pick = w
		}
	}
	if w := pick; w != 0 {
		s.wk[w].st = "running"
		s.wk[w].starting[c] = true
		bad := []int{}
		for x := 1; x <= s.nw; x++ {
			if s.ib[x] == "hold" || s.ib[x] == "drain" {
				bad = append(bad, x)
			}
		}
		qs, qp := "absent", 0
		if e := s.q[c]; e != nil && e.in {
			qs, qp = e.state, e.prio
		}
		s.ev(map[string]interface{}{"ev": "startcall", "c": c, "w": w, "bad": bad, "qs": qs, "qp": qp, "unk": s.liveOnUnknown(c)})
		return true
	}
	return false
}

func (p vSimPool) KillContainer(uuid, reason string) bool {
	s := p.s
	s.mu.Lock()
	defer s.mu.Unlock()
	c := vCtrOf(uuid)
	found := false
	for w := 1; w <= s.nw; w++ {
		if s.wk[w].running[c] || s.wk[w].starting[c] {
			s.killing[w][c] = true
			found = true
		}
	}
	s.ev(map[string]interface{}{"ev": "kill", "c": c, "r": found})
	return found
}

func (p vSimPool) ForgetContainer(uuid string) {
	p.s.mu.Lock()
	defer p.s.mu.Unlock()
	delete(p.s.exited, vCtrOf(uuid))
}

func (p vSimPool) Subscribe() <-chan struct{} {
	p.s.mu.Lock()
	defer p.s.mu.Unlock()
	ch := make(chan struct{}, 1)
	p.s.subs = append(p.s.subs, ch)
	return ch
}
func (p vSimPool) Unsubscribe(<-chan struct{}) {}

// ---------------------------------------------------------------- scheduler.ContainerQueue

type vSimQueue struct{ s *vSim }

func (s *vSim) signal() {
	select {
	case s.arrived <- struct{}{}:
	default:
	}
}

func (q vSimQueue) Entries() (map[string]container.QueueEnt, time.Time) {
	s := q.s
	s.mu.Lock()
	defer s.mu.Unlock()
	r := map[string]container.QueueEnt{}
	for c := 1; c <= s.nc; c++ {
		if e := s.q[c]; e.in {
			r[test.ContainerUUID(c)] = container.QueueEnt{
				Container: arvados.Container{UUID: test.ContainerUUID(c), State: arvados.ContainerState(e.state), Priority: int64(e.prio),
					RuntimeConstraints: arvados.RuntimeConstraints{VCPUs: 1, RAM: 1 << 30}},
				InstanceType: vSimIT,
			}
		}
	}
	if !s.frozen {
		s.ev(map[string]interface{}{"ev": "entries"})
	}
	s.nEntries++
	s.signal()
	return r, vTime(s.updTime)
}

func (q vSimQueue) Get(uuid string) (arvados.Container, bool) {
	s := q.s
	s.mu.Lock()
	defer s.mu.Unlock()
	c := vCtrOf(uuid)
	e := s.q[c]
	if e == nil || !e.in {
		return arvados.Container{}, false
	}
	return arvados.Container{UUID: uuid, State: arvados.ContainerState(e.state), Priority: int64(e.prio)}, true
}

// the API server performs lock / unlock / cancel on the truth; the answer goes into the cache
func (s *vSim) apiCall(c int, kind string) error {
	if s.frozen {
		return errors.New("verif: dispatcher gone")
	}
	a := s.api[c]
	var ns string
	switch kind {
	case "lock":
		if !(a.state == "Queued" && a.prio > 0) {
			return errors.New("verif: cannot lock")
		}
		ns = "Locked"
	case "requeue":
		if a.state != "Locked" {
			return errors.New("verif: cannot unlock")
		}
		ns = "Queued"
	default:
		if !(a.state == "Queued" || a.state == "Locked" || a.state == "Running") {
			return errors.New("verif: cannot cancel")
		}
		ns = "Cancelled"
	}
	s.setAPI(c, ns, a.prio)
	if e := s.q[c]; e.in {
		e.state, e.prio = ns, a.prio
	}
	return nil
}

func (s *vSim) gated(c int, kind string) error {
	g := &vGate{c: c, kind: kind, done: make(chan error, 1)}
	s.mu.Lock()
	s.gates = append(s.gates, g)
	s.signal()
	s.mu.Unlock()
	return <-g.done
}

func (q vSimQueue) Lock(uuid string) error   { return q.s.gated(vCtrOf(uuid), "lock") }
func (q vSimQueue) Cancel(uuid string) error { return q.s.gated(vCtrOf(uuid), "cancel") }
func (q vSimQueue) Unlock(uuid string) error {
	s := q.s
	s.mu.Lock()
	if s.direct {
		defer s.mu.Unlock()
		return s.apiCall(vCtrOf(uuid), "requeue")
	}
	s.mu.Unlock()
	return s.gated(vCtrOf(uuid), "requeue")
}

func (q vSimQueue) Forget(uuid string) {
	s := q.s
	s.mu.Lock()
	defer s.mu.Unlock()
	c := vCtrOf(uuid)
	if e := s.q[c]; e != nil && e.in && (e.state == "Complete" || e.state == "Cancelled" || (e.state == "Queued" && e.prio == 0)) {
		s.q[c] = &vEnt{}
	}
}

func (q vSimQueue) Subscribe() <-chan struct{}  { return make(chan struct{}) }
func (q vSimQueue) Unsubscribe(<-chan struct{}) {}
func (q vSimQueue) Update() error               { q.s.mu.Lock(); defer q.s.mu.Unlock(); q.s.update(); return nil }

// test.Queue-like refresh: poll and apply at once
func (s *vSim) update() {
	for c := 1; c <= s.nc; c++ {
		a := s.api[c]
		ours := a.state == "Locked" || a.state == "Running"
		if ours || (a.state == "Queued" && a.prio > 0) || s.q[c].in {
			s.q[c] = &vEnt{in: true, state: a.state, prio: a.prio}
		} else {
			s.q[c] = &vEnt{}
		}
	}
	s.updTime = s.tick()
	s.tick()
	s.ev(map[string]interface{}{"ev": "updatomic"})
}
