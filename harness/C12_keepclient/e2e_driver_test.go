//go:build verif

// RUN stage of the composed write-then-read executions (specs/keepclient/KeepE2E.tla): the real
// PutB and Get of one KeepClient against in-memory fake Keep services that accept / refuse writes
// and are up / down at read time.  Services are named by their reference rendezvous rank.

package keepclient

import (
	"bytes"
	"crypto/md5"
	"errors"
	"fmt"
	"io"
	"io/ioutil"
	"math/rand"
	"net/http"
	"os"
	"sort"
	"strings"
	"sync"
	"testing"

	"git.arvados.org/arvados.git/sdk/go/arvadosclient"
)

type vE2EScenario struct {
	ID     int   `json:"id"`
	N      int   `json:"n"`
	Want   int   `json:"want"`
	Wr     []int `json:"wr"`
	Refuse []int `json:"refuse"`
	Downs  []int `json:"downs"`
	RSeed  int64 `json:"rseed"`
}

type vE2EFake struct {
	mu      sync.Mutex
	rank    map[string]int
	refuse  map[int]bool
	down    map[int]bool
	store   map[int][]byte
	askedW  map[int]bool
	askedR  []int
	reading bool
}

func (f *vE2EFake) Do(req *http.Request) (*http.Response, error) {
	var body []byte
	if req.Body != nil {
		body, _ = ioutil.ReadAll(req.Body)
		req.Body.Close()
	}
	f.mu.Lock()
	defer f.mu.Unlock()
	r := f.rank[req.URL.Host]
	resp := func(status int, b string, hdr http.Header) (*http.Response, error) {
		if hdr == nil {
			hdr = http.Header{}
		}
		return &http.Response{StatusCode: status, Status: fmt.Sprint(status), Header: hdr,
			Body: io.NopCloser(strings.NewReader(b)), ContentLength: int64(len(b)), Request: req}, nil
	}
	switch req.Method {
	case "PUT":
		f.askedW[r] = true
		if f.refuse[r] {
			return resp(503, "full\n", nil)
		}
		f.store[r] = body
		h := http.Header{}
		h.Set(XKeepReplicasStored, "1")
		return resp(200, fmt.Sprintf("%x+%d\n", md5.Sum(body), len(body)), h)
	case "GET":
		f.askedR = append(f.askedR, r)
		if f.down[r] {
			return nil, errors.New("verif: connection refused")
		}
		if b, ok := f.store[r]; ok {
			return resp(200, string(b), nil)
		}
		return resp(404, "not found\n", nil)
	}
	return resp(400, "bad\n", nil)
}

func vRunE2E(scn vE2EScenario) []map[string]interface{} {
	rng := rand.New(rand.NewSource(int64(scn.ID)*32452843 + scn.RSeed))
	data := make([]byte, 1+rng.Intn(300))
	rng.Read(data)
	hash := fmt.Sprintf("%x", md5.Sum(data))
	uuid := map[int]string{}
	var tmp []int
	for i := 1; i <= scn.N; i++ {
		uuid[i] = vRdvUUID(rng)
		tmp = append(tmp, i)
	}
	order := vRdvRefOrder(hash, uuid, tmp) // order[k] = temporary id of the service with rank k+1
	in := func(xs []int, r int) bool {
		for _, x := range xs {
			if x == r {
				return true
			}
		}
		return false
	}
	f := &vE2EFake{rank: map[string]int{}, refuse: map[int]bool{}, down: map[int]bool{}, store: map[int][]byte{}, askedW: map[int]bool{}}
	var items []string
	for k, id := range order {
		rank := k + 1
		host := fmt.Sprintf("keep%d.verif", id)
		f.rank[host+":25107"] = rank
		f.refuse[rank] = in(scn.Refuse, rank)
		f.down[rank] = in(scn.Downs, rank)
		items = append(items, fmt.Sprintf(`{"uuid":%q,"service_host":%q,"service_port":25107,"service_ssl_flag":false,"service_type":"disk","read_only":%v}`,
			uuid[id], host, !in(scn.Wr, rank)))
	}
	rng.Shuffle(len(items), func(i, j int) { items[i], items[j] = items[j], items[i] })
	kc := &KeepClient{
		Arvados:       &arvadosclient.ArvadosClient{ApiToken: "verif-token", ApiServer: "localhost:9"},
		Want_replicas: scn.Want, Retries: 0, HTTPClient: f, BlockCache: &BlockCache{},
	}
	if err := kc.LoadKeepServicesFromJSON(`{"items":[` + strings.Join(items, ",") + `]}`); err != nil {
		panic(err)
	}
	nn := func(xs []int) []int {
		if xs == nil {
			return []int{}
		}
		return xs
	}
	evs := []map[string]interface{}{{"ev": "reset", "scn": scn.ID, "n": scn.N, "want": scn.Want,
		"wr": nn(scn.Wr), "refuse": nn(scn.Refuse), "downs": nn(scn.Downs)}}
	_, _, err := kc.PutB(data)
	f.mu.Lock()
	holders, askedw := []int{}, []int{}
	for r := range f.store {
		holders = append(holders, r)
	}
	for r := range f.askedW {
		askedw = append(askedw, r)
	}
	f.mu.Unlock()
	sort.Ints(holders)
	sort.Ints(askedw)
	evs = append(evs, map[string]interface{}{"ev": "put", "ok": err == nil, "holders": holders, "askedw": askedw})
	loc := fmt.Sprintf("%s+%d", hash, len(data))
	ok := false
	if rdr, _, _, err := kc.Get(loc); err == nil {
		got, rerr := ioutil.ReadAll(rdr)
		rdr.Close()
		ok = rerr == nil && bytes.Equal(got, data)
	}
	f.mu.Lock()
	seq := append([]int{}, f.askedR...)
	f.mu.Unlock()
	evs = append(evs, map[string]interface{}{"ev": "get", "ok": ok, "seq": seq})
	return evs
}

func TestVerifC12E2E(t *testing.T) {
	var scns []vE2EScenario
	vReadNDJSON(os.Getenv("VERIF_SCENARIOS"), func() interface{} { scns = append(scns, vE2EScenario{}); return &scns[len(scns)-1] })
	out := vNewTraceWriter(os.Getenv("VERIF_TRACES"))
	defer out.Close()
	for _, scn := range scns {
		for _, ev := range vRunE2E(scn) {
			out.Write(ev)
		}
	}
	fmt.Println("VERIF-DRIVER-DONE scenarios:", len(scns))
}
