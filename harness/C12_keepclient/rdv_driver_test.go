//go:build verif

// RUN stage of C12 (keepclient side): observes the order in which the real client asks services
// for a read (all answer 404) and for a write (all refuse), before and after one service is
// added or removed.  The reference weight order (MD5(hash ++ uuid[12:]), descending) is computed
// here independently of root_sorter.go: trusted base of the binding.

package keepclient

import (
	"crypto/md5"
	"errors"
	"fmt"
	"io"
	"math/rand"
	"net/http"
	"os"
	"sort"
	"strconv"
	"strings"
	"sync"
	"testing"

	"git.arvados.org/arvados.git/sdk/go/arvadosclient"
)

type vRdvChange struct {
	Op  string `json:"op"`
	S   int    `json:"s"`
	Pos int    `json:"pos"`
}

type vRdvScenario struct {
	ID       int        `json:"id"`
	Order    []int      `json:"order"`
	Writable []int      `json:"writable"`
	Hints    []int      `json:"hints"`
	Chg      vRdvChange `json:"chg"`
	Mode     string     `json:"mode"`
	N        int        `json:"n"`
	RSeed    int64      `json:"rseed"`
}

type vRdvRecorder struct {
	mu   sync.Mutex
	seq  []int
	host map[string]int
}

func (r *vRdvRecorder) Do(req *http.Request) (*http.Response, error) {
	if req.Body != nil {
		io.Copy(io.Discard, req.Body)
		req.Body.Close()
	}
	r.mu.Lock()
	id, ok := r.host[req.URL.Host]
	if !ok {
		id = -1
	}
	r.seq = append(r.seq, id)
	r.mu.Unlock()
	status := 404
	if req.Method == "PUT" {
		status = 403
	}
	return &http.Response{StatusCode: status, Status: strconv.Itoa(status), Header: http.Header{},
		Body: io.NopCloser(strings.NewReader("no\n")), ContentLength: 3, Request: req}, nil
}

func (r *vRdvRecorder) take() []int {
	r.mu.Lock()
	defer r.mu.Unlock()
	s := r.seq
	r.seq = nil
	if s == nil {
		s = []int{}
	}
	return s
}

// reference order: ids sorted by descending hex MD5(hash ++ last 15 characters of the uuid)
func vRdvRefOrder(hash string, uuid map[int]string, ids []int) []int {
	w := map[int]string{}
	for _, id := range ids {
		u := uuid[id]
		w[id] = fmt.Sprintf("%x", md5.Sum([]byte(hash+u[len(u)-15:])))
	}
	out := append([]int(nil), ids...)
	sort.Slice(out, func(i, j int) bool { return w[out[i]] > w[out[j]] })
	return out
}

func vRdvEqual(a, b []int) bool {
	if len(a) != len(b) {
		return false
	}
	for i := range a {
		if a[i] != b[i] {
			return false
		}
	}
	return true
}

const vRdvChars = "0123456789abcdefghijklmnopqrstuvwxyz"

func vRdvUUID(rng *rand.Rand) string {
	b := make([]byte, 15)
	for i := range b {
		b[i] = vRdvChars[rng.Intn(len(vRdvChars))]
	}
	switch rng.Intn(3) {
	case 0:
		// 27 characters, but not of the cluster-type-suffix shape: the statement's formula
		// (last 15 characters of the 27-character uuid) does not depend on where the dashes are
		c := make([]byte, 27)
		for i := range c {
			c[i] = vRdvChars[rng.Intn(len(vRdvChars))]
			if i > 0 && i < 26 && rng.Intn(9) == 0 {
				c[i] = '-'
			}
		}
		return string(c)
	case 1:
		// canonical prefix, a dash inside the 15-character suffix
		b[1+rng.Intn(13)] = '-'
	}
	return "zzzzz-bi6l4-" + string(b)
}

func vRunRdvScenario(scn vRdvScenario) []map[string]interface{} {
	rng := rand.New(rand.NewSource(int64(scn.ID)*15485863 + scn.RSeed))
	uuid := map[int]string{}
	var ids0, ids1 []int // service ids before / after the change
	var data []byte
	var hash string
	var writable0 []int
	hints := scn.Hints
	chg := scn.Chg
	if scn.Mode == "random" {
		n := scn.N
		for i := 1; i <= n+1; i++ {
			uuid[i] = vRdvUUID(rng)
		}
		for i := 1; i <= n; i++ {
			ids0 = append(ids0, i)
			if rng.Intn(4) > 0 {
				writable0 = append(writable0, i)
			}
		}
		data = make([]byte, 1+rng.Intn(20))
		rng.Read(data)
		hash = fmt.Sprintf("%x", md5.Sum(data))
		hints = nil
		for i := rng.Intn(4); i > 0; i-- {
			switch rng.Intn(3) {
			case 0:
				hints = append(hints, 0)
			case 1:
				hints = append(hints, 1+rng.Intn(n))
			case 2:
				hints = append(hints, 101+rng.Intn(3))
			}
		}
		switch rng.Intn(3) {
		case 0:
			chg = vRdvChange{Op: "none"}
		case 1:
			if n > 1 {
				chg = vRdvChange{Op: "remove", S: 1 + rng.Intn(n)}
			} else {
				chg = vRdvChange{Op: "none"}
			}
		case 2:
			chg = vRdvChange{Op: "add", S: n + 1}
		}
	} else {
		n := len(scn.Order)
		ids0 = append(ids0, scn.Order...)
		sort.Ints(ids0)
		writable0 = scn.Writable
		target := append([]int(nil), scn.Order...)
		all := append([]int(nil), ids0...)
		if chg.Op == "add" {
			all = append(all, chg.S)
			target = append(append(append([]int(nil), scn.Order[:chg.Pos-1]...), chg.S), scn.Order[chg.Pos-1:]...)
		}
		for i := 1; i <= n+1; i++ {
			uuid[i] = vRdvUUID(rng)
		}
		// concretise: search a block whose reference order is the abstract order
		found := false
		for try := 0; try < 200000; try++ {
			data = make([]byte, 8)
			rng.Read(data)
			hash = fmt.Sprintf("%x", md5.Sum(data))
			if vRdvEqual(vRdvRefOrder(hash, uuid, all), target) {
				found = true
				break
			}
		}
		if !found {
			return []map[string]interface{}{{"ev": "reset", "scn": scn.ID, "skipped": true, "ref": []int{}, "writable": []int{}, "hints": []int{}}}
		}
	}
	ids1 = append([]int(nil), ids0...)
	writable1 := append([]int(nil), writable0...)
	switch chg.Op {
	case "add":
		ids1 = append(ids1, chg.S)
		writable1 = append(writable1, chg.S)
	case "remove":
		ids1 = nil
		for _, i := range ids0 {
			if i != chg.S {
				ids1 = append(ids1, i)
			}
		}
		writable1 = nil
		for _, i := range writable0 {
			if i != chg.S {
				writable1 = append(writable1, i)
			}
		}
	}
	if hints == nil {
		hints = []int{}
	}
	if writable0 == nil {
		writable0 = []int{}
	}
	if writable1 == nil {
		writable1 = []int{}
	}

	// locator with hints
	loc := fmt.Sprintf("%s+%d", hash, len(data))
	unknownGW := vRdvUUID(rng)
	for i, h := range hints {
		switch {
		case h == 0 && i%2 == 0:
			loc += "+K@" + unknownGW // 27-char uuid of no known gateway
		case h == 0:
			loc += "+K@abcdefgh" // neither 5 nor 27 characters
		case h >= 100:
			loc += fmt.Sprintf("+K@abcd%d", h-100)
		default:
			loc += "+K@" + uuid[h]
		}
	}
	loc += "+Afakesignature@ffffffff"

	var evs []map[string]interface{}
	uu := map[string]string{}
	for i, u := range uuid {
		uu[strconv.Itoa(i)] = u
	}
	// One client lives through the service-list change (as a long-running process would): a
	// probe order remembered from before the change must not survive it.
	rec := &vRdvRecorder{host: map[string]int{}}
	for k := 1; k <= 9; k++ {
		rec.host[fmt.Sprintf("keep.abcd%d.arvadosapi.com", k)] = 100 + k
	}
	kc := &KeepClient{
		Arvados:       &arvadosclient.ArvadosClient{ApiToken: "verif-token", ApiServer: "localhost:9"},
		Want_replicas: 1, Retries: 0, HTTPClient: rec, BlockCache: &BlockCache{},
	}
	otherData := []byte("another block")
	observe := func(ids, writable []int) (rd, wr []int) {
		isW := map[int]bool{}
		for _, w := range writable {
			isW[w] = true
		}
		var items []string
		for _, id := range ids {
			host := fmt.Sprintf("keep%d.verif", id)
			rec.host[host+":25107"] = id
			items = append(items, fmt.Sprintf(`{"uuid":%q,"service_host":%q,"service_port":25107,"service_ssl_flag":false,"service_type":"disk","read_only":%v}`,
				uuid[id], host, !isW[id]))
		}
		rng.Shuffle(len(items), func(i, j int) { items[i], items[j] = items[j], items[i] })
		if err := kc.LoadKeepServicesFromJSON(`{"items":[` + strings.Join(items, ",") + `]}`); err != nil {
			panic(err)
		}
		if scn.ID%3 == 1 {
			// sometimes another block is handled in between
			kc.PutB(otherData)
			rec.take()
		}
		if r, _, _, err := kc.Get(loc); err == nil {
			r.Close()
			panic(errors.New("verif: Get unexpectedly succeeded"))
		}
		rd = rec.take()
		kc.PutB(data)
		wr = rec.take()
		if scn.ID%2 == 0 {
			// the order must not depend on what was asked before: ask again
			if r, _, _, err := kc.Get(loc); err == nil {
				r.Close()
			}
			if rd2 := rec.take(); !vRdvEqual(rd, rd2) {
				rd = rd2
			}
		}
		return
	}

	evs = append(evs, map[string]interface{}{"ev": "reset", "scn": scn.ID, "ref": vRdvRefOrder(hash, uuid, ids0),
		"writable": writable0, "hints": hints, "uuids": uu, "hash": hash, "size": len(data), "ids": ids0, "mode": scn.Mode})
	rd, wr := observe(ids0, writable0)
	evs = append(evs, map[string]interface{}{"ev": "read", "seq": rd}, map[string]interface{}{"ev": "write", "seq": wr})
	if chg.Op != "none" {
		evs = append(evs, map[string]interface{}{"ev": "change", "ref": vRdvRefOrder(hash, uuid, ids1), "writable": writable1,
			"op": chg.Op, "s": chg.S, "ids": ids1})
		rd, wr = observe(ids1, writable1)
		evs = append(evs, map[string]interface{}{"ev": "read", "seq": rd}, map[string]interface{}{"ev": "write", "seq": wr})
	}
	return evs
}

func TestVerifC12(t *testing.T) {
	var scns []vRdvScenario
	vReadNDJSON(os.Getenv("VERIF_SCENARIOS"), func() interface{} { scns = append(scns, vRdvScenario{}); return &scns[len(scns)-1] })
	out := vNewTraceWriter(os.Getenv("VERIF_TRACES"))
	defer out.Close()
	for _, scn := range scns {
		for _, ev := range vRunRdvScenario(scn) {
			out.Write(ev)
		}
	}
	fmt.Println("VERIF-DRIVER-DONE scenarios:", len(scns))
}
