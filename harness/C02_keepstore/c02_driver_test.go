//go:build verif

// RUN stage of C02 (DESIGN.md section 6, C02).  Drives the REAL keepstore PUT path on a Directory
// volume with process death, client disconnect and write errors at every yield point of the
// instrumented unix_volume.go, then observes through a handler (a fresh one after a kill) and
// records the abstract trace judged by specs/keepstore/KeepstorePutTrace.tla.  Decides nothing.
//
// Scenario fields (from KeepstorePut.tla's Gen configuration, plus extra kill points the check adds
// for source labels the model does not know):
//   rival2, rstop, rend  (mode none) the stalling rival: when this upload stands at rival2 a second PUT of the same
//          block is started and stepped to ITS label rstop (so it has created its temp file); this upload then
//          runs to its reply; then the second one is aborted (its client goes away) or finishes.  The two uploads
//          are told apart by their request contexts (verifPointCtx, vScheduler.byCtx).
//   ck     concretisation of corrupt_old: flip | trunc | ext | subst | empty (see vC02Corrupt)
//   pre    none | intact_old | corrupt_old | dir (directory at the block path: rename fails)
//          | nodir (regular file where the block directory should be: mkdir fails)
//   n      block size in chunks of the writer's copy loop: 0 (empty), 1 (small), 3 (80 KiB)
//   mode   none | kill | killack | cancel | werr | index (GET /index runs concurrently with the PUT, turn by
//          turn in the order `steps` gives: schedules of KeepVolume.tla, scheduler of hooks.go; the lines
//          it returned are judged by the contract's index clause at every instant of the write)
//   point  yield-point label, occ = which arrival at it
//   rival  (modes none/cancel/werr) label of THIS upload at which a second, overlapping PUT of the same block is
//          run from start to reply (it is acknowledged); then the fault of `mode` is armed and this upload goes on.
//          Both uploads are past CompareAndTouch before either has renamed.  Event "rivalack".
//
// kill / killack run the PUT in a CHILD process (this test binary re-executed with
// -test.run=TestVerifC02Child): verifPoint at the chosen label sends SIGKILL to itself; the parent
// then builds a fresh handler on the same volume directory ("restart").  cancel: the label's hook
// fires the CloseNotifier of the response writer, which cancels the request context; the driver
// waits until no WriteBlock call is in progress.  werr: the chunk writer returns an error.
// This file needs hooks.go and vks_common_test.go of harness/C04_keepstore (added by checks/C02.py).

package main

import (
	"bufio"
	"bytes"
	"context"
	"encoding/json"
	"fmt"
	"io/ioutil"
	"net/http"
	"net/http/httptest"
	"os"
	"os/exec"
	"path/filepath"
	"regexp"
	"runtime"
	"runtime/debug"
	"strconv"
	"strings"
	"sync"
	"syscall"
	"testing"
	"time"

	"git.arvados.org/arvados.git/sdk/go/ctxlog"
)

type vC02Scn struct {
	ID     int    `json:"id"`
	Pre    string `json:"pre"`
	N      int    `json:"n"`
	Mode   string `json:"mode"`
	Point  string `json:"point"`
	Occ    int    `json:"occ"`
	CK     string `json:"ck"`     // corruption kind of pre = corrupt_old
	Rival  string `json:"rival"`  // label at which a second PUT of the same block runs to its acknowledgement
	Rival2 string `json:"rival2"` // label of this PUT at which a second PUT starts and runs up to its label RStop ...
	RStop  string `json:"rstop"`
	REnd   string `json:"rend"` // ... and, after this PUT has been answered, is aborted ("abort") or finishes ("finish")
	Steps  []struct {
		A string `json:"a"`
		L string `json:"l"`
	} `json:"steps"` // mode "index": whose turn it is (w = the PUT, x = GET /index), from KeepVolume.tla
}

type vC02Child struct {
	Dirs    []string `json:"dirs"`
	N       int      `json:"n"`
	Label   string   `json:"label"`
	Occ     int      `json:"occ"`
	KillAck bool     `json:"killack"`
	LogFile string   `json:"logfile"`
	ResFile string   `json:"resfile"`
}

func vC02Block(n int) []byte {
	switch n {
	case 0:
		return []byte{}
	case 1:
		return []byte("verif C02 small block\n")
	}
	// the writer's io.Copy moves 32 KiB per Write: 80 KiB = 3 chunks with different content
	b := make([]byte, 80*1024)
	for i := range b {
		b[i] = byte('a' + (i/(32*1024))*7 + i%5)
	}
	return b
}

// vC02Corrupt concretises pre = "corrupt_old": the corruption kind ck is drawn by checks/C02.py
//
//	flip   one bit flipped          trunc  a proper prefix
//	ext    the block + appended bytes (an intact PREFIX: a comparison that stops early is fooled)
//	subst  a different block        empty  a zero-length file
//
// (for the empty block only ext and subst differ from the intact copy; others fall back to ext)
func vC02Corrupt(n int, ck string) []byte {
	b := append([]byte(nil), vC02Block(n)...)
	ext := append(append([]byte(nil), b...), []byte("trailing garbage\n")...)
	switch ck {
	case "subst":
		return []byte("verif C02: some other block altogether\n")
	case "ext":
		return ext
	}
	if len(b) == 0 {
		return ext
	}
	switch ck {
	case "trunc":
		return b[:len(b)/2]
	case "empty":
		return []byte{}
	}
	b[len(b)/2] ^= 0x01
	return b
}

func vC02Conf() vksConf {
	return vksConf{N: 1, RO: []bool{false}, Ser: false, Life: 2, TTL: 2, Trash: true}
}

// place the pre-state in dir (a volume root)
func vC02Populate(root string, pre string, n int, ck string) {
	hash := vksHash(vC02Block(n))
	bdir := filepath.Join(root, hash[:3])
	old := time.Now().Add(-3 * time.Hour)
	switch pre {
	case "intact_old":
		os.MkdirAll(bdir, 0755)
		ioutil.WriteFile(filepath.Join(bdir, hash), vC02Block(n), 0644)
		os.Chtimes(filepath.Join(bdir, hash), old, old)
	case "corrupt_old":
		os.MkdirAll(bdir, 0755)
		ioutil.WriteFile(filepath.Join(bdir, hash), vC02Corrupt(n, ck), 0644)
		os.Chtimes(filepath.Join(bdir, hash), old, old)
	case "dir":
		os.MkdirAll(filepath.Join(bdir, hash), 0755)
	case "nodir":
		ioutil.WriteFile(bdir, []byte("not a directory\n"), 0644)
	}
}

type vC02Notifier struct {
	*httptest.ResponseRecorder
	ch    chan bool
	mu    sync.Mutex
	wrote bool // the handler wrote a status line or body
	gone  bool // the client was made to go away (cancel point fired)
}

func (n *vC02Notifier) CloseNotify() <-chan bool { return n.ch }

func (n *vC02Notifier) WriteHeader(code int) {
	n.mu.Lock()
	n.wrote = true
	n.mu.Unlock()
	n.ResponseRecorder.WriteHeader(code)
}

func (n *vC02Notifier) Write(b []byte) (int, error) {
	n.mu.Lock()
	n.wrote = true
	n.mu.Unlock()
	return n.ResponseRecorder.Write(b)
}

// status: what the client got.  httptest's recorder says 200 until told otherwise; a handler that returns without
// writing anything does answer 200 to a client that is still there, but a client that has gone away has received
// nothing: 0.
func (n *vC02Notifier) status() int {
	n.mu.Lock()
	defer n.mu.Unlock()
	if !n.wrote && n.gone {
		return 0
	}
	return n.Code
}

var vC02BlockRe = regexp.MustCompile(`^[0-9a-f]{32}$`)

// classify the file at the block path
func vC02Class(root, pre string, n int, ck string) string {
	hash := vksHash(vC02Block(n))
	p := filepath.Join(root, hash[:3], hash)
	fi, err := os.Lstat(p)
	if err != nil {
		return "absent"
	}
	if fi.IsDir() {
		if pre == "dir" {
			return "pre"
		}
		return "other"
	}
	data, err := ioutil.ReadFile(p)
	if err != nil {
		return "other"
	}
	if bytes.Equal(data, vC02Block(n)) {
		return "complete"
	}
	if pre == "corrupt_old" && bytes.Equal(data, vC02Corrupt(n, ck)) {
		return "pre"
	}
	return "other"
}

func vC02Observe(srv *vksServer, scn *vC02Scn, log func(map[string]interface{})) {
	block := vC02Block(scn.N)
	hash := vksHash(block)
	root := srv.roots[0]
	// GET
	resp := srv.do("GET", "/"+hash, nil, vksSysToken)
	class := "error"
	if resp.Code >= 200 && resp.Code < 300 {
		if bytes.Equal(resp.Body.Bytes(), block) {
			class = "complete"
		} else {
			class = "partial"
		}
	}
	log(map[string]interface{}{"ev": "get", "class": class, "status": resp.Code})
	// index
	resp = srv.do("GET", "/index", nil, vksSysToken)
	entries := []string{}
	body := resp.Body.String()
	sc := bufio.NewScanner(strings.NewReader(body))
	sc.Buffer(make([]byte, 1<<20), 1<<20)
	for sc.Scan() {
		line := sc.Text()
		if line == "" {
			continue
		}
		cls := "other"
		f := strings.Fields(line)
		if len(f) == 2 {
			ns := strings.SplitN(f[0], "+", 2)
			if len(ns) == 2 && ns[0] == hash {
				size, err := strconv.Atoi(ns[1])
				switch fc := vC02Class(root, scn.Pre, scn.N, scn.CK); {
				case err != nil:
				case fc == "complete" && size == len(block):
					cls = "complete"
				case fc == "pre" && scn.Pre == "corrupt_old" && size == len(vC02Corrupt(scn.N, scn.CK)):
					cls = "pre"
				case fc == "pre" && scn.Pre == "dir":
					cls = "pre"
				}
			}
		}
		entries = append(entries, cls)
	}
	log(map[string]interface{}{"ev": "index", "entries": entries, "status": resp.Code, "terminated": strings.HasSuffix(body, "\n\n") || body == "\n"})
	// directory scan
	tmpblk, ntmp := false, 0
	files, _ := ioutil.ReadDir(filepath.Join(root, hash[:3]))
	for _, fi := range files {
		if fi.Name() == hash {
			continue
		}
		ntmp++
		if vC02BlockRe.MatchString(fi.Name()) {
			tmpblk = true
		}
	}
	log(map[string]interface{}{"ev": "dirscan", "blk": vC02Class(root, scn.Pre, scn.N, scn.CK), "tmpblk": tmpblk, "ntmp": ntmp})
}

// vC02IndexLines abstracts the lines of an index response by their text alone (the files may change
// under a concurrent request): "H+<size of the block>" is complete, "H+<size of the placed copy>" is
// pre, anything else (another name, another size) is other.
func vC02IndexLines(body string, scn *vC02Scn) []string {
	hash := vksHash(vC02Block(scn.N))
	entries := []string{}
	for _, line := range strings.Split(body, "\n") {
		if line == "" {
			continue
		}
		cls := "other"
		if f := strings.Fields(line); len(f) == 2 {
			switch {
			case f[0] == fmt.Sprintf("%s+%d", hash, len(vC02Block(scn.N))):
				cls = "complete"
			case scn.Pre == "corrupt_old" && f[0] == fmt.Sprintf("%s+%d", hash, len(vC02Corrupt(scn.N, scn.CK))):
				cls = "pre"
			}
		}
		entries = append(entries, cls)
	}
	return entries
}

// vC02RunIndexSchedule runs the PUT (actor w) and a GET /index (actor x) turn by turn.
func vC02RunIndexSchedule(srv *vksServer, scn *vC02Scn, reset map[string]interface{}) (putStatus int, entries []string) {
	block := vC02Block(scn.N)
	hash := vksHash(block)
	sched := vNewScheduler(map[string]string{"Compare": "w", "Touch": "w", "WriteBlock": "w", "IndexTo": "x"}, nil, srv.volIndex())
	vHook.mu.Lock()
	vHook.sched = sched
	vHook.mu.Unlock()
	defer func() {
		vHook.mu.Lock()
		vHook.sched = nil
		vHook.mu.Unlock()
	}()
	started := map[string]bool{}
	finished := map[string]bool{}
	var mu sync.Mutex
	start := func(a string) {
		started[a] = true
		go func() {
			if a == "w" {
				st := srv.do("PUT", "/"+hash, block, vksSysToken).Code
				mu.Lock()
				putStatus = st
				mu.Unlock()
			} else {
				resp := httptest.NewRecorder()
				func() {
					// IndexTo panics when an entry vanishes under Readdir(1); net/http would recover
					defer func() { recover() }()
					req, _ := http.NewRequest("GET", "/index", nil)
					req.Header.Set("Authorization", "OAuth2 "+vksSysToken)
					srv.h.ServeHTTP(resp, req)
				}()
				e := vC02IndexLines(resp.Body.String(), scn)
				mu.Lock()
				entries = e
				mu.Unlock()
			}
			sched.actorDone(a)
		}()
		sched.await(a, 20*time.Second)
	}
	turn := func(a string) {
		if !started[a] {
			start(a)
			return
		}
		if l, _ := sched.await(a, 1500*time.Millisecond); l == "done" {
			finished[a] = true
		} else if l != "" {
			sched.release(a)
			if l2, _ := sched.await(a, 1500*time.Millisecond); l2 == "done" {
				finished[a] = true
			}
		}
	}
	for _, st := range scn.Steps {
		if st.A == "w" || st.A == "x" {
			turn(st.A)
		}
	}
	for _, a := range []string{"w", "x"} {
		if !started[a] {
			start(a)
		}
	}
	for round := 0; round < 10000 && !(finished["w"] && finished["x"]); round++ {
		for _, a := range []string{"w", "x"} {
			if !finished[a] {
				turn(a)
			}
		}
	}
	sched.freeAll()
	reset["order"] = append([]string{}, sched.executed...)
	mu.Lock()
	defer mu.Unlock()
	return putStatus, entries
}

// vC02WaitQuiet waits until the request has left nothing running: no call of a write-path method is in
// progress (counters kept by verifEnter/verifExit) AND the number of goroutines is back to what it was
// before the request (base) - a writer goroutine that putWithPipe has started but that has not entered
// WriteBlock yet is not visible in the counters.
// vC02RunRival: upload B (the scenario's PUT, rec/req) is stepped to scn.Rival; upload A of the same block then runs
// uncontrolled (the scheduler does not park a second goroutine of an actor that is already parked) and is answered;
// then B's fault is armed (the arrival counts of the labels include A's) and B is set free.
func vC02RunRival(srv *vksServer, scn *vC02Scn, rec *vC02Notifier, req *http.Request, log func(map[string]interface{})) bool {
	block := vC02Block(scn.N)
	sched := vNewScheduler(map[string]string{"Compare": "w", "Touch": "w", "WriteBlock": "w"}, nil, srv.volIndex())
	vHook.mu.Lock()
	vHook.sched = sched
	vHook.mu.Unlock()
	done := make(chan struct{})
	go func() {
		srv.h.ServeHTTP(rec, req)
		sched.actorDone("w")
		close(done)
	}()
	reached := false
	for i := 0; i < 1000; i++ {
		l, _ := sched.await("w", 20*time.Second)
		if l == "done" || l == "" {
			break
		}
		if l == scn.Rival {
			reached = true
			break
		}
		sched.release("w")
	}
	if reached {
		// A runs while B is parked.  Should A need something B holds (B parked inside its flock section), A
		// cannot finish: B is then set free first and the scenario counts as not applied.
		ach := make(chan int, 1)
		go func() { ach <- srv.do("PUT", "/"+vksHash(block), block, vksSysToken).Code }()
		var st int
		select {
		case st = <-ach:
		case <-time.After(5 * time.Second):
			sched.freeAll()
			<-done
			<-ach
			vHook.mu.Lock()
			vHook.sched = nil
			vHook.mu.Unlock()
			return false
		}
		if st >= 200 && st < 300 {
			log(map[string]interface{}{"ev": "rivalack", "st": st})
		}
		vHook.mu.Lock()
		switch scn.Mode {
		case "cancel":
			vHook.cancelLabel, vHook.cancelN = scn.Point, vHook.seen[scn.Point]+1
			vHook.cancelFn = func() {
				rec.mu.Lock()
				rec.gone = true
				rec.mu.Unlock()
				select {
				case rec.ch <- true:
				default:
				}
				time.Sleep(2 * time.Millisecond)
			}
		case "werr":
			vHook.errLabel = scn.Point
		}
		vHook.mu.Unlock()
	}
	sched.freeAll()
	<-done
	vHook.mu.Lock()
	vHook.sched = nil
	vHook.mu.Unlock()
	return reached
}

// vC02RunRival2: see the scenario fields rival2 / rstop / rend.  Returns whether the schedule could be applied and
// the status of the second upload.
func vC02RunRival2(srv *vksServer, scn *vC02Scn, rec *vC02Notifier, req *http.Request, log func(map[string]interface{})) bool {
	block := vC02Block(scn.N)
	hash := vksHash(block)
	sched := vNewScheduler(map[string]string{"Compare": "w", "Touch": "w", "WriteBlock": "w"}, nil, srv.volIndex())
	sched.byCtx = true
	vHook.mu.Lock()
	vHook.sched = sched
	vHook.mu.Unlock()
	defer func() {
		vHook.mu.Lock()
		vHook.sched = nil
		vHook.mu.Unlock()
	}()
	stepTo := func(actor, label string) bool {
		for i := 0; i < 1000; i++ {
			l, _ := sched.await(actor, 20*time.Second)
			if l == "done" || l == "" {
				return false
			}
			if l == label {
				return true
			}
			sched.release(actor)
		}
		return false
	}
	fdone := make(chan struct{})
	go func() {
		srv.h.ServeHTTP(rec, req)
		sched.actorDone("w1")
		close(fdone)
	}()
	applied := stepTo("w1", scn.Rival2)
	rec2 := &vC02Notifier{ResponseRecorder: httptest.NewRecorder(), ch: make(chan bool, 1)}
	rdone := make(chan struct{})
	if applied {
		req2, _ := http.NewRequest("PUT", "/"+hash, bytes.NewReader(block))
		req2.Header.Set("Authorization", "OAuth2 "+vksSysToken)
		go func() {
			srv.h.ServeHTTP(rec2, req2)
			sched.actorDone("w2")
			close(rdone)
		}()
		applied = stepTo("w2", scn.RStop)
	}
	// the first upload runs to its reply (the second one is parked, or over)
	for i := 0; i < 1000; i++ {
		l, _ := sched.await("w1", 5*time.Second)
		if l == "done" {
			break
		}
		if l == "" { // blocked by something the second one holds: let everything go
			applied = false
			sched.freeAll()
			break
		}
		sched.release("w1")
	}
	<-fdone
	log(map[string]interface{}{"ev": "outcome", "kind": "reply", "st": rec.status()})
	select {
	case <-rdone: // never started or already over
		if !applied {
			sched.freeAll()
			return false
		}
	default:
	}
	if applied && scn.REnd == "abort" {
		select {
		case rec2.ch <- true:
		default:
		}
		time.Sleep(5 * time.Millisecond)
	}
	sched.freeAll()
	select {
	case <-rdone:
	case <-time.After(30 * time.Second):
		return false
	}
	if st := rec2.status(); applied && st >= 200 && st < 300 {
		log(map[string]interface{}{"ev": "rivalack", "st": st})
	}
	return applied
}

// vC02Base samples the number of goroutines once it has stopped changing (handlers stopped by an earlier
// scenario let their workers exit asynchronously).
func vC02Base() int {
	n := runtime.NumGoroutine()
	for same := 0; same < 5; {
		time.Sleep(time.Millisecond)
		if m := runtime.NumGoroutine(); m == n {
			same++
		} else {
			n, same = m, 0
		}
	}
	return n
}

func vC02WaitQuiet(base int) bool {
	deadline := time.Now().Add(30 * time.Second)
	for time.Now().Before(deadline) {
		if vHookActive("WriteBlock") == 0 && vHookActive("Touch") == 0 && vHookActive("Compare") == 0 &&
			runtime.NumGoroutine() <= base {
			return true
		}
		time.Sleep(200 * time.Microsecond)
	}
	return false
}

type vC02KillResult struct {
	killed bool
	status int
	labels []string
	errmsg string
}

func vC02RunChild(dir string, scn *vC02Scn) vC02KillResult {
	cfg := vC02Child{Dirs: []string{dir}, N: scn.N, Label: scn.Point, Occ: scn.Occ, KillAck: scn.Mode == "killack",
		LogFile: dir + ".labels", ResFile: dir + ".result"}
	if scn.Mode == "killack" {
		cfg.Label = ""
	}
	js, _ := json.Marshal(cfg)
	cmd := exec.Command(os.Args[0], "-test.run=^TestVerifC02Child$", "-test.count=1")
	cmd.Env = append(os.Environ(), "VERIF_C02_CHILD="+string(js))
	out, err := cmd.CombinedOutput()
	res := vC02KillResult{}
	if err != nil {
		if ee, ok := err.(*exec.ExitError); ok {
			if ws, ok := ee.Sys().(syscall.WaitStatus); ok && ws.Signaled() && ws.Signal() == syscall.SIGKILL {
				res.killed = true
			} else {
				res.errmsg = fmt.Sprintf("child failed: %v: %s", err, string(out))
			}
		} else {
			res.errmsg = fmt.Sprintf("child not started: %v", err)
		}
	}
	if b, err := ioutil.ReadFile(cfg.ResFile); err == nil {
		var r struct{ Status int }
		json.Unmarshal(b, &r)
		res.status = r.Status
	}
	if b, err := ioutil.ReadFile(cfg.LogFile); err == nil {
		for _, ln := range strings.Split(strings.TrimSpace(string(b)), "\n") {
			if f := strings.Fields(ln); len(f) == 2 {
				res.labels = append(res.labels, f[0])
			}
		}
	}
	os.Remove(cfg.ResFile)
	os.Remove(cfg.LogFile)
	return res
}

// TestVerifC02Child is the process that gets killed.
func TestVerifC02Child(t *testing.T) {
	js := os.Getenv("VERIF_C02_CHILD")
	if js == "" {
		t.Skip("only run as a child of TestVerifC02")
	}
	ctxlog.SetLevel("panic")
	var cfg vC02Child
	if err := json.Unmarshal([]byte(js), &cfg); err != nil {
		t.Fatal(err)
	}
	srv := vksStart(t, "", vC02Conf(), cfg.Dirs)
	vHookReset()
	vHook.mu.Lock()
	vHook.killLabel, vHook.killN, vHook.killFile = cfg.Label, cfg.Occ, cfg.LogFile
	vHook.mu.Unlock()
	block := vC02Block(cfg.N)
	st := srv.do("PUT", "/"+vksHash(block), block, vksSysToken).Code
	ioutil.WriteFile(cfg.ResFile, []byte(fmt.Sprintf(`{"Status":%d}`, st)), 0644)
	if cfg.KillAck {
		syscall.Kill(os.Getpid(), syscall.SIGKILL)
		select {}
	}
	os.Exit(0)
}

func TestVerifC02(t *testing.T) {
	if os.Getenv("VERIF_C02_CHILD") != "" {
		t.Skip("child process")
	}
	// every handler request takes a 64 MiB buffer from a sync.Pool that each GC empties: collect rarely
	defer debug.SetGCPercent(debug.SetGCPercent(1000))
	ctxlog.SetLevel("panic")
	var scns []*vC02Scn
	vReadNDJSON(os.Getenv("VERIF_SCENARIOS"), func() interface{} {
		s := &vC02Scn{}
		scns = append(scns, s)
		return s
	})
	tw := vNewTraceWriter(os.Getenv("VERIF_TRACES"))
	defer tw.Close()
	parent, err := ioutil.TempDir(os.Getenv("VERIF_SCRATCH"), "c02-")
	if err != nil {
		t.Fatal(err)
	}
	defer os.RemoveAll(parent)
	t0 := time.Now()

	// 1. kill scenarios: children in parallel (each on its own directory)
	kills := map[int]vC02KillResult{}
	dirs := map[int]string{}
	var mu sync.Mutex
	var wg sync.WaitGroup
	sem := make(chan struct{}, 6)
	for _, scn := range scns {
		if scn.Mode != "kill" && scn.Mode != "killack" {
			continue
		}
		dir, _ := ioutil.TempDir(parent, "k")
		dirs[scn.ID] = dir
		vC02Populate(dir, scn.Pre, scn.N, scn.CK)
		wg.Add(1)
		go func(scn *vC02Scn) {
			defer wg.Done()
			sem <- struct{}{}
			defer func() { <-sem }()
			r := vC02RunChild(dir, scn)
			mu.Lock()
			kills[scn.ID] = r
			mu.Unlock()
		}(scn)
	}
	wg.Wait()
	fmt.Printf("VERIF-C02 children=%d wall=%.1fs\n", len(dirs), time.Since(t0).Seconds())

	// 2. everything else in-process, and the observations
	for _, scn := range scns {
		events := []map[string]interface{}{}
		log := func(ev map[string]interface{}) { events = append(events, ev) }
		reset := map[string]interface{}{"ev": "reset", "scn": scn.ID, "pre": scn.Pre, "n": scn.N, "mode": scn.Mode,
			"point": scn.Point, "occ": scn.Occ, "ck": scn.CK, "rival": scn.Rival, "rival2": scn.Rival2, "rstop": scn.RStop, "rend": scn.REnd}
		log(reset)
		log(map[string]interface{}{"ev": "start", "pre": scn.Pre})
		block := vC02Block(scn.N)
		hash := vksHash(block)
		switch scn.Mode {
		case "kill", "killack":
			r := kills[scn.ID]
			if r.errmsg != "" {
				reset["infra"] = r.errmsg
			}
			reset["labels"] = r.labels
			reset["reached"] = r.killed
			if r.killed && scn.Mode == "kill" {
				log(map[string]interface{}{"ev": "outcome", "kind": "crash", "st": 0})
			} else {
				log(map[string]interface{}{"ev": "outcome", "kind": "reply", "st": r.status})
			}
			srv := vksStart(t, "", vC02Conf(), []string{dirs[scn.ID]})
			log(map[string]interface{}{"ev": "restart"})
			vC02Observe(srv, scn, log)
			srv.stop()
			os.RemoveAll(dirs[scn.ID])
		default:
			srv := vksGet(t, parent, vC02Conf())
			vC02Populate(srv.roots[0], scn.Pre, scn.N, scn.CK)
			vHookReset()
			rec := &vC02Notifier{ResponseRecorder: httptest.NewRecorder(), ch: make(chan bool, 1)}
			vHook.mu.Lock()
			switch scn.Mode + map[bool]string{true: "+rival", false: ""}[scn.Rival != ""] {
			case "cancel":
				vHook.cancelLabel, vHook.cancelN = scn.Point, scn.Occ
				vHook.cancelFn = func() {
					rec.mu.Lock()
					rec.gone = true
					rec.mu.Unlock()
					select {
					case rec.ch <- true:
					default:
					}
					// contextForResponse cancels asynchronously; give the goroutine that watches
					// CloseNotify a chance before the code goes on (either order is a legal execution)
					time.Sleep(2 * time.Millisecond)
				}
			case "werr":
				vHook.errLabel = scn.Point
			}
			vHook.mu.Unlock()
			if scn.Mode == "index" {
				os.MkdirAll(filepath.Join(srv.roots[0], hash[:3]), 0755) // the model's IndexTo finds the block directory
				base := vC02Base()
				st, entries := vC02RunIndexSchedule(srv, scn, reset)
				reset["reached"] = true
				log(map[string]interface{}{"ev": "outcome", "kind": "reply", "st": st})
				log(map[string]interface{}{"ev": "indexduring", "entries": entries})
				if !vC02WaitQuiet(base) {
					reset["infra"] = "writer goroutine did not finish"
				}
				vHookReset()
				vC02Observe(srv, scn, log)
				os.RemoveAll(filepath.Join(srv.roots[0], hash[:3]))
				for _, ev := range events {
					tw.Write(ev)
				}
				continue
			}
			req, _ := http.NewRequest("PUT", "/"+hash, bytes.NewReader(block))
			req = req.WithContext(context.Background())
			req.Header.Set("Authorization", "OAuth2 "+vksSysToken)
			base := vC02Base()
			rivalRan := true
			if scn.Rival2 != "" {
				rivalRan = vC02RunRival2(srv, scn, rec, req, log)
			} else if scn.Rival != "" {
				rivalRan = vC02RunRival(srv, scn, rec, req, log)
			} else {
				srv.h.ServeHTTP(rec, req)
			}
			vHook.mu.Lock()
			reached := rivalRan && (scn.Mode == "none" || vHook.seen[scn.Point] >= scn.Occ)
			labels := append([]string{}, vHook.order...)
			vHook.mu.Unlock()
			reset["reached"] = reached
			for i := range labels {
				labels[i] = strings.SplitN(labels[i], "@", 2)[0]
			}
			reset["labels"] = labels
			if scn.Rival2 == "" { // (vC02RunRival2 logs the outcome itself, before the rival's end)
				log(map[string]interface{}{"ev": "outcome", "kind": "reply", "st": rec.status()})
			}
			if !vC02WaitQuiet(base) {
				reset["infra"] = "writer goroutine did not finish"
			}
			vHookReset()
			vC02Observe(srv, scn, log)
			// a regular file in place of the block directory would survive vksGet's cleanup
			os.RemoveAll(filepath.Join(srv.roots[0], hash[:3]))
		}
		for _, ev := range events {
			tw.Write(ev)
		}
	}
	vksStopAll()
	vHookReset()
	fmt.Printf("VERIF-C02 scenarios=%d wall=%.1fs\n", len(scns), time.Since(t0).Seconds())
	fmt.Println("VERIF-DRIVER-DONE")
}
