//go:build verif

// RUN stage of C10 for codec "gofs" (sdk/go/arvados): Collection.FileSystem -> dirnode.loadManifest,
// reads through the public file API, PortableDataHash, Collection.SizedDigests.
//
// Per scenario (abstract manifest, see vc10_common): render the text (block contents identify block and
// offset), load it over a fake Keep, then record
//   load     ok | error | panic (recover; a crash or hang is caught by the parent, vC10RunIsolated), with
//            every regular file found by walking the filesystem with Open/Readdir
//   file     via "segments": the storedSegments loadManifest attached to the filenode
//            via "read":     io.ReadAll through the file API, positions recovered from the bytes
//            via "chunk":    Seek + ReadFull of seeded sub-ranges
//   pdh      PortableDataHash(text with hints) vs MD5+length of the hint-free rendering;
//            SizedDigests projected to block ids
// Mutated scenarios (mut != ""): only the load outcome.
//
// The driver decides nothing.

package arvados

import (
	"crypto/md5"
	"fmt"
	"io"
	"math/rand"
	"sort"
	"testing"
)

type vC10Keep struct{ w *vC10World }

func (k vC10Keep) ReadAt(locator string, p []byte, off int) (int, error) {
	return k.w.ReadAt(locator, p, off)
}
func (k vC10Keep) PutB(p []byte) (string, int, error) {
	return "", 0, fmt.Errorf("verif: read-only fake keep")
}
func (k vC10Keep) LocalLocator(locator string) (string, error) { return locator, nil }

func vC10FsLoad(text string, kc keepClient) (fs CollectionFileSystem, kind, detail string) {
	defer func() {
		if r := recover(); r != nil {
			vC10OnlyCodecPanics(r)
			kind, detail = "panic", fmt.Sprint(r)
		}
	}()
	fs, err := (&Collection{ManifestText: text}).FileSystem(nil, kc)
	if err != nil {
		return nil, "error", err.Error()
	}
	return fs, "ok", ""
}

func vC10FsWalk(fs CollectionFileSystem, dir string, out *[]string) error {
	name := dir
	if name == "" {
		name = "/"
	}
	f, err := fs.Open(name)
	if err != nil {
		return err
	}
	defer f.Close()
	fis, err := f.Readdir(-1)
	if err != nil {
		return err
	}
	for _, fi := range fis {
		p := dir + "/" + fi.Name()
		if fi.IsDir() {
			if err := vC10FsWalk(fs, p, out); err != nil {
				return err
			}
		} else {
			*out = append(*out, p)
		}
	}
	return nil
}

func vC10FsFile(fs CollectionFileSystem, w *vC10World, p string, rnd *rand.Rand) (ev vC10Ev) {
	obs := []vC10Ev{}
	ev = vC10Ev{"ev": "file", "path": vC10Bytes("." + p), "kind": "ok"}
	defer func() {
		if r := recover(); r != nil {
			vC10OnlyCodecPanics(r)
			ev["kind"], ev["detail"] = "panic", fmt.Sprint(r)
		}
		ev["obs"] = obs
	}()
	fail := func(what string, err error) vC10Ev {
		ev["kind"], ev["detail"] = "error", what+": "+err.Error()
		return ev
	}
	f, err := fs.Open(p)
	if err != nil {
		return fail("open", err)
	}
	defer f.Close()
	// the segments loadManifest built
	if fh, ok := f.(*filehandle); ok {
		if fn, ok := fh.inode.(*filenode); ok {
			// (internal representation: observed only while it is the value type this driver knows; anything
			// else is reported as drift by the check and the byte-level reads below decide - audit C10-3)
			segs, known := [][]int{}, true
			for _, sg := range fn.segments {
				if ss, ok := sg.(storedSegment); ok {
					segs = append(segs, []int{w.idOfLocator(ss.locator), ss.offset, ss.length})
				} else {
					known = false
				}
			}
			if known {
				obs = append(obs, vC10Ev{"via": "segments", "start": 0, "n": -1, "segs": segs})
			} else {
				ev["segtype_unknown"] = true
			}
		}
	}
	// whole file through the API
	data, err := io.ReadAll(f)
	if err != nil {
		return fail("read", err)
	}
	obs = append(obs, vC10Ev{"via": "read", "start": 0, "n": -1, "segs": w.segsOfBytes(data)})
	fi, err := f.Stat()
	if err != nil {
		return fail("stat", err)
	}
	size := int(fi.Size())
	// sub-ranges: the size reported by Stat decides what is asked; the contract checks start+n <= real size
	for k := 0; k < 2 && size > 0; k++ {
		start := rnd.Intn(size)
		n := 1 + rnd.Intn(size-start)
		if _, err := f.Seek(int64(start), io.SeekStart); err != nil {
			return fail("seek", err)
		}
		buf := make([]byte, n)
		got, err := io.ReadFull(f, buf)
		if err != nil && err != io.ErrUnexpectedEOF && err != io.EOF {
			return fail("chunk", err)
		}
		obs = append(obs, vC10Ev{"via": "chunk", "start": start, "n": n, "segs": w.segsOfBytes(buf[:got])})
	}
	return ev
}

// vC10FsReadAll: outcome of reading one whole file: {"kind":"ok"|"error"|"panic","n":bytes delivered}
func vC10FsReadAll(fs CollectionFileSystem, p string) (r vC10Ev) {
	r = vC10Ev{"kind": "ok", "n": 0}
	defer func() {
		if x := recover(); x != nil {
			vC10OnlyCodecPanics(x)
			r["kind"], r["detail"] = "panic", fmt.Sprint(x)
		}
	}()
	f, err := fs.Open(p)
	if err != nil {
		r["kind"] = "error"
		return
	}
	defer f.Close()
	data, err := io.ReadAll(f)
	r["n"] = len(data)
	if err != nil {
		r["kind"] = "error"
	}
	return
}

func vC10FsRun(s *vC10Scenario) (evs []vC10Ev) {
	w := vC10NewWorld(s.Streams)
	text := w.render(s.Streams, false)
	if s.Mut != "" {
		text = vC10Mutate(text, s.Streams, s.Mut, s.MutArg)
		fs, kind, detail := vC10FsLoad(text, vC10Keep{w})
		// a loader may also report a malformed token lazily, when the file is read (audit C10-7): read everything
		reads := []vC10Ev{}
		if kind == "ok" {
			var paths []string
			if err := vC10FsWalk(fs, "", &paths); err != nil {
				reads = append(reads, vC10Ev{"kind": "error", "n": 0})
			}
			for _, p := range paths {
				reads = append(reads, vC10FsReadAll(fs, p))
			}
		}
		return append(evs, vC10Ev{"ev": "load", "kind": kind, "detail": detail, "paths": [][]int{}, "reads": reads})
	}
	fs, kind, detail := vC10FsLoad(text, vC10Keep{w})
	if kind != "ok" {
		return append(evs, vC10Ev{"ev": "load", "kind": kind, "detail": detail, "paths": [][]int{}, "reads": []vC10Ev{}})
	}
	var paths []string
	if err := vC10FsWalk(fs, "", &paths); err != nil {
		return append(evs, vC10Ev{"ev": "load", "kind": "error", "detail": "walk: " + err.Error(), "paths": [][]int{}, "reads": []vC10Ev{}})
	}
	sort.Strings(paths)
	lst := [][]int{}
	for _, p := range paths {
		lst = append(lst, vC10Bytes("."+p))
	}
	evs = append(evs, vC10Ev{"ev": "load", "kind": "ok", "paths": lst, "reads": []vC10Ev{}})
	rnd := rand.New(rand.NewSource(s.RSeed))
	for _, p := range paths {
		evs = append(evs, vC10FsFile(fs, w, p, rnd))
	}
	// portable data hash: the code's answer for the text as rendered (with hints) against MD5+length of the
	// same abstract manifest rendered with every locator reduced to hash+size; SizedDigests as block ids
	plain := w.render(s.Streams, true)
	pd := vC10Ev{"ev": "pdh", "got": PortableDataHash(text), "want": fmt.Sprintf("%x+%d", md5.Sum([]byte(plain)), len(plain)),
		"dkind": "ok", "blocks": []int{}}
	sds, err := (&Collection{ManifestText: text}).SizedDigests()
	if err != nil {
		pd["dkind"] = "error"
		pd["detail"] = err.Error()
	} else {
		ids := []int{}
		for _, sd := range sds {
			id := w.idOfLocator(string(sd))
			if _, known := w.hash[id%10000]; !known || string(sd) != w.locator(id%10000) {
				id = 9997 // not one of the blocks reduced to hash+size
			}
			ids = append(ids, id)
		}
		pd["blocks"] = ids
	}
	evs = append(evs, pd)
	return
}

func TestVerifC10GoFs(t *testing.T) {
	vC10RunIsolated(t, "TestVerifC10GoFs", "gofs", vC10FsRun)
	fmt.Println("VERIF-DRIVER-DONE")
}
