//go:build verif

// RUN stage of C05 (DESIGN.md section 6, C05): builds a Balancer the way balance_test.go does, calls
// the real cleanupMounts, setupLookupTables and balanceBlock for one layout per scenario, and records
// the computed trash requests, pull requests and the lost flag.  Judged by
// specs/balance/BalanceTrace.tla (BalanceContract).  The driver decides nothing.
//
// Scenario: {"id", "lay": {n, srv[], ro[], dev[], repl[], cls[[..]..], has[], mt[], srvro[], cut,
// desired{default,special}}} from BalanceBlock.tla, or {"mode":"random","rseed",...}: a seeded random
// layout of up to 16 servers built here.
//
// Concretisation (seeded): server numbers are rendezvous ranks - random server UUIDs are generated and
// handed out in the order the real keepclient.NewRootSorter ranks them for the block; device 0 becomes a
// blank or a unique DeviceID, device k > 0 one shared DeviceID; mtime t becomes MinMtime + (t - cut) us;
// class set {"default"} becomes no StorageClasses or {"default": true}; blk.Replicas is shuffled.
// Abstraction: the layout reported in the reset event is the one left after the real cleanupMounts
// (mounts renumbered in server order), trash/pull requests are mapped back to mount / server numbers.

package main

import (
	"crypto/md5"
	"fmt"
	"io"
	"math/rand"
	"os"
	"sort"
	"strconv"
	"testing"

	"git.arvados.org/arvados.git/sdk/go/arvados"
	"git.arvados.org/arvados.git/sdk/go/keepclient"
	"github.com/sirupsen/logrus"
)

type vBalLay struct {
	N       int            `json:"n"`
	Srv     []int          `json:"srv"`
	RO      []bool         `json:"ro"`
	Dev     []int          `json:"dev"`
	Repl    []int          `json:"repl"`
	Cls     [][]string     `json:"cls"`
	Has     []bool         `json:"has"`
	Mt      []int          `json:"mt"`
	SrvRO   []int          `json:"srvro"`
	Cut     int            `json:"cut"`
	Desired map[string]int `json:"desired"`
}

type vBalScn struct {
	ID    int     `json:"id"`
	Lay   vBalLay `json:"lay"`
	Mode  string  `json:"mode"`
	RSeed int64   `json:"rseed"`
	NSrv  int     `json:"nsrv"`
}

func vBalRandomLayout(rng *rand.Rand, nsrv int) vBalLay {
	lay := vBalLay{Cut: 5, Desired: map[string]int{}}
	classSets := [][]string{{"default"}, {"default"}, {"special"}, {"default", "special"}}
	type devInfo struct {
		repl int
		cls  []string
		ro   bool
		srvs map[int]bool
	}
	shared := map[int]*devInfo{}
	nshared := rng.Intn(3)
	for s := 1; s <= nsrv; s++ {
		nm := 1
		if rng.Intn(4) == 0 {
			nm = 2
		}
		for k := 0; k < nm; k++ {
			dev := 0
			repl := 1 + rng.Intn(3)
			if rng.Intn(3) > 0 {
				repl = 1
			}
			cls := classSets[rng.Intn(len(classSets))]
			ro := rng.Intn(6) == 0
			if nshared > 0 && rng.Intn(3) == 0 {
				d := 1 + rng.Intn(nshared)
				di := shared[d]
				if di == nil {
					di = &devInfo{repl: repl, cls: cls, ro: ro, srvs: map[int]bool{}}
					shared[d] = di
				}
				if !di.srvs[s] {
					di.srvs[s] = true
					dev, repl, cls = d, di.repl, di.cls
					if rng.Intn(4) > 0 {
						ro = di.ro // mostly the same flag; a differing one exercises cleanupMounts
					}
				}
			}
			lay.N++
			lay.Srv = append(lay.Srv, s)
			lay.RO = append(lay.RO, ro)
			lay.Dev = append(lay.Dev, dev)
			lay.Repl = append(lay.Repl, repl)
			lay.Cls = append(lay.Cls, cls)
			lay.Has = append(lay.Has, false)
			lay.Mt = append(lay.Mt, 1)
		}
	}
	// replicas: physical copies per device, seen by every view (mostly) with the same mtime (mostly)
	mts := []int{1, 2, 3, 9}
	p := []float64{0.15, 0.3, 0.6}[rng.Intn(3)]
	devMt := map[int]int{}
	for m := 0; m < lay.N; m++ {
		if d := lay.Dev[m]; d != 0 {
			if _, ok := devMt[d]; !ok {
				devMt[d] = 0
				if rng.Float64() < p {
					devMt[d] = mts[rng.Intn(len(mts))]
				}
			}
			if devMt[d] != 0 && rng.Intn(8) > 0 {
				lay.Has[m] = true
				lay.Mt[m] = devMt[d]
				if rng.Intn(6) == 0 {
					lay.Mt[m] = mts[rng.Intn(len(mts))]
				}
			}
		} else if rng.Float64() < p {
			lay.Has[m] = true
			lay.Mt[m] = mts[rng.Intn(len(mts))]
		}
	}
	if rng.Intn(5) == 0 {
		lay.SrvRO = append(lay.SrvRO, 1+rng.Intn(nsrv))
	}
	lay.Desired["default"] = rng.Intn(5)
	if rng.Intn(2) == 0 {
		lay.Desired["special"] = rng.Intn(5)
	}
	return lay
}

func vRunBalanceScenario(scn vBalScn, seed int64) []map[string]interface{} {
	rng := rand.New(rand.NewSource(seed*1000003 + int64(scn.ID)*7919 + scn.RSeed))
	lay := scn.Lay
	if scn.Mode == "random" {
		lay = vBalRandomLayout(rng, scn.NSrv)
	}
	blkid := arvados.SizedDigest(fmt.Sprintf("%x+64", md5.Sum([]byte(fmt.Sprintf("verif-%d-%d", scn.ID, rng.Int63())))))
	nsrv := 0
	for _, s := range lay.Srv {
		if s > nsrv {
			nsrv = s
		}
	}
	for _, s := range lay.SrvRO {
		if s > nsrv {
			nsrv = s
		}
	}
	// server UUIDs in the real rendezvous order of this block
	roots := map[string]string{}
	for len(roots) < nsrv {
		u := fmt.Sprintf("zzzzz-bi6l4-%015x", rng.Int63n(1<<59))
		roots[u] = u
	}
	ranked := keepclient.NewRootSorter(roots, string(blkid[:32])).GetSortedRoots()

	logger := logrus.New()
	logger.Out = io.Discard
	bal := &Balancer{Logger: logger, KeepServices: map[string]*KeepService{}}
	const minMtime = int64(1600000000) * 1e9
	bal.MinMtime = minMtime
	srvs := make([]*KeepService, nsrv+1)
	srvNum := map[*KeepService]int{}
	sro := map[int]bool{}
	for _, s := range lay.SrvRO {
		sro[s] = true
	}
	for s := 1; s <= nsrv; s++ {
		srv := &KeepService{KeepService: arvados.KeepService{UUID: ranked[s-1], ServiceHost: fmt.Sprintf("keep%d.verif", s),
			ServicePort: 25107, ServiceType: "disk", ReadOnly: sro[s]}, ChangeSet: &ChangeSet{}}
		srvs[s] = srv
		srvNum[srv] = s
		bal.KeepServices[srv.UUID] = srv
	}
	sharedName := map[int]string{}
	type mountInfo struct {
		mnt  *KeepMount
		dev  int
		cls  []string
		has  bool
		mt   int
		orig int
	}
	var infos []*mountInfo
	for m := 0; m < lay.N; m++ {
		devid := ""
		if d := lay.Dev[m]; d != 0 {
			if sharedName[d] == "" {
				sharedName[d] = fmt.Sprintf("shared-%d-%x", d, rng.Int31())
			}
			devid = sharedName[d]
		} else if rng.Intn(2) == 0 {
			devid = fmt.Sprintf("unique-%d-%x", m+1, rng.Int31())
		}
		var sc map[string]bool
		if !(len(lay.Cls[m]) == 1 && lay.Cls[m][0] == "default" && rng.Intn(2) == 0) {
			sc = map[string]bool{}
			for _, c := range lay.Cls[m] {
				sc[c] = true
			}
		}
		srv := srvs[lay.Srv[m]]
		mnt := &KeepMount{KeepMount: arvados.KeepMount{UUID: fmt.Sprintf("zzzzz-ivpuk-%015d", m+1), DeviceID: devid,
			ReadOnly: lay.RO[m], Replication: lay.Repl[m], StorageClasses: sc}, KeepService: srv}
		srv.mounts = append(srv.mounts, mnt)
		infos = append(infos, &mountInfo{mnt: mnt, dev: lay.Dev[m], cls: lay.Cls[m], has: lay.Has[m], mt: lay.Mt[m], orig: m + 1})
	}
	bal.cleanupMounts()
	bal.setupLookupTables()

	// effective layout: surviving mounts, numbered in server order
	infoOf := map[*KeepMount]*mountInfo{}
	for _, in := range infos {
		infoOf[in.mnt] = in
	}
	eff := map[string]interface{}{"cut": lay.Cut}
	var esrv, edev, erepl, emt, eorig []int
	var ero, ehas []bool
	var ecls [][]string
	num := map[*KeepMount]int{}
	blk := &BlockState{Desired: map[string]int{}}
	for s := 1; s <= nsrv; s++ {
		for _, mnt := range srvs[s].mounts {
			in := infoOf[mnt]
			num[mnt] = len(esrv) + 1
			esrv = append(esrv, s)
			ero = append(ero, lay.RO[in.orig-1])
			edev = append(edev, in.dev)
			erepl = append(erepl, mnt.Replication)
			ecls = append(ecls, in.cls)
			ehas = append(ehas, in.has)
			emt = append(emt, in.mt)
			eorig = append(eorig, in.orig)
			if in.has {
				blk.Replicas = append(blk.Replicas, Replica{KeepMount: mnt, Mtime: minMtime + int64(in.mt-lay.Cut)*1000})
			}
		}
	}
	rng.Shuffle(len(blk.Replicas), func(i, j int) { blk.Replicas[i], blk.Replicas[j] = blk.Replicas[j], blk.Replicas[i] })
	desired := map[string]int{}
	for c, n := range lay.Desired {
		desired[c] = n
		if n > 0 || rng.Intn(2) == 0 {
			blk.Desired[c] = n
		}
	}
	if esrv == nil {
		esrv, edev, erepl, emt, eorig, ero, ehas, ecls = []int{}, []int{}, []int{}, []int{}, []int{}, []bool{}, []bool{}, [][]string{}
	}
	srvro := []int{}
	for s := 1; s <= nsrv; s++ {
		if sro[s] {
			srvro = append(srvro, s)
		}
	}
	eff["n"], eff["srv"], eff["ro"], eff["dev"], eff["repl"], eff["cls"], eff["has"], eff["mt"] = len(esrv), esrv, ero, edev, erepl, ecls, ehas, emt
	eff["srvro"], eff["desired"] = srvro, desired
	events := []map[string]interface{}{{"ev": "reset", "scn": scn.ID, "lay": eff, "orig": eorig, "nsrv": nsrv, "mode": scn.Mode}}

	result := bal.balanceBlock(blkid, blk)

	absT := func(mt int64) int {
		d := mt - minMtime
		if d%1000 != 0 {
			return 999999
		}
		t := int(d/1000) + lay.Cut
		if t < 0 {
			return 999999
		}
		return t
	}
	for s := 1; s <= nsrv; s++ {
		cs := srvs[s].ChangeSet
		trashes := append([]Trash(nil), cs.Trashes...)
		sort.Slice(trashes, func(i, j int) bool { return num[trashes[i].From] < num[trashes[j].From] })
		for _, t := range trashes {
			events = append(events, map[string]interface{}{"ev": "trash", "m": num[t.From], "t": absT(t.Mtime), "srv": s,
				"hashok": t.SizedDigest == blkid})
		}
		pulls := append([]Pull(nil), cs.Pulls...)
		sort.Slice(pulls, func(i, j int) bool { return num[pulls[i].To] < num[pulls[j].To] })
		for _, p := range pulls {
			events = append(events, map[string]interface{}{"ev": "pull", "to": num[p.To], "from": srvNum[p.From], "srv": s,
				"hashok": p.SizedDigest == blkid})
		}
	}
	events = append(events, map[string]interface{}{"ev": "finish", "lost": result.lost})
	return events
}

func TestVerifC05(t *testing.T) {
	seed, _ := strconv.ParseInt(os.Getenv("VERIF_SEED"), 10, 64)
	var scns []*vBalScn
	vReadNDJSON(os.Getenv("VERIF_SCENARIOS"), func() interface{} {
		s := &vBalScn{}
		scns = append(scns, s)
		return s
	})
	tw := vNewTraceWriter(os.Getenv("VERIF_TRACES"))
	for _, s := range scns {
		for _, ev := range vRunBalanceScenario(*s, seed) {
			tw.Write(ev)
		}
	}
	tw.Close()
	fmt.Println("VERIF-DRIVER-DONE balance", len(scns))
}
