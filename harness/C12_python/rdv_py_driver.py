#!/usr/bin/env python3
"""RUN stage of C12 for the Python client: sdk/python/arvados/keep.py KeepClient.weighted_service_roots
(+ _service_weight, build_services_list, the +K@ hint handling), run in a child process by
checks/C12_python.py.

usage: rdv_py_driver.py <path of sdk/python/arvados> <scenarios.ndjson> <traces.ndjson>

The real keep.py (and the real arvados/config.py, errors.py, retry.py, timer.py it imports) are loaded from
the repository under a stub package `arvados`; what is missing in this sandbox is replaced by empty stub
modules: future / future.standard_library / future.utils, pycurl, apiclient.errors, arvados.util (which
only gets is_hex and HEX_RE, taken verbatim from the repository's util.py).  No network
request is ever made: only weighted_service_roots is called, which needs the service list (injected through
a fake api_client whose keep_services().accessible().execute() returns it, the way the SDK's own tests do)
and the locator.

Scenario (built by checks/C12_python.py from the events of the Go driver, i.e. the SAME concrete
configuration): {"id", "locator" (hash+size+K@ hints+A signature), "uuids": {id: uuid},
"phases": [{"ids": [...], "writable": [...]}, ...]}.  One KeepClient lives through all phases (the service
list is re-read with force_rebuild, as a long-running client does after a failed round).
Events: {"ev":"pyreset","scn":id} then per phase {"ev":"pyread","phase":k,"seq":[...]},
{"ev":"pywrite","phase":k,"seq":[...]}: service ids in probe order; a cluster-form hint keep.abcdK is 100+K;
an unknown root is 999.  Decides nothing.
"""
import importlib.util
import json
import random
import re
import sys
import types


def stub(name, **attrs):
    m = types.ModuleType(name)
    m.__dict__.update(attrs)
    sys.modules[name] = m
    return m


def load_sdk(sdkdir):
    class _Any(Exception):
        def __init__(self, *a, **k):
            pass

    fut = stub("future")
    fut.standard_library = stub("future.standard_library", install_aliases=lambda: None)
    fut.utils = stub("future.utils", native_str=str)

    class _PycurlStub(types.ModuleType):
        error = _Any

        def __getattr__(self, name):          # pycurl.E_*, pycurl.<OPTION> constants
            return 0
    sys.modules["pycurl"] = _PycurlStub("pycurl")
    api = stub("apiclient")
    api.errors = stub("apiclient.errors", HttpError=_Any, Error=_Any)
    pkg = stub("arvados")
    pkg.__path__ = []
    pkg.util = stub("arvados.util")
    # arvados/util.py itself cannot be imported here (httplib2, arvados.collection ...); keep.py needs only
    # is_hex from it (to validate locators), which is taken verbatim from the repository's source
    import ast
    src = open("%s/util.py" % sdkdir).read()
    keepers = [n for n in ast.parse(src).body
               if (isinstance(n, ast.FunctionDef) and n.name == "is_hex")
               or (isinstance(n, ast.Assign) and any(getattr(t, "id", "") == "HEX_RE" for t in n.targets))]
    pkg.util.__dict__.update({"re": re, "arvados": pkg})
    exec(compile(ast.Module(body=keepers, type_ignores=[]), "%s/util.py" % sdkdir, "exec"), pkg.util.__dict__)
    for name in ("config", "errors", "retry", "timer", "keep"):
        spec = importlib.util.spec_from_file_location("arvados." + name, "%s/%s.py" % (sdkdir, name))
        mod = importlib.util.module_from_spec(spec)
        sys.modules["arvados." + name] = mod
        setattr(pkg, name, mod)
        spec.loader.exec_module(mod)
    return pkg.keep


class FakeAPI(object):
    """api_client.keep_services().accessible().execute() -> {'items': [...]}"""
    api_token = "verif-token"
    insecure = False

    def __init__(self):
        self.items = []

    def keep_services(self):
        return self

    def accessible(self):
        return self

    def execute(self, *a, **k):
        return {"items": [dict(x) for x in self.items]}


def run_scenario(keep, scn, rnd):
    api = FakeAPI()
    kc = keep.KeepClient(api_client=api, proxy="", local_store="")
    loc = keep.KeepLocator(scn["locator"])
    evs = [{"ev": "pyreset", "scn": scn["id"]}]
    first = True
    for k, ph in enumerate(scn["phases"]):
        wr = set(ph["writable"])
        items = []
        root_id = {}
        for i in ph["ids"]:
            host = "keep%d.verif" % i
            items.append({"uuid": scn["uuids"][str(i)], "service_host": host, "service_port": 25107,
                          "service_ssl_flag": False, "service_type": "disk", "read_only": i not in wr})
            root_id["http://%s:25107/" % host] = i
        rnd.shuffle(items)
        api.items = items

        def ids(roots):
            out = []
            for r in roots:
                m = re.match(r"^https://keep\.abcd(\d)\.arvadosapi\.com/$", r)
                out.append(100 + int(m.group(1)) if m else root_id.get(r, 999))
            return out
        rd = kc.weighted_service_roots(loc, force_rebuild=not first, need_writable=False)
        # put() builds its locator from the data ("loc_s = data_hash + '+' + str(len(data))"): no hints
        wt = kc.weighted_service_roots(keep.KeepLocator("%s+%d" % (loc.md5sum, loc.size)), force_rebuild=False,
                                       need_writable=True)
        first = False
        evs.append({"ev": "pyread", "phase": k, "seq": ids(rd)})
        evs.append({"ev": "pywrite", "phase": k, "seq": ids(wt)})
    return evs


def main():
    sdkdir, scn_path, trace_path = sys.argv[1:4]
    keep = load_sdk(sdkdir)
    n = 0
    with open(scn_path) as fin, open(trace_path, "w") as fout:
        for line in fin:
            line = line.strip()
            if not line:
                continue
            scn = json.loads(line)
            try:
                evs = run_scenario(keep, scn, random.Random(scn.get("rseed", scn["id"])))
            except Exception as e:      # an exception of the client is recorded, not hidden
                evs = [{"ev": "pyreset", "scn": scn["id"]},
                       {"ev": "pyerror", "phase": 0, "seq": [], "detail": "%s: %s" % (type(e).__name__, e)}]
            for ev in evs:
                fout.write(json.dumps(ev, separators=(",", ":")) + "\n")
            n += 1
    print("VERIF-C12 python scenarios=%d" % n)
    print("VERIF-DRIVER-DONE")


if __name__ == "__main__":
    main()
