//go:build verif

// RUN stage of C13 (DESIGN.md section 6, C13); harness/C08_arvados and harness/C09_arvados are
// merged into the overlay (fake Keep, concretiser, snapshot walker, manifest tokenizer).
//
// Two modes, both judged by specs/collfs/CollFSConcTrace.tla:
//
//   "schedule"  a behaviour of CollFSFlush.tla (Gen configuration) is replayed: foreground calls
//               in the model's order, every Keep write blocked at a gate and released (ok / fail)
//               when the schedule says so, identified by its data.  A call that does not return
//               at once (it waits for the throttle or for a gated write) is left running and the
//               schedule goes on; before the next call on the same handle the driver waits for it.
//   "random"    2-8 worker goroutines run seeded C08-style call streams on their own files (moved
//               between shared directories), read each other's files, and call Flush /
//               MarshalManifest / Sync concurrently; gated Keep writes are released after random
//               delays, some fail.  Run under `go test -race`.
//
// Every call is logged as {"ev":"call",...} before it starts and {"ev":"ret"} after it returned, in
// one mutex-protected sequence; results are attached to the call record afterwards.  The driver
// decides nothing.  No verdict depends on timing: delays only choose WHICH interleaving happens; a
// deadlock is recorded only after vcfsConcDeadline without any call returning AND when the runtime
// shows every unfinished worker goroutine parked for more than a minute.

package arvados

import (
	"fmt"
	"io"
	"math/rand"
	"os"
	"runtime"
	"runtime/debug"
	"sort"
	"strings"
	"sync"
	"testing"
	"time"
)

type vcfsConcStep struct {
	Op    string `json:"op"`
	H     int    `json:"h"`
	D     string `json:"d"`
	N     int    `json:"n"`
	Off   int    `json:"off"`
	Short bool   `json:"short"`
	Data  string `json:"data"`
	OK    bool   `json:"ok"`
	Kind  string `json:"kind"`
}

type vcfsDirOp struct {
	W  int      `json:"w"`
	Op string   `json:"op"`
	P  []string `json:"p"`
	Q  []string `json:"q"`
}

type vcfsConcScenario struct {
	Dir  []vcfsDirOp `json:"dir"`  // mode "dirsched": a behaviour of CollFSDir.tla (operations in start order)
	Reps int         `json:"reps"` // mode "dirsched": repetitions of the unscheduled variant
	ID      int            `json:"id"`
	Mode    string         `json:"mode"` // "schedule" | "random"
	BS      int            `json:"bs"`
	W       int            `json:"w"` // concurrentWriters
	Steps   []vcfsConcStep `json:"steps"`
	NFiles  int            `json:"nfiles"`
	Second  bool           `json:"second"` // handle NFiles+1 = append handle on file a
	RSeed   int64          `json:"rseed"`
	Workers int            `json:"workers"`
	NOps    int            `json:"nops"`
	FailPct int            `json:"failpct"`
	Savers  int            `json:"savers"`
}

var vcfsConcDeadline = 240 * time.Second

// ---------------------------------------------------------------------------------------------
// gate

type vcfsGated struct {
	put *vcfsPut
	rel chan bool
}

type vcfsGate struct {
	mu      sync.Mutex
	waiting []*vcfsGated
	arrived chan struct{}
	open    bool // release everything at once
}

func vcfsNewGate() *vcfsGate { return &vcfsGate{arrived: make(chan struct{}, 1024)} }

func (g *vcfsGate) wait(p *vcfsPut) bool {
	g.mu.Lock()
	if g.open {
		g.mu.Unlock()
		return true
	}
	gp := &vcfsGated{put: p, rel: make(chan bool, 1)}
	g.waiting = append(g.waiting, gp)
	g.mu.Unlock()
	select {
	case g.arrived <- struct{}{}:
	default:
	}
	return <-gp.rel
}

// take removes and returns a waiting write whose data is `data`, waiting up to d for it to arrive.
func (g *vcfsGate) take(data string, d time.Duration) *vcfsGated {
	deadline := time.Now().Add(d)
	for {
		g.mu.Lock()
		for i, gp := range g.waiting {
			if vcfsAbs(gp.put.Data) == data {
				g.waiting = append(g.waiting[:i], g.waiting[i+1:]...)
				g.mu.Unlock()
				return gp
			}
		}
		g.mu.Unlock()
		if time.Now().After(deadline) {
			return nil
		}
		select {
		case <-g.arrived:
		case <-time.After(2 * time.Millisecond):
		}
	}
}

func (g *vcfsGate) openAll() {
	g.mu.Lock()
	g.open = true
	w := g.waiting
	g.waiting = nil
	g.mu.Unlock()
	for _, gp := range w {
		gp.rel <- true
	}
}

// ---------------------------------------------------------------------------------------------

type vcfsConc struct {
	*vcfsRun
	nextID int
	lastRet time.Time
}

// call logs the call event, runs f (which fills in the results) and logs the ret event.
func (c *vcfsConc) call(w int, ev vcfsEvent, f func(ev vcfsEvent)) {
	c.mu.Lock()
	c.nextID++
	id := c.nextID
	ev["ev"] = "call"
	ev["id"] = id
	ev["w"] = w
	c.events = append(c.events, ev)
	c.mu.Unlock()
	res := vcfsEvent{}
	var pan *vcfsPanic
	func() {
		defer func() {
			if p := recover(); p != nil {
				a := vcfsAttribute(p, debug.Stack())
				pan = &a
			}
		}()
		f(res)
	}()
	c.mu.Lock()
	for k, v := range res {
		ev[k] = v
	}
	if pan != nil {
		c.events = append(c.events, vcfsEvent{"ev": "panic", "id": id, "what": pan.what, "incode": pan.inCode, "at": pan.at})
	} else {
		c.events = append(c.events, vcfsEvent{"ev": "ret", "id": id})
	}
	c.lastRet = time.Now()
	c.mu.Unlock()
}

func vcfsResOf(err error) string {
	if err == io.EOF {
		return "eof"
	} else if err != nil {
		return "err"
	}
	return "nil"
}

// exec performs one filesystem call for worker w through the given handle table.
func (c *vcfsConc) exec(w int, hs map[int]File, op vcfsOp) {
	fs := c.fs
	switch op.Op {
	case "open":
		c.call(w, vcfsEvent{"op": "open", "h": op.H, "p": op.P, "acc": op.Acc, "cr": op.Cr, "ex": op.Ex, "tr": op.Tr, "ap": op.Ap, "ok": false}, func(r vcfsEvent) {
			f, err := fs.OpenFile(c.plainPath(op.P), vcfsFlags(op), 0644)
			if err == nil {
				hs[op.H] = f
			}
			r["ok"] = err == nil
		})
	case "close":
		if f := hs[op.H]; f != nil {
			c.call(w, vcfsEvent{"op": "close", "h": op.H}, func(r vcfsEvent) { f.Close(); delete(hs, op.H) })
		}
	case "write":
		if f := hs[op.H]; f != nil {
			c.call(w, vcfsEvent{"op": "write", "h": op.H, "d": op.D, "n": 0, "ok": false}, func(r vcfsEvent) {
				n, err := f.Write(vcfsBytes(op.D))
				r["n"], r["ok"] = n, err == nil
			})
		}
	case "read":
		if f := hs[op.H]; f != nil {
			c.call(w, vcfsEvent{"op": "read", "h": op.H, "n": op.N, "d": "", "res": "err"}, func(r vcfsEvent) {
				buf := make([]byte, op.N)
				n, err := f.Read(buf)
				if n < 0 || n > len(buf) {
					panic(fmt.Sprintf("Read returned n=%d for a %d-byte buffer", n, len(buf)))
				}
				r["d"], r["res"] = vcfsAbs(buf[:n]), vcfsResOf(err)
			})
		}
	case "seek":
		if f := hs[op.H]; f != nil {
			c.call(w, vcfsEvent{"op": "seek", "h": op.H, "off": op.Off, "wh": op.Wh, "pos": 0, "ok": false}, func(r vcfsEvent) {
				pos, err := f.Seek(int64(op.Off), op.Wh)
				r["pos"], r["ok"] = int(pos), err == nil
			})
		}
	case "trunc":
		if f := hs[op.H]; f != nil {
			c.call(w, vcfsEvent{"op": "trunc", "h": op.H, "n": op.N, "ok": false}, func(r vcfsEvent) {
				r["ok"] = f.Truncate(int64(op.N)) == nil
			})
		}
	case "size":
		if f := hs[op.H]; f != nil {
			c.call(w, vcfsEvent{"op": "size", "h": op.H, "n": 0}, func(r vcfsEvent) { r["n"] = int(f.Size()) })
		}
	case "mkdir":
		c.call(w, vcfsEvent{"op": "mkdir", "p": op.P, "ok": false}, func(r vcfsEvent) { r["ok"] = fs.Mkdir(c.plainPath(op.P), 0755) == nil })
	case "rename":
		c.call(w, vcfsEvent{"op": "rename", "p": op.P, "q": op.Q, "ok": false}, func(r vcfsEvent) {
			r["ok"] = fs.Rename(c.plainPath(op.P), c.plainPath(op.Q)) == nil
		})
	case "remove":
		c.call(w, vcfsEvent{"op": "remove", "p": op.P, "ok": false}, func(r vcfsEvent) { r["ok"] = fs.Remove(c.plainPath(op.P)) == nil })
	case "stat":
		c.call(w, vcfsEvent{"op": "stat", "p": op.P, "ok": false, "dir": false, "n": 0}, func(r vcfsEvent) {
			fi, err := fs.Stat(c.plainPath(op.P))
			r["ok"] = err == nil
			if err == nil {
				r["dir"] = fi.IsDir()
				if !fi.IsDir() {
					r["n"] = int(fi.Size())
				}
			}
		})
	case "readdir":
		c.call(w, vcfsEvent{"op": "readdir", "p": op.P, "ok": false, "ents": [][]interface{}{}}, func(r vcfsEvent) {
			f, err := fs.OpenFile(c.plainPath(op.P), os.O_RDONLY, 0)
			if err != nil {
				return
			}
			defer f.Close()
			fis, err := f.Readdir(-1)
			if err != nil {
				return
			}
			ents := [][]interface{}{}
			for _, fi := range fis {
				n := 0
				if !fi.IsDir() {
					n = int(fi.Size())
				}
				ents = append(ents, []interface{}{fi.Name(), fi.IsDir(), n})
			}
			r["ok"], r["ents"] = true, ents
		})
	case "flush":
		c.call(w, vcfsEvent{"op": "flush", "kind": op.D, "ok": false}, func(r vcfsEvent) {
			path := ""
			if op.D != "flushall" {
				path = c.plainPath(op.P)
			}
			r["ok"] = fs.Flush(path, op.Tr) == nil
		})
	case "marshal":
		c.call(w, vcfsEvent{"op": "marshal", "kind": op.D, "ok": false, "m": map[string]interface{}{"gok": false, "streams": []interface{}{}}}, func(r vcfsEvent) {
			var txt string
			var err error
			if op.D == "sync" {
				c.api.mu.Lock()
				n := len(c.api.saved)
				c.api.mu.Unlock()
				err = fs.Sync()
				c.api.mu.Lock()
				// (with several concurrent Sync callers the last saved text need not be ours;
				// concurrent savers therefore use MarshalManifest, Sync is used by one saver only)
				updated := len(c.api.saved) > n
				if err == nil && updated {
					txt = c.api.saved[len(c.api.saved)-1]
				}
				c.api.mu.Unlock()
				if err == nil && !updated {
					txt, err = fs.MarshalManifest(".") // nothing was sent: what it would have saved
				}
			} else {
				txt, err = fs.MarshalManifest(".")
			}
			if err == nil {
				r["ok"], r["m"] = true, c.tokenize(txt)
			}
		})
	}
}

// quiet waits until every goroutine in wg has finished; returns false on a proven deadlock.
func (c *vcfsConc) quiet(done chan struct{}, gids func() []string) bool {
	for {
		select {
		case <-done:
			return true
		case <-time.After(5 * time.Second):
		}
		c.mu.Lock()
		idle := time.Since(c.lastRet)
		c.mu.Unlock()
		if idle < vcfsConcDeadline {
			continue
		}
		all := !vcfsAnyRunnable()
		for _, g := range gids() {
			if !vcfsParkedForMinutes(g) {
				all = false
			}
		}
		if all {
			c.log(vcfsEvent{"ev": "deadlock", "idle_s": int(idle.Seconds())})
			return false
		}
	}
}

// vcfsOpenFlushing returns the flushing channels of the root directory's files that are still open
// (in-package peek used for schedule fidelity only; files locked by a blocked call are skipped).
func vcfsOpenFlushing(fs CollectionFileSystem) []<-chan struct{} {
	var out []<-chan struct{}
	cfs, ok := fs.(*collectionFileSystem)
	if !ok {
		return nil
	}
	root, ok := cfs.fileSystem.root.(*dirnode)
	if !ok || !root.TryRLock() {
		return nil
	}
	defer root.RUnlock()
	for _, n := range root.inodes {
		fn, ok := n.(*filenode)
		if !ok || !fn.TryLock() {
			continue
		}
		for _, seg := range fn.segments {
			if ms, ok := seg.(*memSegment); ok && ms.flushing != nil {
				select {
				case <-ms.flushing:
				default:
					out = append(out, ms.flushing)
				}
			}
		}
		fn.Unlock()
	}
	return out
}

// vcfsAnyRunnable reports whether any goroutine other than the caller is running or runnable (then
// somebody can still make progress, however slowly, and nothing is declared a deadlock).
func vcfsAnyRunnable() bool {
	self := vcfsGoID()
	buf := make([]byte, 1<<22)
	buf = buf[:runtime.Stack(buf, true)]
	for _, ln := range strings.Split(string(buf), "\n") {
		if strings.HasPrefix(ln, "goroutine ") && !strings.HasPrefix(ln, "goroutine "+self+" [") {
			if strings.Contains(ln, "[running") || strings.Contains(ln, "[runnable") {
				return true
			}
		}
	}
	return false
}

// finalChecks: at quiescence the whole tree, then a save that must describe it, then the tree
// again - on a goroutine of its own under the same deadlock criterion as the workers (a save that
// never returns, e.g. because throttle slots leaked, must not end as a go test timeout).
func (c *vcfsConc) finalChecks() {
	// background goroutines of released writes may still be between PutB and their critical section
	for i := 0; i < 2000 && c.keep.inflightNow() > 0; i++ {
		time.Sleep(time.Millisecond)
	}
	done := make(chan struct{})
	gidc := make(chan string, 1)
	go func() {
		defer close(done)
		gidc <- vcfsGoID()
		c.snap()
		hs := map[int]File{}
		c.exec(0, hs, vcfsOp{Op: "marshal", D: "marshal"})
		c.snap()
	}()
	g := <-gidc
	c.mu.Lock()
	c.lastRet = time.Now()
	c.mu.Unlock()
	c.quiet(done, func() []string { return []string{g} })
}

// ---------------------------------------------------------------------------------------------
// mode "schedule"

func vcfsRunSchedule(scn vcfsConcScenario) []vcfsEvent {
	base := vcfsScenario{ID: scn.ID, BS: scn.BS, RSeed: scn.RSeed, Mode: "schedule", NoSnap: false}
	c := &vcfsConc{vcfsRun: vcfsNewRun(base), lastRet: time.Now()}
	maxBlockSize = scn.BS
	concurrentWriters = scn.W
	gate := vcfsNewGate()
	c.keep.gate = gate.wait
	c.keep.onDone = func(p *vcfsPut, ok bool) { c.log(vcfsEvent{"ev": "putb", "k": p.K, "ok": ok, "n": len(p.Data)}) }
	if c.start(vcfsEvent{"w": scn.W, "nsteps": len(scn.Steps)}) != nil {
		return c.events
	}
	// handles: h <= NFiles: file a / b opened O_RDWR|O_CREATE; NFiles+1: O_APPEND handle on a
	hs := map[int]File{}
	names := []string{"a", "b"}
	for h := 1; h <= scn.NFiles; h++ {
		c.exec(0, hs, vcfsOp{Op: "open", H: h, P: []string{names[h-1]}, Acc: "rw", Cr: true})
	}
	if scn.Second {
		c.exec(0, hs, vcfsOp{Op: "open", H: scn.NFiles + 1, P: []string{"a"}, Acc: "rw", Ap: true})
	}
	busy := map[int]chan struct{}{} // handle -> its call in progress
	var dirBusy chan struct{}       // flush / marshal in progress
	var wg sync.WaitGroup
	gids := map[string]bool{}
	var gmu sync.Mutex
	gidList := func() []string {
		gmu.Lock()
		defer gmu.Unlock()
		out := []string{}
		for g := range gids {
			out = append(out, g)
		}
		return out
	}
	dead := false
	waitFor := func(ch chan struct{}) {
		if ch == nil || dead {
			return
		}
		select {
		case <-ch:
			return
		case <-time.After(2 * time.Second):
		}
		// It waits for a Keep write the schedule has not released yet (or the model and the code
		// disagree about what blocks): let everything through rather than wait forever.
		gate.openAll()
		if !c.quiet(ch, gidList) {
			dead = true
		}
	}
	unapplied := 0
	start := func(h int, f func()) chan struct{} {
		ch := make(chan struct{})
		wg.Add(1)
		go func() {
			g := vcfsGoID()
			gmu.Lock()
			gids[g] = true
			gmu.Unlock()
			defer func() {
				gmu.Lock()
				delete(gids, g)
				gmu.Unlock()
				close(ch)
				wg.Done()
			}()
			f()
		}()
		// give it the chance to run to completion (or to its blocking point) before the next step
		select {
		case <-ch:
		case <-time.After(20 * time.Millisecond):
		}
		return ch
	}
	done := map[int]bool{}
	for si, st := range scn.Steps {
		st := st
		if dead {
			break
		}
		switch st.Op {
		case "seek", "read", "trunc", "write":
			// (the model has one foreground call in progress at a time)
			for _, ch := range busy {
				waitFor(ch)
			}
			waitFor(dirBusy)
			op := vcfsOp{Op: st.Op, H: st.H, D: st.D, N: st.N, Off: st.Off, Wh: 0}
			busy[st.H] = start(st.H, func() { c.exec(st.H, hs, op) })
		case "flush", "marshal":
			for _, ch := range busy {
				waitFor(ch)
			}
			waitFor(dirBusy)
			op := vcfsOp{Op: st.Op, D: "marshal", Tr: st.Short, P: nil}
			if st.Op == "flush" {
				op.D = "flushall"
			}
			dirBusy = start(0, func() { c.exec(100, map[int]File{}, op) })
		case "flushend":
			// the flush / marshal returns once its writes were released
		case "put":
			if done[si] {
				continue
			}
			// Wait for the expected write until it is at the gate, or until NOTHING can bring it
			// there any more: no goroutine of the process is running or runnable (a quiescence
			// test, not a timeout; the cap only bounds a livelock and is never reached in practice).
			quiet := func() bool {
				for i := 0; i < 3; i++ {
					if vcfsAnyRunnable() {
						return false
					}
					time.Sleep(500 * time.Microsecond)
				}
				return true
			}
			var gp *vcfsGated
			swaps := 0
			for t0 := time.Now(); gp == nil && time.Since(t0) < 30*time.Second; {
				if gp = gate.take(st.Data, 2*time.Millisecond); gp != nil || !quiet() {
					continue
				}
				if gp = gate.take(st.Data, 0); gp != nil {
					break
				}
				// Quiescent without it.  The commitBlock goroutines of one flush start in any
				// order: if a write that the schedule releases LATER is waiting in front of the
				// expected one (it holds the throttle), release that one now with its own outcome.
				swapped := false
				for j := si + 1; j < len(scn.Steps) && !swapped && swaps < 4; j++ {
					if scn.Steps[j].Op == "put" && !done[j] {
						if other := gate.take(scn.Steps[j].Data, 0); other != nil {
							other.rel <- scn.Steps[j].OK
							done[j] = true
							swapped = true
							swaps++
						}
					}
				}
				if !swapped {
					break // the code does not issue this write here: the schedule is not followed
				}
			}
			if gp == nil {
				unapplied++
				continue
			}
			// Fidelity only (never a verdict): give the goroutine of the released write the time to
			// re-lock the file and finish, which shows as one of the open flushing channels closing
			// (a write whose segment was copied meanwhile is referenced by no segment: nothing to wait for).
			open := vcfsOpenFlushing(c.fs)
			gp.rel <- st.OK
			for i := 0; i < 200 && len(open) > 0; i++ {
				closed := false
				for _, ch := range open {
					select {
					case <-ch:
						closed = true
					default:
					}
				}
				if closed {
					break
				}
				time.Sleep(250 * time.Microsecond)
			}
			if len(open) == 0 {
				time.Sleep(time.Millisecond)
			}
		}
	}
	gate.openAll()
	ok := !dead
	if ok {
		done := make(chan struct{})
		go func() { wg.Wait(); close(done) }()
		ok = c.quiet(done, gidList)
	}
	c.mu.Lock()
	c.events[0]["unapplied"] = unapplied
	c.mu.Unlock()
	if ok {
		// let background goroutines that were released last finish their critical sections
		time.Sleep(5 * time.Millisecond)
		c.finalChecks()
	}
	return c.events
}

// ---------------------------------------------------------------------------------------------
// mode "random"

func vcfsRunConcRandom(scn vcfsConcScenario) []vcfsEvent {
	base := vcfsScenario{ID: scn.ID, BS: scn.BS, RSeed: scn.RSeed, Mode: "concrandom"}
	c := &vcfsConc{vcfsRun: vcfsNewRun(base), lastRet: time.Now()}
	maxBlockSize = scn.BS
	concurrentWriters = scn.W
	grng := rand.New(rand.NewSource(scn.RSeed*977 + 5))
	var grmu sync.Mutex
	c.keep.gate = func(p *vcfsPut) bool {
		grmu.Lock()
		delay := time.Duration(grng.Intn(3000)) * time.Microsecond
		if grng.Intn(4) == 0 {
			delay = 0
		}
		fail := grng.Intn(100) < scn.FailPct
		grmu.Unlock()
		time.Sleep(delay)
		return !fail
	}
	c.keep.onDone = func(p *vcfsPut, ok bool) { c.log(vcfsEvent{"ev": "putb", "k": p.K, "ok": ok, "n": len(p.Data)}) }
	if c.start(vcfsEvent{"w": scn.W, "workers": scn.Workers, "savers": scn.Savers, "failpct": scn.FailPct}) != nil {
		return c.events
	}
	// shared directories
	hs0 := map[int]File{}
	c.exec(0, hs0, vcfsOp{Op: "mkdir", P: []string{"d"}})
	c.exec(0, hs0, vcfsOp{Op: "mkdir", P: []string{"e"}})
	c.snap()
	shared := [][]string{{}, {"d"}, {"e"}}
	var wg sync.WaitGroup
	gids := map[string]bool{}
	var gmu sync.Mutex
	track := func() func() {
		g := vcfsGoID()
		gmu.Lock()
		gids[g] = true
		gmu.Unlock()
		return func() {
			gmu.Lock()
			delete(gids, g)
			gmu.Unlock()
		}
	}
	// where each worker's files currently are (read by the other workers to pick reading targets)
	var locmu sync.Mutex
	loc := map[string][]string{}
	setLoc := func(name string, p []string) {
		locmu.Lock()
		if p == nil {
			delete(loc, name)
		} else {
			loc[name] = append([]string{}, p...)
		}
		locmu.Unlock()
	}
	anyLoc := func(rng *rand.Rand) []string {
		locmu.Lock()
		defer locmu.Unlock()
		names := []string{}
		for n := range loc {
			names = append(names, n)
		}
		if len(names) == 0 {
			return nil
		}
		sort.Strings(names)
		return append([]string{}, loc[names[rng.Intn(len(names))]]...)
	}
	for w := 1; w <= scn.Workers; w++ {
		w := w
		wg.Add(1)
		go func() {
			defer wg.Done()
			defer track()()
			rng := rand.New(rand.NewSource(scn.RSeed*131 + int64(w)))
			hs := map[int]File{}
			mine := []string{fmt.Sprintf("w%dx", w), fmt.Sprintf("w%dy", w)}
			where := map[string][]string{} // own file name -> directory path, absent = not existing
			hOf := func(fi, k int) int { return w*10 + fi*3 + k } // handles w*10 .. w*10+5 own files, +6.. readers
			bs := scn.BS
			data := func(n int) string {
				b := make([]byte, n)
				for i := range b {
					b[i] = byte('a' + rng.Intn(26))
				}
				return string(b)
			}
			for i := 0; i < scn.NOps; i++ {
				fi := rng.Intn(2)
				name := mine[fi]
				dir, exists := where[name]
				full := func(d []string) []string { return append(append([]string{}, d...), name) }
				switch x := rng.Intn(100); {
				case x < 12 || !exists:
					// create / open an own file through one of its three handle slots
					if !exists {
						dir = shared[rng.Intn(3)]
					}
					op := vcfsOp{Op: "open", H: hOf(fi, rng.Intn(3)), P: full(dir), Acc: []string{"rw", "rw", "w", "r"}[rng.Intn(4)], Cr: true,
						Tr: rng.Intn(8) == 0, Ap: rng.Intn(5) == 0}
					if op.Acc == "r" {
						op.Tr = false
					}
					c.exec(w, hs, op)
					if _, err := c.fs.Stat(c.plainPath(full(dir))); err == nil {
						where[name] = dir
						setLoc(name, full(dir))
					}
				case x < 45:
					n := rng.Intn(3*bs + 2)
					if rng.Intn(4) == 0 {
						n = bs
					}
					c.exec(w, hs, vcfsOp{Op: "write", H: hOf(fi, rng.Intn(3)), D: data(n)})
				case x < 55:
					c.exec(w, hs, vcfsOp{Op: "seek", H: hOf(fi, rng.Intn(3)), Off: rng.Intn(4*bs + 1), Wh: 0})
				case x < 62:
					c.exec(w, hs, vcfsOp{Op: "trunc", H: hOf(fi, rng.Intn(3)), N: rng.Intn(4*bs + 1)})
				case x < 70:
					c.exec(w, hs, vcfsOp{Op: "read", H: hOf(fi, rng.Intn(3)), N: 1 + rng.Intn(3*bs)})
				case x < 78:
					// move the file to another shared directory (or onto the other own file)
					nd := shared[rng.Intn(3)]
					q := full(nd)
					if rng.Intn(6) == 0 {
						other := mine[1-fi]
						if od, ok := where[other]; ok {
							q = append(append([]string{}, od...), other)
						}
					}
					// (q may equal the current path: renaming onto itself must be a no-op - KF-C08-1, fixed)
					c.exec(w, hs, vcfsOp{Op: "rename", P: full(dir), Q: q})
					// follow what really happened
					if _, err := c.fs.Stat(c.plainPath(full(dir))); err != nil {
						delete(where, name)
						setLoc(name, nil)
						qn := q[len(q)-1]
						if _, err := c.fs.Stat(c.plainPath(q)); err == nil {
							where[qn] = q[:len(q)-1]
							setLoc(qn, q)
						}
					}
				case x < 81:
					c.exec(w, hs, vcfsOp{Op: "remove", P: full(dir)})
					if _, err := c.fs.Stat(c.plainPath(full(dir))); err != nil {
						delete(where, name)
						setLoc(name, nil)
					}
				case x < 85:
					sub := []string{[]string{"d", "e"}[rng.Intn(2)], fmt.Sprintf("s%d", w)}
					if rng.Intn(2) == 0 {
						c.exec(w, hs, vcfsOp{Op: "mkdir", P: sub})
					} else {
						c.exec(w, hs, vcfsOp{Op: "remove", P: sub})
					}
				case x < 88:
					c.exec(w, hs, vcfsOp{Op: "stat", P: full(dir)})
				case x < 91:
					c.exec(w, hs, vcfsOp{Op: "readdir", P: shared[rng.Intn(3)]})
				default:
					// read somebody's file through a fresh read-only handle
					p := anyLoc(rng)
					if p == nil {
						continue
					}
					h := w*10 + 6 + rng.Intn(3)
					c.exec(w, hs, vcfsOp{Op: "open", H: h, P: p, Acc: "r"})
					if hs[h] != nil {
						for k := 0; k < 1+rng.Intn(3); k++ {
							c.exec(w, hs, vcfsOp{Op: "read", H: h, N: 1 + rng.Intn(3*bs)})
						}
						c.exec(w, hs, vcfsOp{Op: "close", H: h})
					}
				}
			}
		}()
	}
	for s := 1; s <= scn.Savers; s++ {
		s := s
		wg.Add(1)
		go func() {
			defer wg.Done()
			defer track()()
			rng := rand.New(rand.NewSource(scn.RSeed*733 + int64(s)))
			hs := map[int]File{}
			for i := 0; i < scn.NOps/4+1; i++ {
				time.Sleep(time.Duration(rng.Intn(1500)) * time.Microsecond)
				switch x := rng.Intn(10); {
				case x < 3:
					c.exec(100+s, hs, vcfsOp{Op: "flush", D: "flushall", P: nil, Tr: rng.Intn(2) == 0})
				case x < 5:
					c.exec(100+s, hs, vcfsOp{Op: "flush", D: "flushdir", P: shared[rng.Intn(3)], Tr: rng.Intn(2) == 0})
				case x < 9 || s > 1:
					c.exec(100+s, hs, vcfsOp{Op: "marshal", D: "marshal"})
				default:
					c.exec(100+s, hs, vcfsOp{Op: "marshal", D: "sync"})
				}
			}
		}()
	}
	done := make(chan struct{})
	go func() { wg.Wait(); close(done) }()
	ok := c.quiet(done, func() []string {
		gmu.Lock()
		defer gmu.Unlock()
		out := []string{}
		for g := range gids {
			out = append(out, g)
		}
		return out
	})
	if ok {
		c.keep.mu.Lock()
		c.keep.gate = nil
		c.keep.mu.Unlock()
		time.Sleep(5 * time.Millisecond)
		c.finalChecks()
	}
	return c.events
}

// ---------------------------------------------------------------------------------------------
// mode "dirsched": directory-level schedules of CollFSDir.tla.
//
// The model's steps inside an operation (lookup, lock, commit) cannot be scheduled from outside,
// with one exception: Rename takes the filesystem-wide mutex AFTER it has looked up both
// directories, and the in-package driver can hold that mutex.  So a schedule "Rename looks up its
// directories; the other operation runs; Rename goes on" is replayed exactly: the driver holds the
// mutex, starts Rename, waits until the runtime shows its goroutine waiting for a lock, runs the
// other operation, releases the mutex.  For the other operations the two calls are simply started
// together, Reps times on fresh filesystems (whatever interleaving happens is judged).
func vcfsGoState(gid string) string {
	buf := make([]byte, 1<<22)
	buf = buf[:runtime.Stack(buf, true)]
	for _, ln := range strings.Split(string(buf), "\n") {
		if strings.HasPrefix(ln, "goroutine "+gid+" [") {
			return ln
		}
	}
	return ""
}

func vcfsDirToOp(d vcfsDirOp) vcfsOp {
	switch d.Op {
	case "create":
		return vcfsOp{Op: "open", H: 50 + d.W, P: d.P, Acc: "rw", Cr: true}
	case "marshal":
		return vcfsOp{Op: "marshal", D: "marshal"}
	}
	return vcfsOp{Op: d.Op, P: d.P, Q: d.Q}
}

func vcfsRunDirOnce(scn vcfsConcScenario, rep int) []vcfsEvent {
	base := vcfsScenario{ID: scn.ID, BS: scn.BS, RSeed: scn.RSeed + int64(rep), Mode: "dirsched"}
	c := &vcfsConc{vcfsRun: vcfsNewRun(base), lastRet: time.Now()}
	maxBlockSize = 4
	concurrentWriters = 4
	c.keep.onDone = func(p *vcfsPut, ok bool) { c.log(vcfsEvent{"ev": "putb", "k": p.K, "ok": ok, "n": len(p.Data)}) }
	if c.start(vcfsEvent{"rep": rep, "dir": scn.Dir}) != nil {
		return c.events
	}
	// the initial tree of CollFSDir.tla: file a = "x", empty directory s
	hs0 := map[int]File{}
	c.exec(0, hs0, vcfsOp{Op: "open", H: 1, P: []string{"a"}, Acc: "rw", Cr: true})
	c.exec(0, hs0, vcfsOp{Op: "write", H: 1, D: "x"})
	c.exec(0, hs0, vcfsOp{Op: "mkdir", P: []string{"s"}})
	c.snap()
	var wg sync.WaitGroup
	gids := map[string]bool{}
	var gmu sync.Mutex
	run := func(d vcfsDirOp, started chan string) {
		wg.Add(1)
		go func() {
			defer wg.Done()
			g := vcfsGoID()
			gmu.Lock()
			gids[g] = true
			gmu.Unlock()
			if started != nil {
				started <- g
			}
			c.exec(d.W, map[int]File{}, vcfsDirToOp(d))
			gmu.Lock()
			delete(gids, g)
			gmu.Unlock()
		}()
	}
	ren := -1
	for i, d := range scn.Dir {
		if d.Op == "rename" && ren < 0 {
			ren = i
		}
	}
	if ren >= 0 && len(scn.Dir) == 2 && rep == 0 {
		mtx := c.fs.locker()
		mtx.Lock()
		started := make(chan string, 1)
		run(scn.Dir[ren], started)
		g := <-started
		for i := 0; i < 2000; i++ {
			st := vcfsGoState(g)
			if strings.Contains(st, "Mutex.Lock") || strings.Contains(st, "semacquire") {
				break
			}
			time.Sleep(time.Millisecond)
		}
		// The other call runs on its own goroutine: in the code as it is nobody but Rename takes
		// the filesystem-wide mutex, but a repair might make Remove / Mkdir / OpenFile take it too;
		// then this schedule cannot be replayed: release the mutex and let both calls finish
		// (whatever they do is judged; the missed schedule is reported as drift).
		other := make(chan string, 1)
		run(scn.Dir[1-ren], other)
		og := <-other
		inapplicable := false
		for i := 0; ; i++ {
			gmu.Lock()
			running := gids[og]
			gmu.Unlock()
			if !running {
				break
			}
			st := vcfsGoState(og)
			if i > 3000 || (i > 20 && (strings.Contains(st, "Mutex.Lock") || strings.Contains(st, "semacquire")) && !vcfsAnyRunnable()) {
				inapplicable = true
				break
			}
			time.Sleep(time.Millisecond)
		}
		if inapplicable {
			c.mu.Lock()
			c.events[0]["inapplicable"] = true
			c.mu.Unlock()
		}
		mtx.Unlock()
	} else {
		for _, d := range scn.Dir {
			run(d, nil)
		}
	}
	done := make(chan struct{})
	go func() { wg.Wait(); close(done) }()
	ok := c.quiet(done, func() []string {
		gmu.Lock()
		defer gmu.Unlock()
		out := []string{}
		for g := range gids {
			out = append(out, g)
		}
		return out
	})
	if ok {
		c.finalChecks()
	}
	return c.events
}

// mode "lockorder": Rename against a top-down reader.  Readdir of the root holds the root's read
// lock while it takes each child's lock in turn; Rename("d/x","e/x") needs d, e and the root.  The
// driver holds the lock of the regular file a, so Readdir stops somewhere in the root (before or
// after having visited d: Go's map order decides), then starts the Rename, waits until it is
// parked too (or has returned), and lets go of a.  With locks taken root-first Rename holds nothing
// while it waits for the root, and everything finishes; whatever happens is judged as usual, and a
// run in which nobody can move any more ends with the watchdog's deadlock event.
func vcfsRunLockOrderOnce(scn vcfsConcScenario, rep int) []vcfsEvent {
	base := vcfsScenario{ID: scn.ID, BS: 4, RSeed: scn.RSeed + int64(rep), Mode: "lockorder"}
	c := &vcfsConc{vcfsRun: vcfsNewRun(base), lastRet: time.Now()}
	maxBlockSize = 4
	concurrentWriters = 4
	c.keep.onDone = func(p *vcfsPut, ok bool) { c.log(vcfsEvent{"ev": "putb", "k": p.K, "ok": ok, "n": len(p.Data)}) }
	if c.start(vcfsEvent{"rep": rep}) != nil {
		return c.events
	}
	hs0 := map[int]File{}
	c.exec(0, hs0, vcfsOp{Op: "mkdir", P: []string{"d"}})
	c.exec(0, hs0, vcfsOp{Op: "mkdir", P: []string{"e"}})
	c.exec(0, hs0, vcfsOp{Op: "open", H: 1, P: []string{"a"}, Acc: "rw", Cr: true})
	c.exec(0, hs0, vcfsOp{Op: "open", H: 2, P: []string{"d", "x"}, Acc: "rw", Cr: true})
	c.exec(0, hs0, vcfsOp{Op: "write", H: 2, D: "xy"})
	c.snap()
	cfs, ok1 := c.fs.(*collectionFileSystem)
	var fa *filenode
	if ok1 {
		if root, ok := cfs.fileSystem.root.(*dirnode); ok {
			root.RLock()
			fa, _ = root.inodes["a"].(*filenode)
			root.RUnlock()
		}
	}
	var wg sync.WaitGroup
	gids := map[string]bool{}
	var gmu sync.Mutex
	run := func(w int, op vcfsOp) string {
		started := make(chan string, 1)
		wg.Add(1)
		go func() {
			defer wg.Done()
			g := vcfsGoID()
			gmu.Lock()
			gids[g] = true
			gmu.Unlock()
			started <- g
			c.exec(w, map[int]File{}, op)
			gmu.Lock()
			delete(gids, g)
			gmu.Unlock()
		}()
		return <-started
	}
	parkedOrDone := func(g string) {
		for i := 0; i < 3000; i++ {
			gmu.Lock()
			running := gids[g]
			gmu.Unlock()
			st := vcfsGoState(g)
			if !running || strings.Contains(st, "Lock") || strings.Contains(st, "semacquire") {
				return
			}
			time.Sleep(time.Millisecond)
		}
	}
	if fa != nil {
		fa.Lock()
		g1 := run(1, vcfsOp{Op: "readdir", P: []string{}})
		parkedOrDone(g1)
		g2 := run(2, vcfsOp{Op: "rename", P: []string{"d", "x"}, Q: []string{"e", "x"}})
		parkedOrDone(g2)
		fa.Unlock()
	} else {
		c.mu.Lock()
		c.events[0]["inapplicable"] = true // the tree is not made of dirnode / filenode any more
		c.mu.Unlock()
	}
	done := make(chan struct{})
	go func() { wg.Wait(); close(done) }()
	if c.quiet(done, func() []string {
		gmu.Lock()
		defer gmu.Unlock()
		out := []string{}
		for g := range gids {
			out = append(out, g)
		}
		return out
	}) {
		c.finalChecks()
	}
	return c.events
}

func vcfsRunDirSched(scn vcfsConcScenario) []vcfsEvent {
	if scn.Mode == "lockorder" {
		var all []vcfsEvent
		for rep := 0; rep < scn.Reps; rep++ {
			evs := vcfsRunLockOrderOnce(scn, rep)
			all = append(all, evs...)
			for _, ev := range evs {
				if ev["ev"] == "deadlock" {
					return all // one proven deadlock is enough; each costs the full deadline
				}
			}
		}
		return all
	}
	var all []vcfsEvent
	reps := scn.Reps
	if reps < 1 {
		reps = 1
	}
	for rep := 0; rep < reps; rep++ {
		all = append(all, vcfsRunDirOnce(scn, rep)...)
	}
	return all
}

func TestVerifC13(t *testing.T) {
	var scns []*vcfsConcScenario
	vReadNDJSON(os.Getenv("VERIF_SCENARIOS"), func() interface{} {
		s := &vcfsConcScenario{}
		scns = append(scns, s)
		return s
	})
	defer func(bs, cw int) { maxBlockSize, concurrentWriters = bs, cw }(maxBlockSize, concurrentWriters)
	tw := vNewTraceWriter(os.Getenv("VERIF_TRACES"))
	deadlocks := 0
	for _, s := range scns {
		if deadlocks >= 2 {
			// every further scenario would cost the full deadline again; the judge already has two
			break
		}
		// marker for attributing race-detector reports (written to the same stream) to a scenario
		fmt.Fprintf(os.Stderr, "VERIF-SCN %d\n", s.ID)
		var evs []vcfsEvent
		if s.Mode == "schedule" {
			evs = vcfsRunSchedule(*s)
		} else if s.Mode == "dirsched" || s.Mode == "lockorder" {
			evs = vcfsRunDirSched(*s)
		} else {
			evs = vcfsRunConcRandom(*s)
		}
		for _, ev := range evs {
			tw.Write(ev)
			if ev["ev"] == "deadlock" {
				deadlocks++
			}
		}
	}
	tw.Close()
	fmt.Fprintf(os.Stderr, "VERIF-SCN 0\n")
	fmt.Println("VERIF-DRIVER-DONE", len(scns))
	_ = strings.TrimSpace
}
