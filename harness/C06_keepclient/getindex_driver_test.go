//go:build verif

// RUN stage of C06 (b), reader 2 (DESIGN.md section 6, C06): feeds keepclient.GetIndex the first
// `cut` bytes of a well-formed index response and records whether it reported an error (from
// GetIndex itself or from reading the returned reader to the end).
// Judged by specs/balance/IndexFramingTrace.tla.  Scenario fields as in
// harness/C06_arvados/index_driver_test.go.  The driver decides nothing.

package keepclient

import (
	"fmt"
	"io"
	"math/rand"
	"net/http"
	"os"
	"strconv"
	"testing"

	"git.arvados.org/arvados.git/sdk/go/arvadosclient"
)

type vGIdxScn struct {
	ID    int     `json:"id"`
	Mode  string  `json:"mode"`
	Shape [][]int `json:"shape"`
	Cut   int     `json:"cut"`
	EOF   string  `json:"eof"`
}

func vGIdxDigits(rng *rand.Rand, n int) string {
	b := make([]byte, n)
	for i := range b {
		b[i] = byte('0' + rng.Intn(10))
	}
	if n > 0 && (b[0] == '0' || b[0] == '9') {
		b[0] = '1' // no leading zero; a 19-digit mtime must fit in int64
	}
	return string(b)
}

func vGIdxBytes(rng *rand.Rand, shape [][]int) []byte {
	var out []byte
	for _, e := range shape {
		h := make([]byte, 16)
		rng.Read(h)
		out = append(out, fmt.Sprintf("%x+%s %s\n", h, vGIdxDigits(rng, e[0]), vGIdxDigits(rng, e[1]))...)
	}
	return append(out, '\n')
}

type vGIdxBody struct {
	data []byte
	err  error
}

func (b *vGIdxBody) Read(p []byte) (int, error) {
	if len(b.data) == 0 {
		return 0, b.err
	}
	n := len(p)
	if n > 7 {
		n = 7
	}
	n = copy(p[:n], b.data)
	b.data = b.data[n:]
	return n, nil
}
func (b *vGIdxBody) Close() error { return nil }

type vGIdxHTTP struct {
	body func() io.ReadCloser
	clen int64
}

func (h vGIdxHTTP) Do(req *http.Request) (*http.Response, error) {
	return &http.Response{StatusCode: 200, Status: "200 OK", Header: http.Header{}, Body: h.body(),
		ContentLength: h.clen, Request: req, Proto: "HTTP/1.1", ProtoMajor: 1, ProtoMinor: 1}, nil
}

func TestVerifC06GetIndex(t *testing.T) {
	seed, _ := strconv.ParseInt(os.Getenv("VERIF_SEED"), 10, 64)
	var scns []*vGIdxScn
	vReadNDJSON(os.Getenv("VERIF_SCENARIOS"), func() interface{} {
		s := &vGIdxScn{}
		scns = append(scns, s)
		return s
	})
	tw := vNewTraceWriter(os.Getenv("VERIF_TRACES"))
	const uuid = "zzzzz-bi6l4-000000000000000"
	for _, s := range scns {
		if s.Mode != "read" {
			continue
		}
		rng := rand.New(rand.NewSource(seed*1000003 + int64(s.ID)))
		whole := vGIdxBytes(rng, s.Shape)
		cut := s.Cut
		if cut > len(whole) {
			cut = len(whole)
		}
		eofErr := io.EOF
		clen := int64(-1)
		if s.EOF == "unexpected" && cut < len(whole) {
			eofErr = io.ErrUnexpectedEOF
			clen = int64(len(whole))
		}
		kc := &KeepClient{
			Arvados:    &arvadosclient.ArvadosClient{ApiToken: "verif-token", ApiServer: "localhost:9"},
			HTTPClient: vGIdxHTTP{clen: clen, body: func() io.ReadCloser { return &vGIdxBody{data: append([]byte(nil), whole[:cut]...), err: eofErr} }},
		}
		roots := map[string]string{uuid: "http://keep0.verif:25107"}
		kc.SetServiceRoots(roots, roots, nil)
		rdr, err := kc.GetIndex(uuid, "")
		got := 0
		if err == nil {
			var b []byte
			b, err = io.ReadAll(rdr)
			got = len(b)
		}
		tw.Write(map[string]interface{}{"ev": "reset", "scn": s.ID, "part": "framing", "rdr": "getindex", "shape": s.Shape,
			"cut": cut, "n": len(whole), "eof": s.EOF})
		ev := map[string]interface{}{"ev": "read", "reader": "getindex", "err": err != nil, "bytes": got}
		if err != nil {
			ev["msg"] = err.Error()
		}
		tw.Write(ev)
	}
	tw.Close()
	fmt.Println("VERIF-DRIVER-DONE getindex", len(scns))
}
