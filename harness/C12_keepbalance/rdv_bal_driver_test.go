//go:build verif

// RUN stage of C12 (keep-balance side): recovers the order in which balanceBlock ranks servers
// for a block.  One old replica sits on service s0; for desired replication j = 1..n the pull
// targets are the j best-ranked servers except s0, so the server added at step j has rank j
// (no addition at step j means s0 has rank j).

package main

import (
	"fmt"
	"os"
	"testing"
	"time"

	"git.arvados.org/arvados.git/sdk/go/arvados"
	"github.com/sirupsen/logrus"
)

type vRdvBalPhase struct {
	IDs []int `json:"ids"`
}

type vRdvBalScenario struct {
	ID     int               `json:"id"`
	Hash   string            `json:"hash"`
	Size   int               `json:"size"`
	UUIDs  map[string]string `json:"uuids"`
	Phases []vRdvBalPhase    `json:"phases"`
}

// vRdvBalSetup builds a Balancer over the given services (one writable mount each).
func vRdvBalSetup(scn vRdvBalScenario, ids []int) (*Balancer, map[int]*KeepService, map[*KeepService]int) {
	logger := logrus.New()
	logger.Out = os.Stderr
	logger.Level = logrus.ErrorLevel
	bal := &Balancer{Logger: logger}
	bal.KeepServices = map[string]*KeepService{}
	srvOf := map[int]*KeepService{}
	idOf := map[*KeepService]int{}
	for _, id := range ids {
		u := scn.UUIDs[fmt.Sprint(id)]
		srv := &KeepService{KeepService: arvados.KeepService{UUID: u}}
		srv.mounts = []*KeepMount{{
			KeepMount:   arvados.KeepMount{UUID: "zzzzz-mount-" + u[12:], Replication: 1},
			KeepService: srv,
		}}
		bal.KeepServices[u] = srv
		srvOf[id] = srv
		idOf[srv] = id
	}
	bal.MinMtime = time.Now().UnixNano() - 3600*1e9
	bal.cleanupMounts()
	return bal, srvOf, idOf
}

// Method A: one old replica on s0; for desired = 1..n the pull targets are the j best-ranked
// servers except s0, so the server added at step j has rank j (no addition: s0 has rank j).
func vRdvBalRankByPulls(scn vRdvBalScenario, ids []int) []int {
	bal, srvOf, idOf := vRdvBalSetup(scn, ids)
	blkid := arvados.SizedDigest(fmt.Sprintf("%s+%d", scn.Hash, scn.Size))
	s0 := ids[0]
	var order []int
	seen := map[int]bool{}
	for j := 1; j <= len(ids); j++ {
		bal.setupLookupTables()
		for _, srv := range bal.KeepServices {
			srv.ChangeSet = &ChangeSet{}
		}
		blk := &BlockState{
			Replicas: []Replica{{KeepMount: srvOf[s0].mounts[0], Mtime: bal.MinMtime - 1e12}},
			Desired:  map[string]int{"default": j},
		}
		bal.balanceBlock(blkid, blk)
		var added []int
		for _, srv := range bal.KeepServices {
			for range srv.Pulls {
				if id := idOf[srv]; !seen[id] {
					added = append(added, id)
				}
			}
		}
		switch len(added) {
		case 0:
			if seen[s0] {
				return nil
			}
			order = append(order, s0)
			seen[s0] = true
		case 1:
			order = append(order, added[0])
			seen[added[0]] = true
		default:
			return nil
		}
	}
	return order
}

// Method B: an old replica (distinct timestamps) on every server; for desired = j the servers
// ranked worse than j are trashed, so the server that stops being trashed at step j has rank j.
func vRdvBalRankByTrashes(scn vRdvBalScenario, ids []int) []int {
	bal, srvOf, idOf := vRdvBalSetup(scn, ids)
	blkid := arvados.SizedDigest(fmt.Sprintf("%s+%d", scn.Hash, scn.Size))
	prev := map[int]bool{}
	for _, id := range ids {
		prev[id] = true // desired 0: everything would be trashed
	}
	var order []int
	for j := 1; j <= len(ids); j++ {
		bal.setupLookupTables()
		for _, srv := range bal.KeepServices {
			srv.ChangeSet = &ChangeSet{}
		}
		var repl []Replica
		for k, id := range ids {
			repl = append(repl, Replica{KeepMount: srvOf[id].mounts[0], Mtime: bal.MinMtime - 1e12 - int64(k)*1e9})
		}
		bal.balanceBlock(blkid, &BlockState{Replicas: repl, Desired: map[string]int{"default": j}})
		cur := map[int]bool{}
		for _, srv := range bal.KeepServices {
			if len(srv.Trashes) > 0 {
				cur[idOf[srv]] = true
			}
		}
		var kept []int
		for id := range prev {
			if !cur[id] {
				kept = append(kept, id)
			}
		}
		for id := range cur {
			if !prev[id] {
				return nil
			}
		}
		if len(kept) != 1 {
			return nil
		}
		order = append(order, kept[0])
		prev = cur
	}
	return order
}

// vRdvBalRank reports keep-balance's rank only when two independent ways of reading it off
// balanceBlock's decisions (pull targets, trash targets) agree; a change of pull or trash POLICY
// makes them disagree or fail, and then nothing is reported (the check notes it as drift).
func vRdvBalRank(scn vRdvBalScenario, ids []int) ([]int, bool) {
	a, b := vRdvBalRankByPulls(scn, ids), vRdvBalRankByTrashes(scn, ids)
	if a == nil || b == nil || len(a) != len(b) {
		return nil, false
	}
	for i := range a {
		if a[i] != b[i] {
			return nil, false
		}
	}
	return a, true
}

func TestVerifC12Bal(t *testing.T) {
	var scns []vRdvBalScenario
	vReadNDJSON(os.Getenv("VERIF_SCENARIOS"), func() interface{} { scns = append(scns, vRdvBalScenario{}); return &scns[len(scns)-1] })
	out := vNewTraceWriter(os.Getenv("VERIF_TRACES"))
	defer out.Close()
	for _, scn := range scns {
		for p, ph := range scn.Phases {
			if seq, ok := vRdvBalRank(scn, ph.IDs); ok {
				out.Write(map[string]interface{}{"ev": "bal", "scn": scn.ID, "phase": p, "seq": seq})
			} else {
				out.Write(map[string]interface{}{"ev": "balunknown", "scn": scn.ID, "phase": p})
			}
		}
	}
	fmt.Println("VERIF-DRIVER-DONE scenarios:", len(scns))
}
