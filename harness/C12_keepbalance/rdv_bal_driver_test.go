//go:build verif

// RUN stage of C12 (keep-balance side): recovers the order in which balanceBlock ranks servers
// for a block.  One old replica sits on service s0; for desired replication j = 1..n the pull
// targets are the j best-ranked servers except s0, so the server added at step j has rank j
// (no addition at step j means s0 has rank j).

package main

import (
	"fmt"
	"os"
	"sort"
	"testing"
	"time"

	"git.arvados.org/arvados.git/sdk/go/arvados"
	"github.com/sirupsen/logrus"
)

type vRdvBalPhase struct {
	IDs []int `json:"ids"`
}

type vRdvBalScenario struct {
	ID     int               `json:"id"`
	Hash   string            `json:"hash"`
	Size   int               `json:"size"`
	UUIDs  map[string]string `json:"uuids"`
	Phases []vRdvBalPhase    `json:"phases"`
}

func vRdvBalRank(scn vRdvBalScenario, ids []int) []int {
	logger := logrus.New()
	logger.Out = os.Stderr
	logger.Level = logrus.ErrorLevel
	bal := &Balancer{Logger: logger}
	bal.KeepServices = map[string]*KeepService{}
	srvOf := map[int]*KeepService{}
	idOf := map[*KeepService]int{}
	for _, id := range ids {
		u := scn.UUIDs[fmt.Sprint(id)]
		srv := &KeepService{KeepService: arvados.KeepService{UUID: u}}
		srv.mounts = []*KeepMount{{
			KeepMount:   arvados.KeepMount{UUID: "zzzzz-mount-" + u[12:], Replication: 1},
			KeepService: srv,
		}}
		bal.KeepServices[u] = srv
		srvOf[id] = srv
		idOf[srv] = id
	}
	bal.MinMtime = time.Now().UnixNano() - 3600*1e9
	bal.cleanupMounts()
	blkid := arvados.SizedDigest(fmt.Sprintf("%s+%d", scn.Hash, scn.Size))
	s0 := ids[0]
	var order []int
	seen := map[int]bool{}
	for j := 1; j <= len(ids); j++ {
		bal.setupLookupTables()
		for _, srv := range bal.KeepServices {
			srv.ChangeSet = &ChangeSet{}
		}
		blk := &BlockState{
			Replicas: []Replica{{KeepMount: srvOf[s0].mounts[0], Mtime: bal.MinMtime - 1e12}},
			Desired:  map[string]int{"default": j},
		}
		bal.balanceBlock(blkid, blk)
		var added []int
		for _, srv := range bal.KeepServices {
			for range srv.Pulls {
				if id := idOf[srv]; !seen[id] {
					added = append(added, id)
				}
			}
		}
		sort.Ints(added)
		switch len(added) {
		case 0:
			if !seen[s0] {
				order = append(order, s0)
				seen[s0] = true
			} else {
				order = append(order, -1) // no new server at this rank: not an order
			}
		default:
			// more than one new target at a step cannot be ordered; record them as they are
			for _, id := range added {
				order = append(order, id)
				seen[id] = true
			}
		}
	}
	return order
}

func TestVerifC12Bal(t *testing.T) {
	var scns []vRdvBalScenario
	vReadNDJSON(os.Getenv("VERIF_SCENARIOS"), func() interface{} { scns = append(scns, vRdvBalScenario{}); return &scns[len(scns)-1] })
	out := vNewTraceWriter(os.Getenv("VERIF_TRACES"))
	defer out.Close()
	for _, scn := range scns {
		for p, ph := range scn.Phases {
			out.Write(map[string]interface{}{"ev": "bal", "scn": scn.ID, "phase": p, "seq": vRdvBalRank(scn, ph.IDs)})
		}
	}
	fmt.Println("VERIF-DRIVER-DONE scenarios:", len(scns))
}
