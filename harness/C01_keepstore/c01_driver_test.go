//go:build verif

// RUN stage of C01 (DESIGN.md section 6, C01): replays volume configurations enumerated by
// specs/keepstore/KeepHandlers.tla (and seeded random request sequences made by checks/C01.py)
// on REAL Directory volumes in temp dirs, through the router built by handler.setup /
// MakeRESTRouter behind an httptest.Server, and records the abstract trace judged by
// specs/keepstore/KeepstoreContractTrace.tla.
//
// The driver decides nothing.  Scenario fields:
//   n, ro[], full[], copy[], emptyh, rr     configuration (volumes are numbered in the server's
//                                           own AllReadable() order)
//   ops [{op: get|head|put|putbad|corrupt, v, kind}]
//   size (bytes of the block, -1 = chosen here), cseed (concretisation seed)
//
// Concretiser (trusted, table-like):
//   intact = the block; flip = one bit flipped at a seeded position; trunc = a proper prefix;
//   ext = block + 1..n seeded bytes; subst = a different valid non-empty block; empty = zero-length
//   file; full[v] = symlink <root>/full -> far-future unix time (the volume's own "full" marker);
//   rr = NextWritable() is called until it returns AllWritable()[rr];
//   putbad body = flip | trunc | ext | other block | empty, seeded.
// Abstraction (trusted): bodyok = MD5(body)==H with crypto/md5; lenok = Content-Length absent or
//   equal to bytes received (GET) / to len(block) (HEAD); post[v] = absent | intact | empty | bad by
//   reading <root>/<H[:3]>/<H> back.

package main

import (
	"bytes"
	"context"
	"crypto/md5"
	"encoding/json"
	"fmt"
	"io"
	"math/rand"
	"net/http"
	"net/http/httptest"
	"os"
	"path/filepath"
	"strconv"
	"strings"
	"sync"
	"sync/atomic"
	"syscall"
	"testing"
	"time"

	"git.arvados.org/arvados.git/lib/config"
	"git.arvados.org/arvados.git/sdk/go/arvados"
	"git.arvados.org/arvados.git/sdk/go/ctxlog"
	"github.com/prometheus/client_golang/prometheus"
	"github.com/sirupsen/logrus"
)

type vC01Op struct {
	Op   string `json:"op"`
	V    int    `json:"v"`
	Kind string `json:"kind"`
}

type vC01Scn struct {
	ID     int      `json:"id"`
	N      int      `json:"n"`
	Ro     []bool   `json:"ro"`
	Full   []bool   `json:"full"`
	Copy   []string `json:"copy"`
	Emptyh bool     `json:"emptyh"`
	RR     int      `json:"rr"`
	Ops    []vC01Op `json:"ops"`
	Size   int      `json:"size"`
	CSeed  int64    `json:"cseed"`
}

type vC01Srv struct {
	h      *handler
	guard  *vC01PanicGuard
	srv    *httptest.Server
	client *http.Client
	roots  []string // in AllReadable() order
	ro     []bool
}

// vC01PanicGuard counts panics of the keepstore handler (and lets net/http abort the connection as
// it would anyway), so that the driver can tell "the handler panicked" (a reply that never came:
// judged as a non-success) from a client transport error (connection reset, fd/port exhaustion:
// infrastructure, never judged).
type vC01PanicGuard struct {
	h      http.Handler
	panics int32
}

func (g *vC01PanicGuard) ServeHTTP(w http.ResponseWriter, r *http.Request) {
	defer func() {
		if e := recover(); e != nil {
			if e != http.ErrAbortHandler {
				atomic.AddInt32(&g.panics, 1)
			}
			panic(http.ErrAbortHandler)
		}
	}()
	g.h.ServeHTTP(w, r)
}

func vC01Key(ro []bool) string {
	s := make([]string, len(ro))
	for i, r := range ro {
		if r {
			s[i] = "ro"
		} else {
			s[i] = "rw"
		}
	}
	return strings.Join(s, ",")
}

var vC01SrvSeq int

// vC01NewSrv builds a keepstore handler over len(ro) fresh Directory volumes with the given
// multiset of read-only flags.  The order in which keepstore arranges the volumes is its own
// (map iteration); the realised order is read back through the VolumeManager API.
func vC01NewSrv(base string, ro []bool) *vC01Srv {
	logger := logrus.New()
	logger.Out = io.Discard
	ldr := config.NewLoader(bytes.NewBufferString("Clusters: {zzzzz: {}}"), logger)
	ldr.Path = "-"
	cfg, err := ldr.Load()
	if err != nil {
		panic("verif: config load: " + err.Error())
	}
	cluster, err := cfg.GetCluster("")
	if err != nil {
		panic("verif: config cluster: " + err.Error())
	}
	cluster.SystemRootToken = "verifsystemroottoken0000000000000000000000000000000"
	cluster.ManagementToken = "verifmanagementtoken000000000000000000000000000000"
	cluster.Collections.BlobSigning = false
	cluster.Collections.BlobSigningKey = ""
	cluster.Volumes = map[string]arvados.Volume{}
	rootOf := map[string]string{}
	vC01SrvSeq++
	for i, r := range ro {
		uuid := fmt.Sprintf("zzzzz-nyw5e-%015d", vC01SrvSeq*10+i)
		root := filepath.Join(base, fmt.Sprintf("srv%d-vol%d", vC01SrvSeq, i))
		if err := os.MkdirAll(root, 0755); err != nil {
			panic("verif: mkdir: " + err.Error())
		}
		params, _ := json.Marshal(map[string]interface{}{"Root": root})
		cluster.Volumes[uuid] = arvados.Volume{Driver: "Directory", DriverParameters: params, ReadOnly: r, Replication: 1}
		rootOf[uuid] = root
	}
	h := &handler{}
	ctx := ctxlog.Context(context.Background(), logger)
	if err := h.setup(ctx, cluster, "", prometheus.NewRegistry(), arvados.URL{Host: "localhost:12345", Scheme: "http"}); err != nil {
		panic("verif: handler.setup: " + err.Error())
	}
	s := &vC01Srv{h: h}
	for _, mnt := range h.volmgr.AllReadable() {
		s.roots = append(s.roots, rootOf[mnt.UUID])
		s.ro = append(s.ro, mnt.ReadOnly)
	}
	s.guard = &vC01PanicGuard{h: h.Handler}
	s.srv = httptest.NewServer(s.guard)
	s.client = &http.Client{Transport: &http.Transport{MaxIdleConnsPerHost: 4, DisableCompression: true}}
	return s
}

func (s *vC01Srv) close() {
	s.client.CloseIdleConnections()
	s.srv.Close()
}

func vC01BlockPath(root, hash string) string {
	return filepath.Join(root, hash[:3], hash)
}

func vC01Hash(b []byte) string { return fmt.Sprintf("%x", md5.Sum(b)) }

type vC01Run struct {
	s     *vC01Srv
	scn   *vC01Scn
	rng   *rand.Rand
	data  []byte
	hash  string
	other []byte // a different valid block (for subst)
	notes []string
}

// content of a copy of class kind (nil, false = no file)
func (r *vC01Run) content(kind string) ([]byte, bool) {
	d := r.data
	switch kind {
	case "absent":
		return nil, false
	case "intact":
		return d, true
	case "empty":
		return []byte{}, true
	case "subst":
		return r.other, true
	case "ext":
		n := 1
		if r.rng.Intn(2) == 0 {
			n = 1 + r.rng.Intn(5000)
		}
		x := make([]byte, n)
		r.rng.Read(x)
		r.notes = append(r.notes, fmt.Sprintf("ext+%d", n))
		return append(append([]byte{}, d...), x...), true
	case "trunc":
		if len(d) <= 1 {
			return []byte{}, true
		}
		var l int
		switch r.rng.Intn(4) {
		case 0:
			l = len(d) - 1
		case 1:
			l = 1
		default:
			l = 1 + r.rng.Intn(len(d)-1)
		}
		r.notes = append(r.notes, fmt.Sprintf("trunc@%d", l))
		return append([]byte{}, d[:l]...), true
	case "flip":
		if len(d) == 0 {
			return []byte{1}, true
		}
		var pos int
		switch r.rng.Intn(5) {
		case 0:
			pos = 0
		case 1:
			pos = len(d) - 1
		case 2:
			pos = len(d) / 2
		default:
			pos = r.rng.Intn(len(d))
		}
		bit := uint(r.rng.Intn(8))
		c := append([]byte{}, d...)
		c[pos] ^= 1 << bit
		r.notes = append(r.notes, fmt.Sprintf("flip@%d.%d", pos, bit))
		return c, true
	}
	// "bad" and anything unknown: arbitrary other bytes
	x := make([]byte, 1+r.rng.Intn(100))
	r.rng.Read(x)
	return x, true
}

func (r *vC01Run) place(v int, kind string) {
	p := vC01BlockPath(r.s.roots[v], r.hash)
	c, ok := r.content(kind)
	if !ok {
		os.Remove(p)
		return
	}
	if err := os.MkdirAll(filepath.Dir(p), 0755); err != nil {
		panic("verif: mkdir: " + err.Error())
	}
	if err := os.WriteFile(p, c, 0644); err != nil {
		panic("verif: write: " + err.Error())
	}
}

// classify reads the copy of H on volume v back from disk.
func (r *vC01Run) classify(v int, hint string) string {
	b, err := os.ReadFile(vC01BlockPath(r.s.roots[v], r.hash))
	if err != nil {
		if os.IsNotExist(err) {
			return "absent"
		}
		return "bad"
	}
	if bytes.Equal(b, r.data) {
		return "intact"
	}
	if len(b) == 0 {
		return "empty"
	}
	if hint != "" && hint != "intact" && hint != "absent" && hint != "empty" {
		return hint
	}
	return "bad"
}

func (r *vC01Run) post() []string {
	out := make([]string, len(r.s.roots))
	for v := range r.s.roots {
		out[v] = r.classify(v, "")
	}
	return out
}

func (r *vC01Run) badBody() []byte {
	d := r.data
	if len(d) == 0 {
		x := make([]byte, 1+r.rng.Intn(64))
		r.rng.Read(x)
		return x
	}
	kinds := []string{"flip", "trunc", "ext", "subst", "empty"}
	k := kinds[r.rng.Intn(len(kinds))]
	c, _ := r.content(k)
	r.notes = append(r.notes, "badbody="+k)
	return c
}

func (r *vC01Run) read(method string) map[string]interface{} {
	loc := r.hash
	if r.rng.Intn(4) == 0 {
		loc += "+" + strconv.Itoa(len(r.data))
	}
	req, err := http.NewRequest(method, r.s.srv.URL+"/"+loc, nil)
	if err != nil {
		panic(err)
	}
	ev := map[string]interface{}{"ev": strings.ToLower(method)}
	panics := atomic.LoadInt32(&r.s.guard.panics)
	resp, err := r.s.client.Do(req)
	if err != nil {
		if atomic.LoadInt32(&r.s.guard.panics) == panics {
			// a client transport error is not an observation of keepstore: the trace is dropped
			return map[string]interface{}{"ev": "infra", "why": "transport: " + err.Error()}
		}
		// the keepstore handler panicked, no reply: not a success
		ev["status"], ev["bodyok"], ev["lenok"], ev["note"] = 0, false, false, "handler panic; transport: "+err.Error()
		ev["post"] = r.post()
		return ev
	}
	body, rerr := io.ReadAll(resp.Body)
	resp.Body.Close()
	ev["status"] = resp.StatusCode
	if method == "HEAD" {
		ev["bodyok"] = true
		ev["lenok"] = resp.ContentLength < 0 || resp.ContentLength == int64(len(r.data))
	} else {
		ev["bodyok"] = vC01Hash(body) == r.hash
		ev["lenok"] = rerr == nil && (resp.ContentLength < 0 || resp.ContentLength == int64(len(body)))
	}
	ev["cl"] = strconv.FormatInt(resp.ContentLength, 10)
	ev["blen"] = strconv.Itoa(len(body))
	ev["post"] = r.post()
	return ev
}

func (r *vC01Run) put(bad bool) map[string]interface{} {
	body := r.data
	if bad {
		body = r.badBody()
	}
	req, err := http.NewRequest("PUT", r.s.srv.URL+"/"+r.hash, bytes.NewReader(body))
	if err != nil {
		panic(err)
	}
	ev := map[string]interface{}{"ev": "put", "bodyok": vC01Hash(body) == r.hash}
	panics := atomic.LoadInt32(&r.s.guard.panics)
	resp, err := r.s.client.Do(req)
	if err != nil {
		if atomic.LoadInt32(&r.s.guard.panics) == panics {
			return map[string]interface{}{"ev": "infra", "why": "transport: " + err.Error()}
		}
		ev["status"], ev["note"] = 0, "handler panic; transport: "+err.Error()
		ev["post"] = r.post()
		return ev
	}
	io.Copy(io.Discard, resp.Body)
	resp.Body.Close()
	ev["status"] = resp.StatusCode
	ev["post"] = r.post()
	return ev
}

var vC01Sizes = []int{1, 2, 3, 17, 511, 4096, 5000, 1<<18 - 1, 1 << 18, 1<<18 + 1, 1<<20 - 1, 1 << 20, 1<<20 + 1}

func vC01RunScenario(s *vC01Srv, scn *vC01Scn, seed int64) []map[string]interface{} {
	r := &vC01Run{s: s, scn: scn, rng: rand.New(rand.NewSource(seed*1000003 + int64(scn.ID)*7919 + scn.CSeed))}
	size := scn.Size
	if scn.Emptyh {
		size = 0
	} else if size <= 0 {
		size = vC01Sizes[r.rng.Intn(len(vC01Sizes))]
	}
	r.data = make([]byte, size)
	r.rng.Read(r.data)
	r.hash = vC01Hash(r.data)
	for {
		r.other = make([]byte, 1+r.rng.Intn(2*size+8))
		if r.rng.Intn(3) == 0 && size > 0 {
			r.other = make([]byte, size) // same length, other content
		}
		r.rng.Read(r.other)
		if !bytes.Equal(r.other, r.data) {
			break
		}
	}
	defer func() {
		for _, root := range s.roots {
			os.RemoveAll(filepath.Join(root, r.hash[:3]))
			os.Remove(filepath.Join(root, "full"))
		}
	}()
	// environment: files, full markers, round-robin position
	copyv := make([]string, scn.N)
	for v := 0; v < scn.N; v++ {
		os.Remove(filepath.Join(s.roots[v], "full"))
		if v < len(scn.Full) && scn.Full[v] {
			far := strconv.FormatInt(time.Now().Unix()+400000000, 10)
			if err := os.Symlink(far, filepath.Join(s.roots[v], "full")); err != nil {
				panic("verif: symlink: " + err.Error())
			}
		}
		r.place(v, scn.Copy[v])
		copyv[v] = r.classify(v, scn.Copy[v])
	}
	if w := s.h.volmgr.AllWritable(); len(w) > 0 {
		want := w[scn.RR%len(w)]
		for k := 0; ; k++ {
			if s.h.volmgr.NextWritable() == want {
				break
			}
			if k > 2*len(w)+2 {
				panic("verif: cannot position the round-robin volume manager")
			}
		}
	}
	events := []map[string]interface{}{{
		"ev": "reset", "scn": scn.ID, "nvol": scn.N, "ro": s.ro, "copy": copyv, "emptyh": scn.Emptyh,
		"full": scn.Full, "rr": scn.RR, "size": size, "hash": r.hash,
	}}
	for _, op := range scn.Ops {
		switch op.Op {
		case "get":
			events = append(events, r.read("GET"))
		case "head":
			events = append(events, r.read("HEAD"))
		case "put":
			events = append(events, r.put(false))
		case "putbad":
			events = append(events, r.put(true))
		case "corrupt":
			r.place(op.V-1, op.Kind)
			events = append(events, map[string]interface{}{"ev": "corrupt", "v": op.V, "kind": r.classify(op.V-1, op.Kind)})
		}
	}
	events[0]["detail"] = strings.Join(r.notes, " ")
	return events
}

func TestVerifC01(t *testing.T) {
	var scns []*vC01Scn
	vReadNDJSON(os.Getenv("VERIF_SCENARIOS"), func() interface{} {
		s := &vC01Scn{Size: -1}
		scns = append(scns, s)
		return s
	})
	seed, _ := strconv.ParseInt(os.Getenv("VERIF_SEED"), 10, 64)
	nworkers := 4
	if w, err := strconv.Atoi(os.Getenv("VERIF_C01_WORKERS")); err == nil && w > 0 {
		nworkers = w
	}
	base := os.Getenv("VERIF_SCRATCH")
	if base == "" {
		base = os.TempDir()
	}
	base, err := os.MkdirTemp(base, "c01vols")
	if err != nil {
		t.Fatal(err)
	}
	defer os.RemoveAll(base)
	var fs syscall.Statfs_t
	if err := syscall.Statfs(base, &fs); err == nil && fs.Bavail*uint64(fs.Bsize) < 2<<30 {
		t.Fatalf("verif: less than 2 GiB free under %s: Directory volumes would report themselves full", base)
	}
	// the root logger is used by GetBlock/PutBlock (context.TODO()): keep it quiet
	if e, ok := ctxlog.FromContext(context.Background()).(*logrus.Entry); ok {
		e.Logger.SetOutput(io.Discard)
	}

	// Build, sequentially (handler.setup replaces the global buffer pool), nworkers servers for
	// every read-only pattern the scenarios need.
	need := map[string][]bool{}
	for _, s := range scns {
		if len(s.Ro) != s.N || len(s.Copy) != s.N {
			t.Fatalf("verif: malformed scenario %d", s.ID)
		}
		need[vC01Key(s.Ro)] = s.Ro
	}
	pool := map[string][]*vC01Srv{}
	for key, ro := range need {
		for tries := 0; len(pool[key]) < nworkers; tries++ {
			if tries > 400 {
				t.Fatalf("verif: could not obtain volume order %s", key)
			}
			s := vC01NewSrv(base, ro)
			k := vC01Key(s.ro)
			if _, wanted := need[k]; wanted && len(pool[k]) < nworkers {
				pool[k] = append(pool[k], s)
			} else {
				s.close()
			}
		}
	}
	tw := vNewTraceWriter(os.Getenv("VERIF_TRACES"))
	var batch sync.Mutex
	var wg sync.WaitGroup
	for w := 0; w < nworkers; w++ {
		wg.Add(1)
		go func(w int) {
			defer wg.Done()
			for i := w; i < len(scns); i += nworkers {
				scn := scns[i]
				evs := vC01RunScenario(pool[vC01Key(scn.Ro)][w], scn, seed)
				batch.Lock()
				for _, ev := range evs {
					tw.Write(ev)
				}
				batch.Unlock()
			}
		}(w)
	}
	wg.Wait()
	tw.Close()
	for _, l := range pool {
		for _, s := range l {
			s.close()
		}
	}
	fmt.Println("VERIF-DRIVER-DONE")
}
