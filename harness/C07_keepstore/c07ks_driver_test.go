//go:build verif

// RUN stage of C07 (DESIGN.md section 6, C07), part 2: keepstore with Collections.BlobSigning on.
// Every scenario is a CONCRETE case produced by the sdk/go/arvados driver (harness/C07_arvados):
// the presented locator, the requesting token, the cluster's signing key and TTL, the block whose
// MD5 is the presented hash, and whether that block is on the volume.  The driver calls
// keepstore's own VerifySignature and issues GET <locator> through the router built by
// handler.setup / MakeRESTRouter behind an httptest.Server, and records the abstract events judged
// by specs/crypto/BlobSigTrace.tla.  The driver decides nothing.
//
// Abstraction (trusted): rel = presented expiry against the clock read before and after the call;
// res = what the wrapper returned: "ok" (nil), "expired" (its ExpiredError by errors.Is, else a KeepError
// carrying ExpiredError's HTTP status) or "denied" (any other refusal); status = HTTP status of the GET.  For the locator returned by
// PUT only its signature is judged (against the reference HMAC over the fields it carries).

package main

import (
	"bytes"
	"context"
	"crypto/sha1"
	"encoding/hex"
	"encoding/json"
	"errors"
	"fmt"
	"io"
	"net/http"
	"net/http/httptest"
	"os"
	"path/filepath"
	"strconv"
	"strings"
	"testing"
	"time"

	"git.arvados.org/arvados.git/lib/config"
	"git.arvados.org/arvados.git/sdk/go/arvados"
	"git.arvados.org/arvados.git/sdk/go/ctxlog"
	"github.com/prometheus/client_golang/prometheus"
	"github.com/sirupsen/logrus"
)

type vC07KsScn struct {
	ID       int    `json:"id"`
	Loc      string `json:"loc"`
	VToken   string `json:"vtoken"`
	VKeyHex  string `json:"vkey_hex"`
	VTTL     string `json:"vttl"`
	EPrime   string `json:"eprime"`
	PHash    string `json:"phash"`
	PDataHex string `json:"pdata_hex"`
	Present  bool   `json:"present"`
	Wf       bool   `json:"wf"`
	Same     bool   `json:"same"`
	Lenonly  bool   `json:"lenonly"`
}

// vC07KsRefSig: the reference signature written from services/api/app/models/blob.rb
// (HMAC-SHA1 per RFC 2104 over [hash, token, expiry.to_s(16), ttl.to_s(16)].join('@')); the same
// independent implementation as in harness/C07_arvados.
func vC07KsRefSig(key []byte, hash, token string, exphex string, ttl int64) (sig string) {
	msg := strings.Join([]string{hash, token, exphex, strconv.FormatInt(ttl, 16)}, "@")
	k := key
	if len(k) > 64 {
		s := sha1.Sum(k)
		k = s[:]
	}
	ipad := make([]byte, 64)
	opad := make([]byte, 64)
	copy(ipad, k)
	copy(opad, k)
	for i := 0; i < 64; i++ {
		ipad[i] ^= 0x36
		opad[i] ^= 0x5c
	}
	inner := sha1.Sum(append(ipad, []byte(msg)...))
	outer := sha1.Sum(append(opad, inner[:]...))
	return hex.EncodeToString(outer[:])
}

// vC07KsVerdict classifies what keepstore's VerifySignature wrapper returned: accepted or not is
// what is judged; the class of a refusal (by sentinel, else by the HTTP status the error carries)
// is recorded for drift detection only.
func vC07KsVerdict(err error) (ok bool, res string) {
	if err == nil {
		return true, "ok"
	}
	if errors.Is(err, ExpiredError) {
		return false, "expired"
	}
	var ke *KeepError
	if errors.As(err, &ke) && ke.HTTPCode == ExpiredError.HTTPCode && ke.HTTPCode != PermissionError.HTTPCode {
		return false, "expired"
	}
	return false, "denied"
}

// vC07KsSigHint finds the signature hint (+A<sig>@<exp>) of a locator, wherever it is placed.
func vC07KsSigHint(loc string) (sig, exp string, ok bool) {
	for _, h := range strings.Split(loc, "+")[1:] {
		if strings.HasPrefix(h, "A") {
			if i := strings.Index(h, "@"); i >= 0 {
				return h[1:i], h[i+1:], true
			}
		}
	}
	return "", "", false
}

func vC07KsRel(eprime int64, t0, t1 time.Time) string {
	if eprime < 0 {
		return "future" // no parsable expiry: the case is malformed and rel is irrelevant
	}
	if eprime < t0.Unix() {
		return "past"
	}
	if eprime > t1.Unix() {
		return "future"
	}
	return "near"
}

func TestVerifC07KS(t *testing.T) {
	var scns []*vC07KsScn
	vReadNDJSON(os.Getenv("VERIF_SCENARIOS"), func() interface{} {
		s := &vC07KsScn{}
		scns = append(scns, s)
		return s
	})
	base := os.Getenv("VERIF_SCRATCH")
	if base == "" {
		base = os.TempDir()
	}
	root, err := os.MkdirTemp(base, "c07vol")
	if err != nil {
		t.Fatal(err)
	}
	defer os.RemoveAll(root)
	logger := logrus.New()
	logger.Out = io.Discard
	if e, ok := ctxlog.FromContext(context.Background()).(*logrus.Entry); ok {
		e.Logger.SetOutput(io.Discard)
	}
	ldr := config.NewLoader(bytes.NewBufferString("Clusters: {zzzzz: {}}"), logger)
	ldr.Path = "-"
	cfg, err := ldr.Load()
	if err != nil {
		t.Fatal(err)
	}
	cluster, err := cfg.GetCluster("")
	if err != nil {
		t.Fatal(err)
	}
	cluster.SystemRootToken = "verifsystemroottoken0000000000000000000000000000000"
	cluster.ManagementToken = "verifmanagementtoken000000000000000000000000000000"
	cluster.Collections.BlobSigning = true
	cluster.Collections.BlobSigningKey = "placeholder"
	params, _ := json.Marshal(map[string]interface{}{"Root": root})
	cluster.Volumes = map[string]arvados.Volume{
		"zzzzz-nyw5e-000000000000007": {Driver: "Directory", DriverParameters: params, Replication: 1},
	}
	h := &handler{}
	ctx := ctxlog.Context(context.Background(), logger)
	if err := h.setup(ctx, cluster, "", prometheus.NewRegistry(), arvados.URL{Host: "localhost:12345", Scheme: "http"}); err != nil {
		t.Fatal(err)
	}
	srv := httptest.NewServer(h.Handler)
	defer srv.Close()
	client := &http.Client{Transport: &http.Transport{DisableCompression: true}}
	tw := vNewTraceWriter(os.Getenv("VERIF_TRACES"))
	for _, scn := range scns {
		key, err := hex.DecodeString(scn.VKeyHex)
		if err != nil {
			t.Fatal(err)
		}
		ttl, _ := strconv.ParseInt(scn.VTTL, 10, 64)
		eprime, _ := strconv.ParseInt(scn.EPrime, 10, 64)
		data, _ := hex.DecodeString(scn.PDataHex)
		cluster.Collections.BlobSigningKey = string(key)
		cluster.Collections.BlobSigningTTL = arvados.Duration(time.Duration(ttl) * time.Second)
		bpath := filepath.Join(root, scn.PHash[:3], scn.PHash)
		if scn.Present {
			os.MkdirAll(filepath.Dir(bpath), 0755)
			if err := os.WriteFile(bpath, data, 0644); err != nil {
				t.Fatal(err)
			}
		}
		tw.Write(map[string]interface{}{"ev": "reset", "scn": scn.ID, "kind": "ks", "wf": scn.Wf, "same": scn.Same, "lenonly": scn.Lenonly,
			"loc": scn.Loc, "present": scn.Present})
		// keepstore's own wrapper
		t0 := time.Now()
		verr := VerifySignature(cluster, scn.Loc, scn.VToken)
		t1 := time.Now()
		vok, res := vC07KsVerdict(verr)
		tw.Write(map[string]interface{}{"ev": "verifyks", "via": "keepstore", "rel": vC07KsRel(eprime, t0, t1), "ok": vok, "res": res})
		// GET through the router
		req, err := http.NewRequest("GET", srv.URL+"/"+scn.Loc, nil)
		if err != nil {
			// the locator cannot be put in a URL: nothing to observe
			tw.Write(map[string]interface{}{"ev": "skip", "why": err.Error()})
		} else {
			req.Header.Set("Authorization", "OAuth2 "+scn.VToken)
			t0 = time.Now()
			resp, err := client.Do(req)
			t1 = time.Now()
			ev := map[string]interface{}{"ev": "ksget", "rel": vC07KsRel(eprime, t0, t1)}
			if err != nil {
				ev["status"], ev["dataok"], ev["note"] = 0, false, err.Error()
			} else {
				body, _ := io.ReadAll(resp.Body)
				resp.Body.Close()
				ev["status"] = resp.StatusCode
				ev["dataok"] = bytes.Equal(body, data)
			}
			tw.Write(ev)
		}
		// handlePUT signs the locator it returns for the caller's token: a second trace of the same
		// scenario (an unperturbed case whose locator was signed by keepstore itself)
		now := time.Now().Unix()
		if scn.ID%4 == 0 && now+ttl < 1<<32 && ttl > 120 {
			preq, err := http.NewRequest("PUT", srv.URL+"/"+scn.PHash, bytes.NewReader(data))
			if err == nil {
				preq.Header.Set("Authorization", "OAuth2 "+scn.VToken)
				p0 := time.Now()
				presp, err := client.Do(preq)
				p1 := time.Now()
				if err == nil {
					pbody, _ := io.ReadAll(presp.Body)
					presp.Body.Close()
					signed := strings.TrimSuffix(string(pbody), "\n")
					prefix := scn.PHash + "+" + strconv.Itoa(len(data))
					// Judged (putloc): the signature keepstore put on the locator is the reference HMAC over
					// the fields that locator carries.  Recorded for drift only: the layout of the locator
					// (prefixok) and which expiry PUT chose (expok: request time + TTL) - the statement
					// does not say what PUT returns.
					psig, pexp, signedp := vC07KsSigHint(signed)
					phash := strings.Split(signed, "+")[0]
					pe, perr := strconv.ParseInt(pexp, 16, 64)
					ev := map[string]interface{}{"ev": "putloc", "sigok": false,
						"prefixok": strings.HasPrefix(signed, prefix+"+A"), "signed": signedp,
						"expok": perr == nil && pe >= p0.Unix()+ttl && pe <= p1.Unix()+ttl}
					if signedp {
						ev["sigok"] = psig == vC07KsRefSig(key, phash, scn.VToken, pexp, ttl)
					}
					tw.Write(map[string]interface{}{"ev": "reset", "scn": scn.ID, "kind": "ksput", "wf": true, "same": true, "lenonly": false,
						"loc": signed, "putstatus": presp.StatusCode})
					if presp.StatusCode == 200 && signedp {
						tw.Write(ev)
					} else if presp.StatusCode == 200 {
						ev["ev"] = "skip" // PUT returned an unsigned locator: nothing the statement speaks about
						tw.Write(ev)
					}
					// the locator keepstore signed itself is an unperturbed case: present it back
					if presp.StatusCode == 200 && signedp && ev["sigok"] == true && perr == nil && phash == scn.PHash {
						greq, err := http.NewRequest("GET", srv.URL+"/"+signed, nil)
						if err == nil {
							greq.Header.Set("Authorization", "OAuth2 "+scn.VToken)
							g0 := time.Now()
							verr := VerifySignature(cluster, signed, scn.VToken)
							g1 := time.Now()
							vok, res := vC07KsVerdict(verr)
							tw.Write(map[string]interface{}{"ev": "verifyks", "via": "keepstore", "rel": vC07KsRel(pe, g0, g1), "ok": vok, "res": res})
							g0 = time.Now()
							gresp, err := client.Do(greq)
							g1 = time.Now()
							if err == nil {
								gbody, _ := io.ReadAll(gresp.Body)
								gresp.Body.Close()
								tw.Write(map[string]interface{}{"ev": "ksget", "rel": vC07KsRel(pe, g0, g1), "status": gresp.StatusCode, "dataok": bytes.Equal(gbody, data)})
							}
						}
					}
				}
			}
		}
		os.RemoveAll(filepath.Dir(bpath))
	}
	tw.Close()
	fmt.Println("VERIF-DRIVER-DONE")
}
