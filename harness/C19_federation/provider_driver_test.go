//go:build verif

// RUN stage of C19, site "provider": federation.saltedTokenProvider behind a real rpc.Conn that
// talks to a recording HTTP server standing in for the remote cluster.

package federation

import (
	"context"
	"errors"
	"fmt"
	"math/rand"
	"net/http"
	"net/http/httptest"
	"net/url"
	"os"
	"testing"

	"git.arvados.org/arvados.git/lib/controller/rpc"
	"git.arvados.org/arvados.git/sdk/go/arvados"
	"git.arvados.org/arvados.git/sdk/go/arvadostest"
	"git.arvados.org/arvados.git/sdk/go/auth"
	"git.arvados.org/arvados.git/sdk/go/httpserver"
)

// the local cluster: resolves legacy tokens it knows
type vC19Local struct {
	arvadostest.APIStub
	known map[string]vC19Concrete
}

func (l *vC19Local) APIClientAuthorizationCurrent(ctx context.Context, opts arvados.GetOptions) (arvados.APIClientAuthorization, error) {
	creds, ok := auth.FromContext(ctx)
	if ok && len(creds.Tokens) == 1 {
		if t, ok := l.known[creds.Tokens[0]]; ok {
			return arvados.APIClientAuthorization{UUID: t.acaUUID, APIToken: t.token}, nil
		}
	}
	return arvados.APIClientAuthorization{}, httpserver.ErrorWithStatus(errors.New("not logged in"), http.StatusUnauthorized)
}

func TestVerifC19Provider(t *testing.T) {
	var scns []vC19Scenario
	vReadNDJSON(os.Getenv("VERIF_SCENARIOS"), func() interface{} { scns = append(scns, vC19Scenario{}); return &scns[len(scns)-1] })
	out := vNewTraceWriter(os.Getenv("VERIF_TRACES"))
	defer out.Close()
	rec := &vC19Recorder{}
	srv := httptest.NewServer(rec)
	defer srv.Close()
	u, _ := url.Parse(srv.URL)
	for _, scn := range scns {
		rng := rand.New(rand.NewSource(int64(scn.ID)*15485863 + scn.RSeed))
		local := &vC19Local{known: map[string]vC19Concrete{}}
		var toks []vC19Concrete
		var strs []string
		for _, a := range scn.Toks {
			c := vC19Token(rng, a.C)
			toks = append(toks, c)
			strs = append(strs, c.token)
			if a.C == "legLocal" || a.C == "legRemote" {
				local.known[c.token] = c
			}
		}
		out.Write(map[string]interface{}{"ev": "reset", "scn": scn.ID, "site": scn.Site, "toks": scn.Toks})
		conn := rpc.NewConn(vC19Remote, u, true, saltedTokenProvider(local, vC19Remote))
		ctx := auth.NewContext(context.Background(), &auth.Credentials{Tokens: strs})
		rec.take()
		switch scn.ID % 3 {
		case 0:
			conn.CollectionGet(ctx, arvados.GetOptions{UUID: vC19Remote + "-4zz18-000000000000000"})
		case 1:
			conn.ContainerList(ctx, arvados.ListOptions{Limit: -1, Filters: []arvados.Filter{{"uuid", "in", []string{vC19Remote + "-dz642-000000000000000"}}}})
		default:
			conn.CollectionUpdate(ctx, arvados.UpdateOptions{UUID: vC19Remote + "-4zz18-000000000000000", Attrs: map[string]interface{}{"name": "x"}})
		}
		reqs := rec.take()
		if len(reqs) == 0 {
			out.Write(map[string]interface{}{"ev": "refuse"})
			continue
		}
		obs := vC19Observe(reqs, toks)
		out.Write(map[string]interface{}{"ev": "forward", "obs": obs, "nreq": len(reqs)})
	}
	fmt.Println("VERIF-DRIVER-DONE scenarios:", len(scns))
}
