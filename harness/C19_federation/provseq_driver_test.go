//go:build verif

// RUN stage of C19, site "provseq": ONE request context served at a sequence of destinations
// through a real federation.Conn - remote R1 (bbbbb) and remote R2 (ccccc) are real rpc.Conn
// backends with saltedTokenProvider, each talking to its own recording HTTP server; the local
// backend is a stub recording the credentials it is called with.  Steps (TokenSeq.tla):
//   R1 | R2 | local   Conn.CollectionGet by a UUID with that cluster's prefix (chooseBackend)
//   fan               Conn.CollectionGet by portable data hash: local says 404, then R1 and R2 are
//                     asked concurrently with the same context (tryLocalThenRemotes)
// Judged by specs/federation/TokenSeqTrace.tla.  The driver decides nothing.

package federation

import (
	"context"
	"errors"
	"fmt"
	"math/rand"
	"net/http"
	"net/http/httptest"
	"net/url"
	"os"
	"strings"
	"sync"
	"testing"

	"git.arvados.org/arvados.git/lib/controller/rpc"
	"git.arvados.org/arvados.git/sdk/go/arvados"
	"git.arvados.org/arvados.git/sdk/go/auth"
	"git.arvados.org/arvados.git/sdk/go/httpserver"
)

type vC19SeqScenario struct {
	ID    int       `json:"id"`
	Site  string    `json:"site"`
	Toks  []vC19Tok `json:"toks"`
	Plan  []string  `json:"plan"`
	RSeed int64     `json:"rseed"`
}

// the local cluster: resolves legacy tokens (vC19Local) and records what it is asked with
type vC19SeqLocal struct {
	vC19Local
	mu   sync.Mutex
	seen [][]string
}

func (l *vC19SeqLocal) CollectionGet(ctx context.Context, opts arvados.GetOptions) (arvados.Collection, error) {
	creds, _ := auth.FromContext(ctx)
	l.mu.Lock()
	if creds != nil {
		l.seen = append(l.seen, append([]string(nil), creds.Tokens...))
	} else {
		l.seen = append(l.seen, nil)
	}
	l.mu.Unlock()
	return arvados.Collection{}, httpserver.ErrorWithStatus(errors.New("not found"), http.StatusNotFound)
}

func (l *vC19SeqLocal) take() []vC19Captured {
	l.mu.Lock()
	defer l.mu.Unlock()
	var out []vC19Captured
	for _, toks := range l.seen {
		out = append(out, vC19Captured{body: strings.Join(toks, "\n")})
	}
	l.seen = nil
	return out
}

// obs of the tokens for destination `dest` (cluster id; "" = local)
func vC19SeqObserve(reqs []vC19Captured, toks []vC19Concrete, dest string) []map[string]interface{} {
	base := vC19Observe(reqs, toks)
	out := make([]map[string]interface{}, len(toks))
	for i, t := range toks {
		form := func(cluster string) string {
			// the token's form salted for `cluster`: same UUID, HMAC of the cluster id
			switch {
			case strings.HasPrefix(t.class, "leg"):
				return "v2/" + t.acaUUID + "/" + vC19HMAC(t.token, cluster)
			case t.class == "opaque" || t.class == "saltR1":
				return "\x00none\x00"
			}
			parts := strings.SplitN(t.token, "/", 4)
			return "v2/" + parts[1] + "/" + vC19HMAC(t.secret, cluster)
		}
		o := map[string]interface{}{"leak": base[i]["leak"], "same": base[i]["same"], "uuid": base[i]["uuid"], "salted": false, "foreign": false}
		for _, rq := range reqs {
			hay := rq.uri + "\n" + rq.body
			if u, err := url.QueryUnescape(hay); err == nil {
				hay += "\n" + u
			}
			for _, vs := range rq.header {
				hay += "\n" + strings.Join(vs, "\n")
			}
			for _, cl := range []string{vC19Remote, vC19Other} {
				if strings.Contains(hay, form(cl)) {
					if cl == dest {
						o["salted"] = true
					} else {
						o["foreign"] = true
					}
				}
			}
		}
		out[i] = o
	}
	return out
}

func TestVerifC19ProvSeq(t *testing.T) {
	var scns []vC19SeqScenario
	vReadNDJSON(os.Getenv("VERIF_SCENARIOS"), func() interface{} { scns = append(scns, vC19SeqScenario{}); return &scns[len(scns)-1] })
	out := vNewTraceWriter(os.Getenv("VERIF_TRACES"))
	defer out.Close()
	recs := map[string]*vC19Recorder{vC19Remote: {}, vC19Other: {}}
	urls := map[string]*url.URL{}
	for id, rec := range recs {
		srv := httptest.NewServer(rec)
		defer srv.Close()
		urls[id], _ = url.Parse(srv.URL)
	}
	destID := map[string]string{"R1": vC19Remote, "R2": vC19Other, "local": vC19Home}
	for _, scn := range scns {
		rng := rand.New(rand.NewSource(int64(scn.ID)*15485863 + scn.RSeed))
		local := &vC19SeqLocal{vC19Local: vC19Local{known: map[string]vC19Concrete{}}}
		var toks []vC19Concrete
		var strs []string
		for _, a := range scn.Toks {
			class := a.C
			if class == "saltR1" {
				class = "saltR"
			}
			c := vC19Token(rng, class)
			c.class = a.C
			toks = append(toks, c)
			strs = append(strs, c.token)
			if a.C == "legLocal" {
				local.known[c.token] = c
			}
		}
		cluster := &arvados.Cluster{ClusterID: vC19Home, RemoteClusters: map[string]arvados.RemoteCluster{}}
		conn := &Conn{cluster: cluster, local: local, remotes: map[string]backend{}}
		for id, u := range urls {
			cluster.RemoteClusters[id] = arvados.RemoteCluster{Host: u.Host, Scheme: "http", Proxy: true}
			conn.remotes[id] = rpc.NewConn(id, u, true, saltedTokenProvider(local, id))
		}
		out.Write(map[string]interface{}{"ev": "reset", "scn": scn.ID, "site": scn.Site, "toks": scn.Toks, "plan": scn.Plan})
		creds := &auth.Credentials{Tokens: append([]string(nil), strs...)}
		ctx := auth.NewContext(context.Background(), creds)
		deliver := func(dest string, reqs []vC19Captured) {
			if len(reqs) == 0 {
				return
			}
			id := destID[dest]
			if dest == "local" {
				id = ""
			}
			out.Write(map[string]interface{}{"ev": "deliver", "dest": dest, "obs": vC19SeqObserve(reqs, toks, id), "nreq": len(reqs)})
		}
		for _, st := range scn.Plan {
			recs[vC19Remote].take()
			recs[vC19Other].take()
			local.take()
			if st == "fan" {
				// a hash the empty answers of the recording servers do not match: both remotes are waited for
				conn.CollectionGet(ctx, arvados.GetOptions{UUID: "acbd18db4cc2f85cedef654fccc4a4d8+3"})
			} else {
				conn.CollectionGet(ctx, arvados.GetOptions{UUID: destID[st] + "-4zz18-000000000000000"})
			}
			deliver("local", local.take())
			deliver("R1", recs[vC19Remote].take())
			deliver("R2", recs[vC19Other].take())
		}
		same := len(creds.Tokens) == len(strs)
		for i := range strs {
			same = same && creds.Tokens[i] == strs[i]
		}
		out.Write(map[string]interface{}{"ev": "end", "ctxsame": same})
	}
	fmt.Println("VERIF-DRIVER-DONE scenarios:", len(scns))
}
