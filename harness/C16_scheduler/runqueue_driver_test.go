//go:build verif

// RUN stage of C16 (b) (DESIGN.md section 6, C16): one pass of the REAL scheduler.runQueue over a
// queue snapshot and a small deterministic worker pool, both taken from the scenario
// (specs/dispatch/RunQueue.tla's Gen configuration, or random snapshots made by checks/C16.py).
// The recorded call log is judged by specs/dispatch/RunQueueTrace.tla (RunQueueContract).
//
// The driver decides nothing.
//
// Scenario:
//   ctrs [{prio, state "Queued"|"Locked", type k, inrun "no"|"live"|"exited", late bool}]
//        container i (1-based position) gets UUID test.ContainerUUID(i) and instance type
//        test.InstanceType(k); inrun: reported by pool.Running() (exited: with a non-zero time);
//        late: KillContainer answers true although Running() did not report a process
//   pool {idle [per type], boot [per type], qleft, createok [per type], startok [per type]}
//        Unallocated() = idle + boot; AtQuota() = qleft == 0;
//        Create(t) succeeds iff createok[t] && qleft > 0 (then boot[t]++, qleft--);
//        StartContainer(t, c) succeeds iff idle[t] > 0 && startok[t] (then idle[t]--);
//        Shutdown(t) takes an idle worker of type t if there is one
//   ready [{at, t}]  before the at-th (0-based) logged call, a booting worker of type t becomes idle
// Events: see RunQueueTrace.tla.  Container numbers are positions in ctrs (0 = unknown UUID), type
// numbers are the k of test.InstanceType(k) (0 = unknown).

package scheduler

import (
	"context"
	"errors"
	"fmt"
	"io"
	"os"
	"runtime"
	"sync"
	"testing"
	"time"

	"git.arvados.org/arvados.git/lib/dispatchcloud/container"
	"git.arvados.org/arvados.git/lib/dispatchcloud/test"
	"git.arvados.org/arvados.git/lib/dispatchcloud/worker"
	"git.arvados.org/arvados.git/sdk/go/arvados"
	"git.arvados.org/arvados.git/sdk/go/ctxlog"
	"github.com/sirupsen/logrus"
)

type vRQCtr struct {
	Prio  int    `json:"prio"`
	State string `json:"state"`
	Type  int    `json:"type"`
	InRun string `json:"inrun"`
	Late  bool   `json:"late"`
}

type vRQPool struct {
	Idle     []int  `json:"idle"`
	Boot     []int  `json:"boot"`
	QLeft    int    `json:"qleft"`
	CreateOK []bool `json:"createok"`
	StartOK  []bool `json:"startok"`
}

type vRQReady struct {
	At int `json:"at"`
	T  int `json:"t"`
}

type vRQScenario struct {
	ID    int        `json:"id"`
	Ctrs  []vRQCtr   `json:"ctrs"`
	Pool  vRQPool    `json:"pool"`
	Ready []vRQReady `json:"ready"`
}

type vRQWorld struct {
	mu      sync.Mutex
	scn     *vRQScenario
	events  []map[string]interface{}
	ncalls  int // logged calls so far (the position "ready" entries refer to)
	idle    map[int]int
	boot    map[int]int
	qleft   int
	ctrOf   map[string]int // uuid -> position
	entries map[string]container.QueueEnt
	state   map[string]arvados.ContainerState
}

func vRQTypeOf(it arvados.InstanceType) int {
	var k int
	if _, err := fmt.Sscanf(it.Name, "type%d", &k); err != nil || test.InstanceType(k) != it {
		return 0
	}
	return k
}

// caller holds mu.  Applies the "ready" events due before the next logged call.
func (w *vRQWorld) due() {
	for _, r := range w.scn.Ready {
		if r.At == w.ncalls && w.boot[r.T] > 0 {
			w.boot[r.T]--
			w.idle[r.T]++
			w.events = append(w.events, map[string]interface{}{"ev": "ready", "t": r.T})
		}
	}
}

// caller holds mu.  Logs one call of the pass.
func (w *vRQWorld) call(ev map[string]interface{}) {
	w.due()
	w.ncalls++
	w.events = append(w.events, ev)
}

type vRQStubPool struct{ w *vRQWorld }

func (p vRQStubPool) Running() map[string]time.Time {
	p.w.mu.Lock()
	defer p.w.mu.Unlock()
	r := map[string]time.Time{}
	for i, c := range p.w.scn.Ctrs {
		switch c.InRun {
		case "live":
			r[test.ContainerUUID(i+1)] = time.Time{}
		case "exited":
			r[test.ContainerUUID(i+1)] = time.Now().Add(-time.Hour)
		}
	}
	return r
}

func (p vRQStubPool) Unallocated() map[arvados.InstanceType]int {
	p.w.mu.Lock()
	defer p.w.mu.Unlock()
	r := map[arvados.InstanceType]int{}
	for t := 1; t <= len(p.w.scn.Pool.Idle); t++ {
		if n := p.w.idle[t] + p.w.boot[t]; n > 0 {
			r[test.InstanceType(t)] = n
		}
	}
	return r
}

func (p vRQStubPool) CountWorkers() map[worker.State]int {
	p.w.mu.Lock()
	defer p.w.mu.Unlock()
	r := map[worker.State]int{}
	for t := range p.w.idle {
		r[worker.StateIdle] += p.w.idle[t]
		r[worker.StateBooting] += p.w.boot[t]
	}
	return r
}

func (p vRQStubPool) AtQuota() bool {
	p.w.mu.Lock()
	defer p.w.mu.Unlock()
	r := p.w.qleft == 0
	p.w.events = append(p.w.events, map[string]interface{}{"ev": "atquota", "r": r})
	return r
}

func (p vRQStubPool) Create(it arvados.InstanceType) bool {
	p.w.mu.Lock()
	defer p.w.mu.Unlock()
	t := vRQTypeOf(it)
	ok := t >= 1 && t <= len(p.w.scn.Pool.CreateOK) && p.w.scn.Pool.CreateOK[t-1] && p.w.qleft > 0
	p.w.call(map[string]interface{}{"ev": "create", "t": t, "ok": ok})
	if ok {
		p.w.boot[t]++
		p.w.qleft--
	}
	return ok
}

func (p vRQStubPool) Shutdown(it arvados.InstanceType) bool {
	p.w.mu.Lock()
	defer p.w.mu.Unlock()
	t := vRQTypeOf(it)
	p.w.due()
	ok := p.w.idle[t] > 0
	p.w.call(map[string]interface{}{"ev": "shutdown", "t": t, "r": ok})
	if ok {
		p.w.idle[t]--
	}
	return ok
}

func (p vRQStubPool) StartContainer(it arvados.InstanceType, ctr arvados.Container) bool {
	p.w.mu.Lock()
	defer p.w.mu.Unlock()
	t := vRQTypeOf(it)
	p.w.due()
	ok := t >= 1 && t <= len(p.w.scn.Pool.StartOK) && p.w.scn.Pool.StartOK[t-1] && p.w.idle[t] > 0
	p.w.call(map[string]interface{}{"ev": "start", "c": p.w.ctrOf[ctr.UUID], "t": t, "ok": ok})
	if ok {
		p.w.idle[t]--
	}
	return ok
}

func (p vRQStubPool) KillContainer(uuid, reason string) bool {
	p.w.mu.Lock()
	defer p.w.mu.Unlock()
	c := p.w.ctrOf[uuid]
	r := c > 0 && (p.w.scn.Ctrs[c-1].Late || p.w.scn.Ctrs[c-1].InRun == "live")
	p.w.call(map[string]interface{}{"ev": "kill", "c": c, "r": r})
	return r
}

func (p vRQStubPool) ForgetContainer(uuid string) {}
func (p vRQStubPool) Subscribe() <-chan struct{}  { return make(chan struct{}) }
func (p vRQStubPool) Unsubscribe(<-chan struct{}) {}

type vRQStubQueue struct{ w *vRQWorld }

func (q vRQStubQueue) Entries() (map[string]container.QueueEnt, time.Time) {
	q.w.mu.Lock()
	defer q.w.mu.Unlock()
	r := map[string]container.QueueEnt{}
	for k, v := range q.w.entries {
		r[k] = v
	}
	return r, time.Now()
}

// Lock is called from goroutines started by the pass; not part of the judged call log.
func (q vRQStubQueue) Lock(uuid string) error {
	q.w.mu.Lock()
	defer q.w.mu.Unlock()
	if q.w.state[uuid] != arvados.ContainerStateQueued {
		return errors.New("verif: not queued")
	}
	q.w.state[uuid] = arvados.ContainerStateLocked
	return nil
}

func (q vRQStubQueue) Unlock(uuid string) error {
	q.w.mu.Lock()
	defer q.w.mu.Unlock()
	q.w.call(map[string]interface{}{"ev": "unlock", "c": q.w.ctrOf[uuid]})
	if q.w.state[uuid] != arvados.ContainerStateLocked {
		return errors.New("verif: not locked")
	}
	q.w.state[uuid] = arvados.ContainerStateQueued
	return nil
}

func (q vRQStubQueue) Cancel(uuid string) error { return nil }
func (q vRQStubQueue) Forget(uuid string)       {}
func (q vRQStubQueue) Get(uuid string) (arvados.Container, bool) {
	q.w.mu.Lock()
	defer q.w.mu.Unlock()
	ent, ok := q.w.entries[uuid]
	ent.Container.State = q.w.state[uuid]
	return ent.Container, ok
}
func (q vRQStubQueue) Subscribe() <-chan struct{}  { return make(chan struct{}) }
func (q vRQStubQueue) Unsubscribe(<-chan struct{}) {}
func (q vRQStubQueue) Update() error               { return nil }

func TestVerifC16RunQueue(t *testing.T) {
	var scns []*vRQScenario
	vReadNDJSON(os.Getenv("VERIF_SCENARIOS"), func() interface{} {
		s := &vRQScenario{}
		scns = append(scns, s)
		return s
	})
	tw := vNewTraceWriter(os.Getenv("VERIF_TRACES"))
	defer tw.Close()
	logger := logrus.New()
	logger.Out = io.Discard
	ctx := ctxlog.Context(context.Background(), logger)
	hung := 0
	for _, s := range scns {
		w := &vRQWorld{scn: s, idle: map[int]int{}, boot: map[int]int{}, qleft: s.Pool.QLeft,
			ctrOf: map[string]int{}, entries: map[string]container.QueueEnt{}, state: map[string]arvados.ContainerState{}}
		for k := range s.Pool.Idle {
			w.idle[k+1] = s.Pool.Idle[k]
			w.boot[k+1] = s.Pool.Boot[k]
		}
		ctrs := []map[string]interface{}{}
		for i, c := range s.Ctrs {
			uuid := test.ContainerUUID(i + 1)
			w.ctrOf[uuid] = i + 1
			st := arvados.ContainerState(c.State)
			w.state[uuid] = st
			w.entries[uuid] = container.QueueEnt{
				Container: arvados.Container{UUID: uuid, Priority: int64(c.Prio), State: st,
					RuntimeConstraints: arvados.RuntimeConstraints{VCPUs: c.Type, RAM: int64(c.Type) << 30}},
				InstanceType: test.InstanceType(c.Type),
			}
			ctrs = append(ctrs, map[string]interface{}{"prio": c.Prio, "state": c.State, "type": c.Type, "inrun": c.InRun, "late": c.Late})
		}
		tw.Write(map[string]interface{}{"ev": "reset", "scn": s.ID, "ctrs": ctrs,
			"pool": map[string]interface{}{"qleft": s.Pool.QLeft, "idle": s.Pool.Idle, "boot": s.Pool.Boot,
				"createok": s.Pool.CreateOK, "startok": s.Pool.StartOK}})
		base := runtime.NumGoroutine()
		sch := New(ctx, vRQStubQueue{w}, vRQStubPool{w}, nil, time.Hour, time.Hour)
		sch.runQueue()
		// quiescence: the lockContainer goroutines started by the pass have ended
		deadline := time.Now().Add(20 * time.Second)
		for runtime.NumGoroutine() > base && time.Now().Before(deadline) {
			time.Sleep(50 * time.Microsecond)
		}
		if runtime.NumGoroutine() > base {
			hung++
		}
		sch.wakeup.Stop()
		w.mu.Lock()
		for _, ev := range w.events {
			tw.Write(ev)
		}
		w.mu.Unlock()
		tw.Write(map[string]interface{}{"ev": "passdone"})
	}
	if hung > 0 {
		fmt.Printf("VERIF-NOTE goroutines still alive after %d passes\n", hung)
	}
	fmt.Println("VERIF-DRIVER-DONE")
}
