//go:build verif

// RUN stage of C19, site "keepstore": remoteProxy.Get -> remoteClient builds (first fetch) or reuses
// (later fetches) the keep client for the remote cluster and salts the caller's token before fetching
// a +R block.  The remote cluster is two recording servers: its API server (TLS; discovery document
// and keep_services/accessible, which remoteClient's service discovery asks for on the first fetch)
// and its keep service (the block fetch).  EVERY request that reaches either of them, on the first
// and on the second fetch, is searched for the caller's secret.  The keep client's list of services
// is cached per API host for the whole process, so every scenario gets an API server of its own.

package main

import (
	"context"
	"fmt"
	"io"
	"math/rand"
	"net/http"
	"net/http/httptest"
	"net/url"
	"os"
	"strings"
	"sync"
	"testing"

	"git.arvados.org/arvados.git/sdk/go/arvados"
)

type vC19KeepRemote struct {
	mu   sync.Mutex
	reqs []vC19Captured
}

func (r *vC19KeepRemote) record(req *http.Request) {
	b, _ := io.ReadAll(req.Body)
	r.mu.Lock()
	r.reqs = append(r.reqs, vC19Captured{uri: req.RequestURI, header: req.Header.Clone(), body: string(b)})
	r.mu.Unlock()
}

func (r *vC19KeepRemote) take() []vC19Captured {
	r.mu.Lock()
	defer r.mu.Unlock()
	out := r.reqs
	r.reqs = nil
	return out
}

func TestVerifC19Keepstore(t *testing.T) {
	var scns []vC19Scenario
	vReadNDJSON(os.Getenv("VERIF_SCENARIOS"), func() interface{} { scns = append(scns, vC19Scenario{}); return &scns[len(scns)-1] })
	out := vNewTraceWriter(os.Getenv("VERIF_TRACES"))
	defer out.Close()
	remote := &vC19KeepRemote{}
	keepSrv := httptest.NewServer(http.HandlerFunc(func(w http.ResponseWriter, req *http.Request) {
		remote.record(req)
		w.Write([]byte("foo"))
	}))
	defer keepSrv.Close()
	ku, _ := url.Parse(keepSrv.URL)
	for _, scn := range scns {
		rng := rand.New(rand.NewSource(int64(scn.ID)*15485863 + scn.RSeed))
		tok := vC19Token(rng, scn.Toks[0].C)
		// the remote cluster's API server
		apiSrv := httptest.NewTLSServer(http.HandlerFunc(func(w http.ResponseWriter, req *http.Request) {
			remote.record(req)
			w.Header().Set("Content-Type", "application/json")
			switch {
			case strings.HasPrefix(req.URL.Path, "/discovery/"):
				fmt.Fprint(w, `{"defaultCollectionReplication":2,"blobSignatureTtl":1209600,"maxRequestSize":134217728}`)
			case strings.HasSuffix(req.URL.Path, "/keep_services/accessible"):
				fmt.Fprintf(w, `{"kind":"arvados#keepServiceList","items":[{"uuid":"%s-bi6l4-000000000000000","service_host":%q,"service_port":%s,"service_ssl_flag":false,"service_type":"proxy","read_only":false}],"items_available":1}`,
					vC19Remote, ku.Hostname(), ku.Port())
			default:
				w.WriteHeader(http.StatusNotFound)
				fmt.Fprint(w, `{"errors":["not found"]}`)
			}
		}))
		au, _ := url.Parse(apiSrv.URL)
		cluster := &arvados.Cluster{ClusterID: vC19Home, RemoteClusters: map[string]arvados.RemoteCluster{
			vC19Remote: {Host: au.Host, Scheme: "https", Proxy: true, Insecure: true},
		}}
		rp := &remoteProxy{}
		scheme := "OAuth2 "
		if scn.Toks[0].P == "bearer" {
			scheme = "Bearer "
		}
		out.Write(map[string]interface{}{"ev": "reset", "scn": scn.ID, "site": scn.Site, "toks": scn.Toks})
		remote.take()
		var reqs []vC19Captured
		status := []int{}
		for fetch := 0; fetch < 2; fetch++ { // the first fetch builds the client for the remote, the second reuses it
			req := httptest.NewRequest("GET", "http://keep0.example/acbd18db4cc2f85cedef654fccc4a4d8+3+R"+vC19Remote+"-"+vC19Rand(rng, 40, "0123456789abcdef")+"@5fffffff", nil)
			req.Header.Set("Authorization", scheme+tok.token)
			w := httptest.NewRecorder()
			rp.Get(context.Background(), w, req, cluster, nil)
			status = append(status, w.Code)
			reqs = append(reqs, remote.take()...)
		}
		apiSrv.CloseClientConnections()
		if len(reqs) == 0 {
			out.Write(map[string]interface{}{"ev": "refuse", "status": status})
			continue
		}
		out.Write(map[string]interface{}{"ev": "forward", "obs": vC19Observe(reqs, []vC19Concrete{tok}), "nreq": len(reqs), "status": status})
		// (the API server is left running: the keep client's service-list poller of this scenario
		// may still talk to it; it carries whatever token the client was built with)
	}
	fmt.Println("VERIF-DRIVER-DONE scenarios:", len(scns))
}
