//go:build verif

// RUN stage of C19, site "keepstore": remoteProxy.Get -> remoteClient salts the caller's token
// before fetching a +R block from the remote cluster's keep service (a recording HTTP server).

package main

import (
	"context"
	"fmt"
	"math/rand"
	"net/http"
	"net/http/httptest"
	"net/url"
	"os"
	"testing"

	"git.arvados.org/arvados.git/sdk/go/arvados"
	"git.arvados.org/arvados.git/sdk/go/arvadosclient"
	"git.arvados.org/arvados.git/sdk/go/keepclient"
)

func TestVerifC19Keepstore(t *testing.T) {
	var scns []vC19Scenario
	vReadNDJSON(os.Getenv("VERIF_SCENARIOS"), func() interface{} { scns = append(scns, vC19Scenario{}); return &scns[len(scns)-1] })
	out := vNewTraceWriter(os.Getenv("VERIF_TRACES"))
	defer out.Close()
	rec := &vC19Recorder{body: "foo"}
	srv := httptest.NewServer(rec)
	defer srv.Close()
	u, _ := url.Parse(srv.URL)
	cluster := &arvados.Cluster{ClusterID: vC19Home, RemoteClusters: map[string]arvados.RemoteCluster{
		vC19Remote: {Host: u.Host, Scheme: "http", Proxy: true, Insecure: true},
	}}
	// the cached client for the remote cluster (what remoteClient would build through service
	// discovery), pointing at the recording server
	kc := &keepclient.KeepClient{
		Arvados:       &arvadosclient.ArvadosClient{ApiServer: u.Host, ApiToken: "xxx", ApiInsecure: true},
		Want_replicas: 1,
	}
	kc.SetServiceRoots(map[string]string{vC19Remote + "-bi6l4-000000000000000": srv.URL}, nil, nil)
	for _, scn := range scns {
		rng := rand.New(rand.NewSource(int64(scn.ID)*15485863 + scn.RSeed))
		tok := vC19Token(rng, scn.Toks[0].C)
		rp := &remoteProxy{clients: map[string]*keepclient.KeepClient{vC19Remote: kc}}
		scheme := "OAuth2 "
		if scn.Toks[0].P == "bearer" {
			scheme = "Bearer "
		}
		req := httptest.NewRequest("GET", "http://keep0.example/acbd18db4cc2f85cedef654fccc4a4d8+3+R"+vC19Remote+"-"+vC19Rand(rng, 40, "0123456789abcdef")+"@5fffffff", nil)
		req.Header.Set("Authorization", scheme+tok.token)
		out.Write(map[string]interface{}{"ev": "reset", "scn": scn.ID, "site": scn.Site, "toks": scn.Toks})
		rec.take()
		w := httptest.NewRecorder()
		rp.Get(context.Background(), w, req, cluster, nil)
		reqs := rec.take()
		if len(reqs) == 0 {
			out.Write(map[string]interface{}{"ev": "refuse", "status": w.Code})
			continue
		}
		obs := vC19Observe(reqs, []vC19Concrete{tok})
		out.Write(map[string]interface{}{"ev": "forward", "obs": obs, "nreq": len(reqs), "status": w.Code})
	}
	fmt.Println("VERIF-DRIVER-DONE scenarios:", len(scns))
	_ = http.StatusOK
}
