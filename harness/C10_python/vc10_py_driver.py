#!/usr/bin/env python3
"""RUN stage of C10 for codec "py": sdk/python/arvados/_ranges.py (first_block, locators_and_ranges) and
_normalize_stream.py (escape, normalize_stream), run in a child process by checks/C10.py.

usage: vc10_py_driver.py <path of sdk/python/arvados> <scenarios.ndjson> <traces.ndjson>

The two modules are loaded from the repository under a stub package `arvados` whose `config` submodule
only has EMPTY_BLOCK_LOCATOR (the real package imports half of the SDK and its dependencies).

The glue below is NOT anchored code; it mirrors, line by line, how the SDK drives the range mapper:
  collection.py _import_manifest : blocks.append(Range(tok, streamoffset, blocksize, 0)); per file token
                                   afile.add_segment(blocks, pos, size); names through _unescape_manifest_path
  arvfile.py _add_segment        : for lr in locators_and_ranges(blocks, pos, size):
                                       Range(lr.locator, <file offset>, lr.segment_size, lr.segment_offset)
  arvfile.py readfrom            : locators_and_ranges(self._segments, offset, size)
  collection.py manifest_text(normalize=True) : per directory {filename: [LocatorAndRange(loc, blocksize,
                                   segment.segment_offset, segment.range_size)]} -> normalize_stream(dirname, ...)
Names are handled as latin-1 strings (one character per byte), so byte values survive unchanged.

Abstract syntax and concretisation as in harness/C10_manifest/vc10_common_test.go.tmpl (a block is
10000*h+c: c stands for hash+size, h selects the hints).  Decides nothing.
"""
import hashlib
import importlib.util
import json
import os
import traceback
import random
import re
import sys
import types

EMPTY = "d41d8cd98f00b204e9800998ecf8427e"


def load_sdk(sdkdir):
    pkg = types.ModuleType("arvados")
    pkg.__path__ = []
    cfg = types.ModuleType("arvados.config")
    cfg.EMPTY_BLOCK_LOCATOR = EMPTY + "+0"
    pkg.config = cfg
    sys.modules["arvados"] = pkg
    sys.modules["arvados.config"] = cfg
    mods = {}
    for name in ("_ranges", "_normalize_stream"):
        spec = importlib.util.spec_from_file_location("arvados." + name, "%s/%s.py" % (sdkdir, name))
        mod = importlib.util.module_from_spec(spec)
        sys.modules["arvados." + name] = mod
        spec.loader.exec_module(mod)
        mods[name] = mod
    return mods["_ranges"], mods["_normalize_stream"]


class World:
    def __init__(self, streams):
        self.ids = [-1]
        self.hash = {}
        self.by_hash = {}
        for s in streams:
            for b in s["blocks"]:
                self.add(b)

    def add(self, b):
        b = b % 10000          # hints do not change which data is meant
        if b in self.hash:
            return
        size = b % 100
        if size == 0:
            self.hash[b] = EMPTY
            self.by_hash.setdefault(EMPTY, 0)
            return
        idx = len(self.ids)
        self.ids.append(b)
        h = hashlib.md5(bytes(idx * 32 + j for j in range(size))).hexdigest()
        self.hash[b] = h
        self.by_hash[h] = b

    HINTS = ["", "+A0123456789abcdef0123456789abcdef01234567@5f612ee6",
             "+Rzzzzz-0123456789abcdef0123456789abcdef01234567@5f612ee6",
             "+Z+Afedcba9876543210fedcba9876543210fedcba98@5f612ee6+Kzzzzz"]

    def locator(self, b):
        c, h = b % 10000, b // 10000
        loc = "%s+%d" % (self.hash[c], c % 100)
        if 0 < h < len(self.HINTS):
            loc += self.HINTS[h]
        return loc

    def id_of(self, loc):
        parts = str(loc).split("+", 2)
        try:
            size = int(parts[1])
        except (IndexError, ValueError):
            size = 0
        h = 0
        if len(parts) == 3:
            h = 9
            for i, hint in enumerate(self.HINTS):
                if "+" + parts[2] == hint:
                    h = i
        c = self.by_hash.get(parts[0])
        if c is not None and c % 100 == size:
            return 10000 * h + c
        return 10000 * h + 9900 + size % 100


def to_str(name):
    return bytes(name).decode("latin-1")


def to_bytes(s):
    return list(s.encode("latin-1"))


def unescape_manifest_path(path):      # collection.py:1716
    return re.sub('\\\\([0-3][0-7][0-7])', lambda m: chr(int(m.group(1), 8)), path)


BLOCK_RE = re.compile(r'[0-9a-f]{32}\+(\d+)(\+\S+)*')     # collection.py _block_re


def run_scenario(R, N, scn, rnd):
    evs = []
    w = World(scn["streams"])
    files = {}        # path -> list of Range (the ArvadosFile._segments)
    order = []
    for s in scn["streams"]:
        stream_name = unescape_manifest_path(to_str(s["name"]))
        blocks = []
        streamoffset = 0
        for b in s["blocks"]:
            tok = w.locator(b)
            blocksize = int(BLOCK_RE.match(tok).group(1))
            blocks.append(R.Range(tok, streamoffset, blocksize, 0))
            streamoffset += blocksize
        for t in s["toks"]:
            name = unescape_manifest_path(to_str(t["name"]))
            filepath = stream_name + "/" + name
            if filepath not in files:
                files[filepath] = []
                order.append(filepath)
            segs = files[filepath]
            for lr in R.locators_and_ranges(blocks, t["pos"], t["len"]):     # arvfile._add_segment
                last = segs[-1] if segs else R.Range(0, 0, 0, 0)
                segs.append(R.Range(lr.locator, last.range_start + last.range_size, lr.segment_size, lr.segment_offset))
    evs.append({"ev": "load", "kind": "ok", "paths": [to_bytes(p) for p in sorted(order)], "reads": []})
    for p in sorted(order):
        segs = files[p]
        obs = [{"via": "map", "start": 0, "n": -1,
                "segs": [[w.id_of(r.locator), r.segment_offset, r.range_size] for r in segs]}]
        size = segs[-1].range_start + segs[-1].range_size if segs else 0      # ArvadosFile.size()
        reads = [(0, size, -1)]
        for _ in range(2):
            if size > 0:
                a = rnd.randrange(size)
                reads.append((a, 1 + rnd.randrange(size - a), None))
        for (start, n, whole) in reads:
            got = R.locators_and_ranges(segs, start, n)                       # arvfile.readfrom
            obs.append({"via": "readfrom", "start": start, "n": -1 if whole == -1 else n,
                        "segs": [[w.id_of(lr.locator), lr.segment_offset, lr.segment_size] for lr in got]})
        evs.append({"ev": "file", "path": to_bytes(p), "kind": "ok", "obs": obs})
    # normalisation, as RichCollectionBase.manifest_text(normalize=True) does per directory
    dirs = {}
    for p in order:
        i = p.rindex("/")
        d, base = p[:i], p[i + 1:]
        dirs.setdefault(d, {})[base] = [
            R.LocatorAndRange(r.locator, int(BLOCK_RE.match(r.locator).group(1)), r.segment_offset, r.range_size)
            for r in files[p]]
    out = []
    for d in sorted(dirs):
        toks = N.normalize_stream(d, dirs[d])
        st = {"name": to_bytes(toks[0]), "blocks": [], "toks": []}
        i = 1
        while i < len(toks) and BLOCK_RE.fullmatch(toks[i]):
            st["blocks"].append(w.id_of(toks[i]))
            i += 1
        for t in toks[i:]:
            f = t.split(":", 2)
            st["toks"].append({"pos": int(f[0]), "len": int(f[1]), "name": to_bytes(f[2])})
        out.append(st)
    evs.append({"ev": "out", "op": "normalize", "src": [46], "rel": [46], "slash": False, "kind": "ok", "out": out})
    return evs


def main():
    sdkdir, scn_path, trace_path = sys.argv[1:4]
    R, N = load_sdk(sdkdir)
    n = 0
    with open(scn_path) as fin, open(trace_path, "w") as fout:
        for line in fin:
            line = line.strip()
            if not line:
                continue
            scn = json.loads(line)
            if scn.get("mut"):
                continue
            reset = {"ev": "reset", "scn": scn["id"], "codec": "py", "streams": scn["streams"], "mut": "none"}
            try:
                evs = run_scenario(R, N, scn, random.Random(scn.get("rseed", 0)))
            except Exception as e:
                # an exception is the Python form of a panic - but only if it was RAISED INSIDE the SDK modules under
                # test (innermost traceback frame in _ranges.py / _normalize_stream.py); anything raised by the glue
                # of this driver is an infrastructure failure (audit C10-6)
                tb = traceback.extract_tb(e.__traceback__)
                inner = os.path.abspath(tb[-1].filename) if tb else ""
                if not inner.startswith(os.path.abspath(sdkdir) + os.sep):
                    raise
                evs = [{"ev": "load", "kind": "panic", "detail": "%s: %s" % (type(e).__name__, e), "paths": [], "reads": []}]
            for ev in [reset] + evs:
                fout.write(json.dumps(ev, separators=(",", ":")) + "\n")
            n += 1
    print("VERIF-C10 codec=py scenarios=%d" % n)
    print("VERIF-DRIVER-DONE")


if __name__ == "__main__":
    main()
