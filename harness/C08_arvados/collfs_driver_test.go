//go:build verif

// RUN stage of C08 (DESIGN.md section 6, C08), shared by C09 and C13: drives a REAL collection
// filesystem (sdk/go/arvados fs_collection.go / fs_base.go / fs_filehandle.go) through the exported
// FileSystem/File interface with a fake in-memory Keep, and records every call with its arguments
// and results as the abstract trace judged by specs/collfs/CollFSTrace.tla.
//
// The driver decides nothing.  Trusted base (documented next to the contract):
//   concretiser   abstract path ["d","a"] -> "d/a" (optionally decorated with "/", "./", "//", "/./"),
//                 flags record -> os.O_* bits, content string -> bytes ('.' <-> 0x00)
//   abstraction   error -> ok / "nil"|"eof"|"err";  bytes -> string ('.' for 0x00, letters/digits for
//                 themselves, '?' for anything else);  directory size reported as 0
//   snapshot      after every step the whole tree is walked with Readdir and every file is read to
//                 EOF through a fresh O_RDONLY handle with random buffer sizes (event "snap")
//
// Scenario fields: ops (explicit call sequence from CollFSGen.tla) or mode "random" (seeded call
// sequence drawn on the fly), bs = maxBlockSize, flush = placement of explicit Flush / Sync /
// MarshalManifest calls between operations (invisible to the contract), init = "empty"|"manifest".

package arvados

import (
	"bytes"
	"encoding/json"
	"crypto/md5"
	"errors"
	"fmt"
	"io"
	"math/rand"
	"os"
	"runtime"
	"runtime/debug"
	"sort"
	"strings"
	"sync"
	"testing"
	"time"
)

type vcfsOp struct {
	Op  string   `json:"op"`
	H   int      `json:"h"`
	P   []string `json:"p"`
	Q   []string `json:"q"`
	Acc string   `json:"acc"`
	Cr  bool     `json:"cr"`
	Ex  bool     `json:"ex"`
	Tr  bool     `json:"tr"`
	Ap  bool     `json:"ap"`
	D   string   `json:"d"`
	N   int      `json:"n"`
	Off int      `json:"off"`
	Wh  int      `json:"wh"`
}

type vcfsScenario struct {
	ID    int      `json:"id"`
	Mode  string   `json:"mode"` // "steps" | "random"
	Ops   []vcfsOp `json:"ops"`
	BS    int      `json:"bs"`    // maxBlockSize (0 = leave the production value)
	Flush string   `json:"flush"` // none|flushall|flushlong|flushdir|marshal|sync|mixed
	RSeed int64    `json:"rseed"`
	NOps  int      `json:"nops"`
	Init  string   `json:"init"` // "empty" | "manifest"
	NoSnap bool    `json:"nosnap"`
	// C09
	Fail     string `json:"fail"`     // "" | "kth" | "rate" | "bg" | "final"
	FailK    int    `json:"failk"`    // kth: the k-th PutB fails (1-based)
	FailPct  int    `json:"failpct"`  // rate: percent of PutB calls failing
	NameMode string `json:"namemode"` // "" (symbols are the names) | "bytes" (names drawn from 0x01-0xff except '/')
	Saves    int    `json:"saves"`    // C09: number of save points
	FSteps   []vcfsFStep `json:"fsteps"` // C09 mode "flushdir"
	Hold     bool        `json:"hold"`   // background Keep writes stay pending across the NEXT call
}

// one step of a CollFSFlushDir.tla scenario (C09, mode "flushdir")
type vcfsFStep struct {
	Op     string          `json:"op"` // append | flush | marshal | marshalend | expect
	F      string          `json:"f"`
	D      string          `json:"d"`
	Path   string          `json:"path"`
	Short  bool            `json:"short"`
	Stored map[string]bool `json:"stored"`
}

type vcfsEvent map[string]interface{}

// ---------------------------------------------------------------------------------------------
// fake Keep

type vcfsPut struct {
	K       int    // ordinal of this PutB call (1-based)
	Data    []byte // copy of the bytes as received
	Locator string
	OK      bool
	BG      bool // called outside an explicit save (background prune / async flush)
}

type vcfsKeep struct {
	mu     sync.Mutex
	blocks map[string][]byte // hash -> data
	puts   []*vcfsPut
	// failure plan (C09): decides whether the k-th call fails
	failFn func(k int, bg bool) bool
	inSave bool // set by the driver around explicit save calls
	// gate (C13): if non-nil, every PutB blocks here until released; returns false to fail
	gate func(p *vcfsPut) bool
	// called when a PutB call is about to return (C09/C13 log it as an event)
	onDone func(p *vcfsPut, ok bool)
	// observed reads of unknown blocks
	badReads int
	inflight int
}

func vcfsNewKeep() *vcfsKeep {
	return &vcfsKeep{blocks: map[string][]byte{}}
}

var vcfsErrPut = errors.New("verif: keep write failed")
var vcfsErrRead = errors.New("verif: block not found")

func vcfsHash(p []byte) string { return fmt.Sprintf("%x", md5.Sum(p)) }

func (k *vcfsKeep) inflightNow() int {
	k.mu.Lock()
	defer k.mu.Unlock()
	return k.inflight
}

func (k *vcfsKeep) PutB(p []byte) (string, int, error) {
	buf := append([]byte(nil), p...)
	k.mu.Lock()
	k.inflight++
	defer func() {
		k.mu.Lock()
		k.inflight--
		k.mu.Unlock()
	}()
	put := &vcfsPut{K: len(k.puts) + 1, Data: buf, BG: !k.inSave}
	k.puts = append(k.puts, put)
	fail := k.failFn != nil && k.failFn(put.K, put.BG)
	gate := k.gate
	k.mu.Unlock()
	if gate != nil {
		if !gate(put) {
			fail = true
		}
	}
	if fail {
		if k.onDone != nil {
			k.onDone(put, false)
		}
		return "", 0, vcfsErrPut
	}
	// a signature-like hint is added so that a locator is recognisably one this Keep issued
	loc := fmt.Sprintf("%s+%d+Averif%d@ffffffff", vcfsHash(buf), len(buf), put.K)
	k.mu.Lock()
	k.blocks[loc[:32]] = buf
	put.Locator = loc
	put.OK = true
	k.mu.Unlock()
	if k.onDone != nil {
		k.onDone(put, true)
	}
	return loc, 1, nil
}

func (k *vcfsKeep) ReadAt(locator string, p []byte, off int) (int, error) {
	k.mu.Lock()
	defer k.mu.Unlock()
	if len(locator) < 32 {
		k.badReads++
		return 0, vcfsErrRead
	}
	buf, ok := k.blocks[locator[:32]]
	if !ok || off > len(buf) {
		k.badReads++
		return 0, vcfsErrRead
	}
	return copy(p, buf[off:]), nil
}

func (k *vcfsKeep) LocalLocator(locator string) (string, error) { return locator, nil }

// seed adds a block without counting it as a write (blocks of the original manifest).
func (k *vcfsKeep) seed(data []byte) string {
	k.mu.Lock()
	defer k.mu.Unlock()
	h := vcfsHash(data)
	k.blocks[h] = append([]byte(nil), data...)
	return fmt.Sprintf("%s+%d", h, len(data))
}

// Hold mode (scenario field "hold"): a Keep write started outside a save (asynchronous Flush,
// pruneMemSegments) does not return until the driver releases it, which it does after the NEXT
// call of the scenario - so "a call happens while the block write of a flush is still pending" is
// produced on purpose in the sequential drivers too, not only by luck.  At most 3 writes are held
// (the throttle has 4 slots; a call must never wait for a write the driver itself is holding), and
// everything is released before any save.
type vcfsHold struct {
	mu   sync.Mutex
	held []chan struct{}
}

func (h *vcfsHold) gate(p *vcfsPut) bool {
	if !p.BG {
		return true
	}
	h.mu.Lock()
	if len(h.held) >= 3 {
		h.mu.Unlock()
		return true
	}
	ch := make(chan struct{})
	h.held = append(h.held, ch)
	h.mu.Unlock()
	<-ch
	return true
}

func (h *vcfsHold) releaseAll() int {
	h.mu.Lock()
	held := h.held
	h.held = nil
	h.mu.Unlock()
	for _, ch := range held {
		close(ch)
	}
	return len(held)
}

// settle releases the held writes and waits until their goroutines are through (no write in
// flight, no open flushing channel).
func (r *vcfsRun) settle() {
	if r.hold == nil || r.dead {
		return
	}
	r.guard("settle", func() {
		for i := 0; i < 40000; i++ {
			n := r.hold.releaseAll()
			if n == 0 && r.keep.inflightNow() == 0 && !vcfsAnyFlushing(r.fs) {
				return
			}
			time.Sleep(100 * time.Microsecond)
		}
	})
}

// vcfsAnyFlushing: does any memSegment still have an open flushing channel?
func vcfsAnyFlushing(fs CollectionFileSystem) bool {
	cfs, ok := fs.(*collectionFileSystem)
	if !ok {
		return false
	}
	found := false
	var walk func(dn *dirnode)
	walk = func(dn *dirnode) {
		dn.RLock()
		defer dn.RUnlock()
		for _, n := range dn.inodes {
			switch n := n.(type) {
			case *dirnode:
				walk(n)
			case *filenode:
				n.RLock()
				for _, seg := range n.segments {
					if ms, ok := seg.(*memSegment); ok && ms.flushing != nil {
						select {
						case <-ms.flushing:
						default:
							found = true
						}
					}
				}
				n.RUnlock()
			}
		}
	}
	walk(cfs.fileSystem.root.(*dirnode))
	return found
}

// fake API client: records manifests saved by Sync()
type vcfsAPI struct {
	mu    sync.Mutex
	saved []string
}

func (a *vcfsAPI) RequestAndDecode(dst interface{}, method, path string, body io.Reader, params interface{}) error {
	a.mu.Lock()
	defer a.mu.Unlock()
	// whatever shape the parameters have: the first "manifest_text" string anywhere in them
	if b, err := json.Marshal(params); err == nil {
		var v interface{}
		if json.Unmarshal(b, &v) == nil {
			if txt, ok := vcfsFindManifestText(v); ok {
				a.saved = append(a.saved, txt)
			}
		}
	}
	return nil
}

func vcfsFindManifestText(v interface{}) (string, bool) {
	switch v := v.(type) {
	case map[string]interface{}:
		if s, ok := v["manifest_text"].(string); ok {
			return s, true
		}
		keys := make([]string, 0, len(v))
		for k := range v {
			keys = append(keys, k)
		}
		sort.Strings(keys)
		for _, k := range keys {
			if s, ok := vcfsFindManifestText(v[k]); ok {
				return s, true
			}
		}
	case []interface{}:
		for _, x := range v {
			if s, ok := vcfsFindManifestText(x); ok {
				return s, true
			}
		}
	}
	return "", false
}

// ---------------------------------------------------------------------------------------------
// concretiser / abstraction

func vcfsBytes(s string) []byte {
	b := []byte(s)
	for i, c := range b {
		if c == '.' {
			b[i] = 0
		}
	}
	return b
}

func vcfsAbs(b []byte) string {
	out := make([]byte, len(b))
	for i, c := range b {
		switch {
		case c == 0:
			out[i] = '.'
		case c >= 'a' && c <= 'z', c >= 'A' && c <= 'Z', c >= '0' && c <= '9':
			out[i] = c
		default:
			out[i] = '?'
		}
	}
	return string(out)
}

func vcfsFlags(op vcfsOp) int {
	fl := 0
	switch op.Acc {
	case "r":
		fl = os.O_RDONLY
	case "w":
		fl = os.O_WRONLY
	case "rw":
		fl = os.O_RDWR
	}
	if op.Cr {
		fl |= os.O_CREATE
	}
	if op.Ex {
		fl |= os.O_EXCL
	}
	if op.Tr {
		fl |= os.O_TRUNC
	}
	if op.Ap {
		fl |= os.O_APPEND
	}
	return fl
}

// ---------------------------------------------------------------------------------------------
// one run

type vcfsRun struct {
	scn     vcfsScenario
	rng     *rand.Rand
	keep    *vcfsKeep
	api     *vcfsAPI
	fs      CollectionFileSystem
	handles map[int]File
	events  []vcfsEvent
	names   map[string]string // abstract name -> concrete name (C09 "bytes" mode)
	dead    bool              // a panic or hang was recorded: stop
	hung    bool              // ... it was a hang
	origLoc map[string]bool   // hash+size of blocks of the original manifest
	marks   []int             // start / end offsets of recent writes and truncates (see posReads)
	plan    []vcfsOp          // calls queued by the random generator (multi-call patterns)
	hold    *vcfsHold         // hold mode (see vcfsHold)
	mu      sync.Mutex
}

func (r *vcfsRun) log(ev vcfsEvent) {
	r.mu.Lock()
	r.events = append(r.events, ev)
	r.mu.Unlock()
}

func (r *vcfsRun) cname(n string) string {
	if c, ok := r.names[n]; ok {
		return c
	}
	return n
}

// path renders an abstract path in its canonical relative form ("d/a"; "." for the root): the
// statement says nothing about "//", "/./" or a leading "/", so no judged call uses them.
func (r *vcfsRun) path(p []string) string {
	return r.plainPath(p)
}

// guard runs f with panic recovery and a watchdog.  A panic is recorded as an event the contract
// has no action for.  An operation of a sequential driver on an in-memory filesystem whose fake
// Keep answers at once that has not returned after vcfsHangDeadline, with its goroutine parked on a
// lock/channel for more than a minute according to the runtime, is recorded as "hang".
var vcfsHangDeadline = 150 * time.Second

func (r *vcfsRun) guard(what string, f func()) {
	if r.dead {
		return
	}
	done := make(chan interface{}, 1)
	var gid string
	gidc := make(chan string, 1)
	go func() {
		gidc <- vcfsGoID()
		defer func() {
			if p := recover(); p != nil {
				done <- vcfsAttribute(p, debug.Stack())
			} else {
				done <- nil
			}
		}()
		f()
	}()
	gid = <-gidc
	t := time.NewTimer(vcfsHangDeadline)
	defer t.Stop()
	for {
		select {
		case p := <-done:
			if p != nil {
				pa := p.(vcfsPanic)
				r.log(vcfsEvent{"ev": "panic", "op": what, "what": pa.what, "incode": pa.inCode, "at": pa.at})
				r.dead = true
			}
			return
		case <-t.C:
			if vcfsParkedForMinutes(gid) {
				r.log(vcfsEvent{"ev": "hang", "op": what, "state": vcfsGoHeader(gid)})
				r.dead = true
				r.hung = true
				return
			}
			t.Reset(30 * time.Second)
		}
	}
}

// vcfsAttribute decides from the stack of the panicking goroutine (taken in the deferred function,
// i.e. with the frames of the panic still on it) whose panic it is: the code under test's only if
// the first frame below the panic that is outside the Go runtime / standard library lies in a
// source file of this package that is not part of the injected harness (zz_verif_*).  Harness
// code runs under the same recover() (walker, accessors, generators): its panics are
// infrastructure errors (checks/C08.py: infra_events), never verdicts.
type vcfsPanic struct {
	what   string
	inCode bool
	at     string
}

func vcfsAttribute(p interface{}, stack []byte) vcfsPanic {
	lines := strings.Split(string(stack), "\n")
	start := -1
	for i, ln := range lines {
		if strings.HasPrefix(ln, "panic(") {
			start = i
		}
	}
	res := vcfsPanic{what: fmt.Sprint(p)}
	if start < 0 {
		return res
	}
	for _, ln := range lines[start+1:] {
		if !strings.HasPrefix(ln, "\t") {
			continue
		}
		file := strings.Fields(strings.TrimSpace(ln))[0]
		if strings.Contains(file, "/src/runtime/") || strings.Contains(file, "/src/internal/") ||
			strings.Contains(file, "/src/sync/") || strings.Contains(file, "/src/testing/") ||
			(strings.Contains(file, "/go") && strings.Contains(file, "/src/") && !strings.Contains(file, "/sdk/go/arvados/")) {
			continue
		}
		res.at = file
		res.inCode = strings.Contains(file, "/sdk/go/arvados/") && !strings.Contains(file, "zz_verif_")
		return res
	}
	return res
}

func vcfsGoID() string {
	buf := make([]byte, 64)
	buf = buf[:runtime.Stack(buf, false)]
	f := strings.Fields(string(buf))
	if len(f) >= 2 {
		return f[1]
	}
	return "?"
}

func vcfsGoHeader(gid string) string {
	buf := make([]byte, 1<<22)
	buf = buf[:runtime.Stack(buf, true)]
	for _, ln := range strings.Split(string(buf), "\n") {
		if strings.HasPrefix(ln, "goroutine "+gid+" [") {
			return ln
		}
	}
	return ""
}

// vcfsParkedForMinutes reports whether the runtime shows goroutine gid waiting (not running or
// runnable) with a wait duration of at least a minute ("goroutine 12 [semacquire, 2 minutes]:").
func vcfsParkedForMinutes(gid string) bool {
	buf := make([]byte, 1<<22)
	buf = buf[:runtime.Stack(buf, true)]
	for _, ln := range strings.Split(string(buf), "\n") {
		if strings.HasPrefix(ln, "goroutine "+gid+" [") {
			return strings.Contains(ln, "minutes")
		}
	}
	return false
}

func vcfsOK(err error) bool { return err == nil }

func (r *vcfsRun) do(op vcfsOp) {
	fs := r.fs
	switch op.Op {
	case "open":
		var f File
		var err error
		r.guard("open", func() { f, err = fs.OpenFile(r.path(op.P), vcfsFlags(op), 0644) })
		if r.dead {
			return
		}
		if err == nil {
			r.handles[op.H] = f
		}
		r.log(vcfsEvent{"ev": "open", "h": op.H, "p": op.P, "acc": op.Acc, "cr": op.Cr, "ex": op.Ex, "tr": op.Tr, "ap": op.Ap, "ok": err == nil})
	case "close":
		f := r.handles[op.H]
		if f == nil {
			return
		}
		r.guard("close", func() { f.Close() })
		delete(r.handles, op.H)
		r.log(vcfsEvent{"ev": "close", "h": op.H})
	case "write":
		f := r.handles[op.H]
		if f == nil {
			return
		}
		var n int
		var err error
		r.guard("write", func() { n, err = f.Write(vcfsBytes(op.D)) })
		if r.dead {
			return
		}
		r.log(vcfsEvent{"ev": "write", "h": op.H, "d": op.D, "n": n, "ok": err == nil})
		if err == nil {
			// where did it end?  (Seek(0, current) changes nothing; asked only to aim posReads)
			var pos int64
			r.guard("tell", func() { pos, _ = f.Seek(0, io.SeekCurrent) })
			r.mark(int(pos)-n, int(pos))
		}
	case "read":
		f := r.handles[op.H]
		if f == nil {
			return
		}
		buf := make([]byte, op.N)
		var n int
		var err error
		r.guard("read", func() { n, err = f.Read(buf) })
		if r.dead {
			return
		}
		res := "nil"
		if err == io.EOF {
			res = "eof"
		} else if err != nil {
			res = "err"
		}
		if n < 0 || n > len(buf) {
			r.log(vcfsEvent{"ev": "panic", "op": "read", "incode": true, "what": fmt.Sprintf("Read returned n=%d for a %d-byte buffer", n, len(buf))})
			r.dead = true
			return
		}
		r.log(vcfsEvent{"ev": "read", "h": op.H, "n": op.N, "d": vcfsAbs(buf[:n]), "res": res})
	case "seek":
		f := r.handles[op.H]
		if f == nil {
			return
		}
		var pos int64
		var err error
		r.guard("seek", func() { pos, err = f.Seek(int64(op.Off), op.Wh) })
		if r.dead {
			return
		}
		r.log(vcfsEvent{"ev": "seek", "h": op.H, "off": op.Off, "wh": op.Wh, "pos": int(pos), "ok": err == nil})
	case "trunc":
		f := r.handles[op.H]
		if f == nil {
			return
		}
		var err error
		r.guard("trunc", func() { err = f.Truncate(int64(op.N)) })
		if r.dead {
			return
		}
		r.log(vcfsEvent{"ev": "trunc", "h": op.H, "n": op.N, "ok": err == nil})
		r.mark(op.N)
	case "size":
		f := r.handles[op.H]
		if f == nil {
			return
		}
		var n int64
		r.guard("size", func() { n = f.Size() })
		if r.dead {
			return
		}
		r.log(vcfsEvent{"ev": "size", "h": op.H, "n": int(n)})
	case "mkdir":
		var err error
		r.guard("mkdir", func() { err = fs.Mkdir(r.path(op.P), 0755) })
		if r.dead {
			return
		}
		r.log(vcfsEvent{"ev": "mkdir", "p": op.P, "ok": err == nil})
	case "rename":
		var err error
		r.guard("rename", func() { err = fs.Rename(r.path(op.P), r.path(op.Q)) })
		if r.dead {
			return
		}
		r.log(vcfsEvent{"ev": "rename", "p": op.P, "q": op.Q, "ok": err == nil})
	case "remove":
		var err error
		r.guard("remove", func() { err = fs.Remove(r.path(op.P)) })
		if r.dead {
			return
		}
		r.log(vcfsEvent{"ev": "remove", "p": op.P, "ok": err == nil})
	case "removeall":
		var err error
		r.guard("removeall", func() { err = fs.RemoveAll(r.path(op.P)) })
		if r.dead {
			return
		}
		r.log(vcfsEvent{"ev": "removeall", "p": op.P, "ok": err == nil})
	case "stat":
		var fi os.FileInfo
		var err error
		r.guard("stat", func() { fi, err = fs.Stat(r.path(op.P)) })
		if r.dead {
			return
		}
		ev := vcfsEvent{"ev": "stat", "p": op.P, "ok": err == nil, "dir": false, "n": 0}
		if err == nil {
			ev["dir"] = fi.IsDir()
			if !fi.IsDir() {
				ev["n"] = int(fi.Size())
			}
		}
		r.log(ev)
	case "flushnow":
		// an explicit MarshalManifest / Flush as part of a generated pattern (a stuttering step)
		r.flushStep(op.D)
	case "readdir":
		var ents [][]interface{}
		var err error
		r.guard("readdir", func() { ents, err = r.readdir(r.path(op.P)) })
		if r.dead {
			return
		}
		if ents == nil {
			ents = [][]interface{}{}
		}
		r.log(vcfsEvent{"ev": "readdir", "p": op.P, "ok": err == nil, "ents": ents})
	}
}

// readdir lists a directory through a fresh handle, either at once or in pages of random size.
func (r *vcfsRun) readdir(path string) ([][]interface{}, error) {
	f, err := r.fs.OpenFile(path, os.O_RDONLY, 0)
	if err != nil {
		return nil, err
	}
	defer f.Close()
	var fis []os.FileInfo
	if r.rng.Intn(2) == 0 {
		fis, err = f.Readdir(-1)
		if err != nil {
			return nil, err
		}
	} else {
		for i := 0; i < 10000; i++ {
			page, err := f.Readdir(1 + r.rng.Intn(3))
			fis = append(fis, page...)
			if err == io.EOF {
				break
			}
			if err != nil {
				return nil, err
			}
		}
	}
	ents := [][]interface{}{}
	for _, fi := range fis {
		n := 0
		if !fi.IsDir() {
			n = int(fi.Size())
		}
		ents = append(ents, []interface{}{r.aname(fi.Name()), fi.IsDir(), n})
	}
	return ents, nil
}

// aname maps a concrete name back to its abstract symbol (identity unless C09 "bytes" mode).
func (r *vcfsRun) aname(c string) string {
	for a, cc := range r.names {
		if cc == c {
			return a
		}
	}
	if len(r.names) > 0 {
		return "?" + fmt.Sprintf("%x", c)
	}
	return c
}

// readAll reads a file to EOF through a fresh read-only handle with random buffer sizes.
func vcfsReadAll(fs FileSystem, rng *rand.Rand, path string, bs int) (string, bool) {
	f, err := fs.OpenFile(path, os.O_RDONLY, 0)
	if err != nil {
		return "", false
	}
	defer f.Close()
	var out []byte
	if bs <= 0 || bs > 64 {
		bs = 64
	}
	for i := 0; i < 100000; i++ {
		buf := make([]byte, 1+rng.Intn(3*bs))
		n, err := f.Read(buf)
		if n < 0 || n > len(buf) {
			return "", false
		}
		out = append(out, buf[:n]...)
		if err == io.EOF {
			return vcfsAbs(out), true
		}
		if err != nil {
			return "", false
		}
		if n == 0 {
			// (0, nil) forever would never end; one is tolerated, as io.Reader allows
			if i > 50000 {
				return "", false
			}
		}
		if len(out) > 1<<20 {
			return "", false
		}
	}
	return "", false
}

// vcfsWalk lists the whole tree below fs: [path, "f"|"d", content] sorted by path.
func vcfsWalk(fs FileSystem, rng *rand.Rand, bs int, aname func(string) string, cpath func([]string) string) ([][]interface{}, int) {
	ents := [][]interface{}{}
	total := 0
	var walk func(prefix []string)
	walk = func(prefix []string) {
		dir := cpath(prefix)
		f, err := fs.OpenFile(dir, os.O_RDONLY, 0)
		if err != nil {
			ents = append(ents, []interface{}{append(append([]string{}, prefix...), "!open"), "d", ""})
			return
		}
		fis, err := f.Readdir(-1)
		f.Close()
		if err != nil {
			ents = append(ents, []interface{}{append(append([]string{}, prefix...), "!readdir"), "d", ""})
			return
		}
		sort.Slice(fis, func(i, j int) bool { return fis[i].Name() < fis[j].Name() })
		for _, fi := range fis {
			p := append(append([]string{}, prefix...), aname(fi.Name()))
			if fi.IsDir() {
				ents = append(ents, []interface{}{p, "d", ""})
				if len(p) < 64 {
					walk(p)
				} else {
					// deeper than any tree the drivers build (renames nest directories slowly):
					// reported as an entry the model cannot have, so that the judge decides
					ents = append(ents, []interface{}{append(append([]string{}, p...), "!toodeep"), "d", ""})
				}
			} else {
				data, ok := vcfsReadAll(fs, rng, cpath(p), bs)
				if !ok {
					ents = append(ents, []interface{}{p, "f", "!unreadable"})
					continue
				}
				total += len(data)
				ents = append(ents, []interface{}{p, "f", data})
			}
		}
	}
	walk(nil)
	return ents, total
}

func (r *vcfsRun) plainPath(p []string) string {
	if len(p) == 0 {
		return "."
	}
	cp := make([]string, len(p))
	for i, n := range p {
		cp[i] = r.cname(n)
	}
	return strings.Join(cp, "/")
}

func (r *vcfsRun) snap() {
	if r.dead || r.scn.NoSnap {
		return
	}
	var ents [][]interface{}
	var total int
	var fssize int64
	r.guard("snap", func() {
		ents, total = vcfsWalk(r.fs, r.rng, r.scn.BS, r.aname, r.plainPath)
		fssize = r.fs.Size()
	})
	if r.dead {
		return
	}
	_ = total
	r.log(vcfsEvent{"ev": "snap", "ents": ents, "total": int(fssize)})
}

// posReads: positioned reads.  The sequential read of the snapshot walks a file from offset 0 with
// an always-valid pointer; a reader that STARTS somewhere (after Seek, or through a handle whose
// pointer is recomputed) takes another path through filenode.seek.  So every file is also read
// through a fresh read-only handle at chosen offsets - Seek(off) then Read(k) - logged as ordinary
// open / seek / read / close events which the contract judges like any other call.  Offsets: all
// of 0..size for small files, otherwise a seeded sample with the segment-boundary candidates
// (multiples of the block limit -1/0/+1, start and end offsets of recent writes, size-1, size).
const vcfsPosHandle = 900

func (r *vcfsRun) posReads() {
	if r.dead || r.scn.NoSnap {
		return
	}
	_, files := r.existing()
	bs := r.scn.BS
	if bs <= 0 || bs > 64 {
		bs = 64
	}
	for _, p := range files {
		var f File
		var err error
		r.guard("posopen", func() { f, err = r.fs.OpenFile(r.plainPath(p), os.O_RDONLY, 0) })
		if r.dead {
			return
		}
		r.log(vcfsEvent{"ev": "open", "h": vcfsPosHandle, "p": p, "acc": "r", "cr": false, "ex": false, "tr": false, "ap": false, "ok": err == nil})
		if err != nil {
			continue
		}
		size := int(f.Size())
		offs := map[int]bool{}
		if size <= 16 {
			for o := 0; o <= size; o++ {
				offs[o] = true
			}
		} else {
			for _, o := range []int{0, size - 1, size} {
				offs[o] = true
			}
			for _, o := range r.marks {
				offs[o] = true
			}
			for i := 0; i < 4; i++ {
				m := (1 + r.rng.Intn(size/bs+1)) * bs
				offs[m-1], offs[m], offs[m+1] = true, true, true
			}
			offs[r.rng.Intn(size)] = true
		}
		list := []int{}
		for o := range offs {
			if o >= 0 && o <= size {
				list = append(list, o)
			}
		}
		if len(list) > 24 {
			sort.Ints(list)
			r.rng.Shuffle(len(list), func(i, j int) { list[i], list[j] = list[j], list[i] })
			list = list[:24]
		}
		// DESCENDING: a Read leaves the handle beyond its start, so every Seek really moves the
		// offset and filehandle.Seek invalidates the pointer (a Seek to the current offset keeps
		// the old, still valid pointer and would take the sequential path again).
		sort.Sort(sort.Reverse(sort.IntSlice(list)))
		for _, o := range list {
			var pos int64
			r.guard("posseek", func() { pos, err = f.Seek(int64(o), io.SeekStart) })
			if r.dead {
				return
			}
			r.log(vcfsEvent{"ev": "seek", "h": vcfsPosHandle, "off": o, "wh": 0, "pos": int(pos), "ok": err == nil})
			k := 1 + r.rng.Intn(3)
			buf := make([]byte, k)
			var n int
			r.guard("posread", func() { n, err = f.Read(buf) })
			if r.dead {
				return
			}
			if n < 0 || n > k {
				r.log(vcfsEvent{"ev": "panic", "op": "read", "incode": true, "what": fmt.Sprintf("Read returned n=%d for a %d-byte buffer", n, k)})
				r.dead = true
				return
			}
			r.log(vcfsEvent{"ev": "read", "h": vcfsPosHandle, "n": k, "d": vcfsAbs(buf[:n]), "res": vcfsResOf2(err)})
		}
		r.guard("posclose", func() { f.Close() })
		r.log(vcfsEvent{"ev": "close", "h": vcfsPosHandle})
	}
}

func vcfsResOf2(err error) string {
	if err == io.EOF {
		return "eof"
	} else if err != nil {
		return "err"
	}
	return "nil"
}

// mark remembers start and end offsets of the last writes / truncates (boundary candidates).
func (r *vcfsRun) mark(offs ...int) {
	r.marks = append(r.marks, offs...)
	if len(r.marks) > 8 {
		r.marks = r.marks[len(r.marks)-8:]
	}
}

// dirs returns the abstract paths of all directories currently present (generator feedback).
func (r *vcfsRun) existing() (dirs [][]string, files [][]string) {
	dirs = append(dirs, []string{})
	var walk func(prefix []string)
	walk = func(prefix []string) {
		f, err := r.fs.OpenFile(r.plainPath(prefix), os.O_RDONLY, 0)
		if err != nil {
			return
		}
		fis, _ := f.Readdir(-1)
		f.Close()
		sort.Slice(fis, func(i, j int) bool { return fis[i].Name() < fis[j].Name() })
		for _, fi := range fis {
			p := append(append([]string{}, prefix...), r.aname(fi.Name()))
			if fi.IsDir() {
				dirs = append(dirs, p)
				if len(p) < 6 {
					// (generator feedback only: deeper directories are not offered as targets;
					// the snapshot walker has no such limit)
					walk(p)
				}
			} else {
				files = append(files, p)
			}
		}
	}
	walk(nil)
	return
}

func (r *vcfsRun) flushStep(kind string) {
	if r.dead {
		return
	}
	if kind == "mixed" {
		if r.rng.Intn(2) == 0 {
			return
		}
		kind = []string{"flushall", "flushlong", "flushdir", "marshal", "sync"}[r.rng.Intn(5)]
	}
	var err error
	if kind == "marshal" || kind == "sync" {
		r.settle() // a save waits for pending block writes: they must not be held by the driver
		r.keep.mu.Lock()
		r.keep.inSave = true // (its own block writes are not background writes: never held)
		r.keep.mu.Unlock()
		defer func() {
			r.keep.mu.Lock()
			r.keep.inSave = false
			r.keep.mu.Unlock()
		}()
	}
	switch kind {
	case "", "none":
		return
	case "flushall":
		r.guard("flush", func() { err = r.fs.Flush("", true) })
	case "flushlong":
		r.guard("flush", func() { err = r.fs.Flush("", false) })
	case "flushdir":
		var dirs [][]string
		r.guard("flush", func() {
			dirs, _ = r.existing()
			d := dirs[r.rng.Intn(len(dirs))]
			err = r.fs.Flush(r.plainPath(d), r.rng.Intn(2) == 0)
		})
	case "marshal":
		r.guard("flush", func() { _, err = r.fs.MarshalManifest(".") })
	case "sync":
		r.guard("flush", func() { err = r.fs.Sync() })
	}
	if r.dead {
		return
	}
	r.log(vcfsEvent{"ev": "flush", "kind": kind, "ok": err == nil})
}

// ---------------------------------------------------------------------------------------------
// initial state

type vcfsNode struct {
	dir  bool
	data string
	ents map[string]int
}

// vcfsInitTree draws a small tree and renders it as a manifest over blocks seeded into keep:
// one stream per directory, stream data cut into blocks of random sizes, files possibly split into
// several tokens, empty files, empty directories (marker token) - the concretiser of the "starting
// from any generated manifest" dimension.
func (r *vcfsRun) initTree() (nodes []interface{}, manifest string) {
	rng := r.rng
	tbl := []*vcfsNode{{dir: true, ents: map[string]int{}}}
	if r.scn.Init == "manifest_kf2" {
		// regression scenario for KF-C08-2 (fixed):
		// ". <6-byte block> 0:3:a 3:0:b 3:3:c": b is an empty file whose token points inside the block
		loc := r.keep.seed([]byte("ABCDEF"))
		r.origLoc[loc] = true
		return []interface{}{
			map[string]interface{}{"k": "d", "e": map[string]int{"a": 2, "b": 3, "c": 4}},
			map[string]interface{}{"k": "f", "d": "ABC"},
			map[string]interface{}{"k": "f", "d": ""},
			map[string]interface{}{"k": "f", "d": "DEF"},
		}, ". " + loc + " 0:3:a 3:0:b 3:3:c\n"
	}
	if r.scn.Init != "manifest" {
		return []interface{}{map[string]interface{}{"k": "d", "e": map[string]int{}}}, ""
	}
	bs := r.scn.BS
	if bs <= 0 || bs > 64 {
		bs = 8
	}
	var build func(dir int, depth int)
	build = func(dir int, depth int) {
		for _, n := range []string{"a", "b", "c"} {
			if rng.Intn(2) == 0 {
				sz := rng.Intn(3*bs + 1)
				if rng.Intn(5) == 0 {
					sz = 0
				}
				b := make([]byte, sz)
				for i := range b {
					b[i] = byte('A' + rng.Intn(26))
				}
				tbl = append(tbl, &vcfsNode{data: string(b)})
				tbl[dir].ents[n] = len(tbl)
			}
		}
		if depth < 2 {
			for _, n := range []string{"d", "e"} {
				if rng.Intn(3) == 0 {
					tbl = append(tbl, &vcfsNode{dir: true, ents: map[string]int{}})
					idx := len(tbl)
					tbl[dir].ents[n] = idx
					build(idx-1, depth+1)
				}
			}
		}
	}
	build(0, 0)
	var sb strings.Builder
	var render func(dir int, prefix string)
	render = func(dir int, prefix string) {
		names := []string{}
		for n := range tbl[dir].ents {
			names = append(names, n)
		}
		sort.Strings(names)
		var stream []byte
		type tok struct {
			pos, n int
			name   string
		}
		var toks []tok
		for _, n := range names {
			c := tbl[tbl[dir].ents[n]-1]
			if c.dir {
				continue
			}
			pos := len(stream)
			// (an empty file's token may point anywhere, also strictly inside a block: that used to
			// leave a zero-length segment behind - KF-C08-2, fixed)
			stream = append(stream, c.data...)
			if len(c.data) > 1 && rng.Intn(3) == 0 {
				cut := 1 + rng.Intn(len(c.data)-1)
				toks = append(toks, tok{pos, cut, n}, tok{pos + cut, len(c.data) - cut, n})
			} else {
				toks = append(toks, tok{pos, len(c.data), n})
			}
			if rng.Intn(4) == 0 {
				// unreferenced filler between files
				stream = append(stream, "zz"[:1+rng.Intn(2)]...)
			}
		}
		if len(toks) == 0 && len(names) == 0 && dir != 0 {
			sb.WriteString(manifestEscape(prefix) + " d41d8cd98f00b204e9800998ecf8427e+0 0:0:\\056\n")
		} else if len(toks) > 0 {
			sb.WriteString(manifestEscape(prefix))
			if len(stream) == 0 {
				sb.WriteString(" d41d8cd98f00b204e9800998ecf8427e+0")
				r.keep.seed(nil)
			}
			for off := 0; off < len(stream); {
				n := 1 + rng.Intn(bs)
				if off+n > len(stream) {
					n = len(stream) - off
				}
				loc := r.keep.seed(stream[off : off+n])
				r.origLoc[loc] = true
				sb.WriteString(" " + loc)
				off += n
			}
			for _, t := range toks {
				sb.WriteString(fmt.Sprintf(" %d:%d:%s", t.pos, t.n, manifestEscape(r.cname(t.name))))
			}
			sb.WriteString("\n")
		}
		for _, n := range names {
			ci := tbl[dir].ents[n]
			if tbl[ci-1].dir {
				render(ci-1, prefix+"/"+r.cname(n))
			}
		}
	}
	render(0, ".")
	for _, n := range tbl {
		if n.dir {
			nodes = append(nodes, map[string]interface{}{"k": "d", "e": n.ents})
		} else {
			nodes = append(nodes, map[string]interface{}{"k": "f", "d": n.data})
		}
	}
	return nodes, sb.String()
}

// ---------------------------------------------------------------------------------------------
// random call sequences

var vcfsFileNames = []string{"a", "b", "c"}
var vcfsDirNames = []string{"d", "e"}

func (r *vcfsRun) randPath() []string {
	rng := r.rng
	dirs, files := r.existing()
	switch x := rng.Intn(10); {
	case x < 4 && len(files) > 0:
		return files[rng.Intn(len(files))]
	case x < 6:
		return dirs[rng.Intn(len(dirs))]
	case x < 9:
		// a (possibly new) name in an existing directory
		d := dirs[rng.Intn(len(dirs))]
		all := append(append([]string{}, vcfsFileNames...), vcfsDirNames...)
		return append(append([]string{}, d...), all[rng.Intn(len(all))])
	default:
		n := 1 + rng.Intn(3)
		p := []string{}
		all := append(append([]string{}, vcfsFileNames...), vcfsDirNames...)
		for i := 0; i < n; i++ {
			p = append(p, all[rng.Intn(len(all))])
		}
		return p
	}
}

func (r *vcfsRun) randData(n int) string {
	b := make([]byte, n)
	for i := range b {
		b[i] = byte('a' + r.rng.Intn(26))
	}
	return string(b)
}

func (r *vcfsRun) randOp() vcfsOp {
	rng := r.rng
	bs := r.scn.BS
	if bs <= 0 || bs > 64 {
		bs = 16
	}
	maxpos := 4 * bs
	if maxpos > 120 {
		maxpos = 120
	}
	nh := 6
	slots := []int{}
	for h := range r.handles {
		slots = append(slots, h)
	}
	sort.Ints(slots)
	anyH := func() int {
		if len(slots) > 0 && rng.Intn(10) > 0 {
			return slots[rng.Intn(len(slots))]
		}
		return 1 + rng.Intn(nh)
	}
	if len(r.plan) > 0 {
		op := r.plan[0]
		r.plan = r.plan[1:]
		return op
	}
	if rng.Intn(14) == 0 {
		// Pattern "stale pointer of a long-lived handle": a reader handle seeks strictly beyond
		// EOF and reads there (EOF); another handle then appends exactly at EOF, enough to
		// carry the file past the reader's offset; the reader reads again WITHOUT seeking - it
		// must get the bytes at its offset.  Optionally everything is made stored first (then
		// the append cannot extend the last segment) and more appends / reads follow.
		if _, files := r.existing(); len(files) > 0 {
			p := files[rng.Intn(len(files))]
			hr, hw := 1+rng.Intn(nh), 1+rng.Intn(nh)
			for hw == hr {
				hw = 1 + rng.Intn(nh)
			}
			delta := 1 + rng.Intn(2*bs)
			if delta > 40 {
				delta = 1 + rng.Intn(40)
			}
			plan := []vcfsOp{}
			if rng.Intn(3) > 0 {
				plan = append(plan, vcfsOp{Op: "flushnow", D: []string{"marshal", "sync", "flushall"}[rng.Intn(3)]})
			}
			plan = append(plan,
				vcfsOp{Op: "open", H: hr, P: p, Acc: []string{"r", "rw"}[rng.Intn(2)]},
				vcfsOp{Op: "seek", H: hr, Off: delta, Wh: 2},
				vcfsOp{Op: "read", H: hr, N: 1 + rng.Intn(2*bs)},
				vcfsOp{Op: "open", H: hw, P: p, Acc: []string{"w", "rw"}[rng.Intn(2)], Ap: true},
				vcfsOp{Op: "write", H: hw, D: r.randData(delta + 1 + rng.Intn(2*bs+1))},
				vcfsOp{Op: "read", H: hr, N: 1 + rng.Intn(2*bs)})
			if rng.Intn(2) == 0 {
				plan = append(plan,
					vcfsOp{Op: "write", H: hw, D: r.randData(bs * (1 + rng.Intn(2)))},
					vcfsOp{Op: "read", H: hr, N: 1 + rng.Intn(3*bs)})
			}
			r.plan = plan[1:]
			return plan[0]
		}
	}
	x := rng.Intn(100)
	if len(slots) == 0 && x >= 15 && x < 75 {
		x = 0
	}
	switch {
	case x < 15:
		op := vcfsOp{Op: "open", H: 1 + rng.Intn(nh), P: r.randPath(), Acc: []string{"r", "w", "rw", "rw"}[rng.Intn(4)]}
		op.Cr = rng.Intn(2) == 0
		op.Ex = rng.Intn(6) == 0
		op.Tr = rng.Intn(6) == 0
		op.Ap = rng.Intn(4) == 0
		if len(op.P) > 0 {
			last := op.P[len(op.P)-1]
			if (last == "d" || last == "e") && rng.Intn(4) > 0 {
				op.P[len(op.P)-1] = vcfsFileNames[rng.Intn(3)]
			}
		}
		return op
	case x < 42:
		n := rng.Intn(3*bs + 2)
		if n > 100 {
			n = 100
		}
		switch rng.Intn(6) {
		case 0:
			n = rng.Intn(3)
		case 1:
			n = bs
		}
		return vcfsOp{Op: "write", H: anyH(), D: r.randData(n)}
	case x < 54:
		n := rng.Intn(3*bs + 2)
		return vcfsOp{Op: "read", H: anyH(), N: n}
	case x < 66:
		wh := rng.Intn(3)
		off := rng.Intn(maxpos + 1)
		switch wh {
		case 1:
			off = rng.Intn(2*bs+1) - bs
		case 2:
			off = rng.Intn(2*bs+1) - 2*bs + bs/2
		}
		h := anyH()
		// never seek to a negative offset (not among the statement's failure causes): ask the
		// handle where it is (Seek(0, current) changes nothing) and clamp
		if f := r.handles[h]; f != nil && wh != 0 {
			base := f.Size()
			if wh == 1 {
				base, _ = f.Seek(0, io.SeekCurrent)
			}
			if int(base)+off < 0 {
				off = -int(base)
			}
		}
		return vcfsOp{Op: "seek", H: h, Off: off, Wh: wh}
	case x < 72:
		n := rng.Intn(maxpos + 1)
		if rng.Intn(4) == 0 {
			n = rng.Intn(bs + 1)
		}
		return vcfsOp{Op: "trunc", H: anyH(), N: n}
	case x < 75:
		if rng.Intn(2) == 0 {
			return vcfsOp{Op: "size", H: anyH()}
		}
		return vcfsOp{Op: "close", H: anyH()}
	case x < 80:
		p := r.randPath()
		if rng.Intn(3) > 0 {
			dirs, _ := r.existing()
			p = append(append([]string{}, dirs[rng.Intn(len(dirs))]...), vcfsDirNames[rng.Intn(2)])
		}
		return vcfsOp{Op: "mkdir", P: p}
	case x < 88:
		op := vcfsOp{Op: "rename", P: r.randPath(), Q: r.randPath()}
		// Renaming from/onto the root is outside the statement.  (Renaming a path onto itself is
		// generated like any other pair; it used to delete the file: KF-C08-1, fixed.)
		for i := 0; i < 20 && (len(op.P) == 0 || len(op.Q) == 0); i++ {
			op.P, op.Q = r.randPath(), r.randPath()
		}
		if len(op.P) == 0 || len(op.Q) == 0 {
			return vcfsOp{Op: "stat", P: op.P}
		}
		return op
	case x < 91:
		return vcfsOp{Op: "remove", P: r.randPath()}
	case x < 93:
		p := r.randPath()
		if len(p) == 0 {
			p = []string{"d"}
		}
		return vcfsOp{Op: "removeall", P: p}
	case x < 97:
		return vcfsOp{Op: "stat", P: r.randPath()}
	default:
		return vcfsOp{Op: "readdir", P: r.randPath()}
	}
}

func vcfsSamePath(p, q []string) bool { return strings.Join(p, "/") == strings.Join(q, "/") }

// ---------------------------------------------------------------------------------------------

func vcfsNewRun(scn vcfsScenario) *vcfsRun {
	r := &vcfsRun{scn: scn, rng: rand.New(rand.NewSource(scn.RSeed*1000003 + int64(scn.ID))),
		keep: vcfsNewKeep(), api: &vcfsAPI{}, handles: map[int]File{}, names: map[string]string{},
		origLoc: map[string]bool{}}
	return r
}

// start creates the filesystem and logs the reset event.
func (r *vcfsRun) start(extra vcfsEvent) error {
	nodes, manifest := r.initTree()
	coll := &Collection{UUID: "zzzzz-4zz18-verifverifverif", ManifestText: manifest}
	fs, err := coll.FileSystem(r.api, r.keep)
	ev := vcfsEvent{"ev": "reset", "scn": r.scn.ID, "bs": r.scn.BS, "flush": r.scn.Flush, "mode": r.scn.Mode,
		"init": r.scn.Init, "nodes": nodes, "manifest": manifest}
	for k, v := range extra {
		ev[k] = v
	}
	r.log(ev)
	if err != nil {
		r.log(vcfsEvent{"ev": "panic", "op": "load", "incode": true, "what": err.Error()})
		r.dead = true
		return err
	}
	r.fs = fs
	return nil
}

func vcfsRunScenario(scn vcfsScenario) []vcfsEvent {
	r := vcfsNewRun(scn)
	if scn.BS > 0 {
		maxBlockSize = scn.BS
	} else {
		maxBlockSize = 1 << 26
	}
	if r.start(nil) != nil {
		return r.events
	}
	if scn.Hold {
		r.hold = &vcfsHold{}
		r.keep.gate = r.hold.gate
	}
	r.snap()
	step := func(op vcfsOp) {
		n := len(r.events)
		r.do(op)
		if op.Op != "flushnow" {
			r.settle() // (hold mode: what the previous flush / this call started completes now)
		}
		if len(r.events) == n {
			return // not applicable (no such handle)
		}
		r.flushStep(scn.Flush)
		r.snap()
		if op.Op == "write" || op.Op == "trunc" || (op.Op == "open" && op.Tr) {
			r.posReads()
		}
	}
	if scn.Mode == "random" {
		for i := 0; i < scn.NOps && !r.dead; i++ {
			var op vcfsOp
			r.guard("gen", func() { op = r.randOp() })
			step(op)
		}
	} else {
		for _, op := range scn.Ops {
			if r.dead {
				break
			}
			step(op)
		}
	}
	if r.hold != nil {
		r.settle()
		r.snap()
		r.posReads()
	}
	return r.events
}

func TestVerifC08(t *testing.T) {
	var scns []*vcfsScenario
	vReadNDJSON(os.Getenv("VERIF_SCENARIOS"), func() interface{} {
		s := &vcfsScenario{}
		scns = append(scns, s)
		return s
	})
	defer func(bs int) { maxBlockSize = bs }(maxBlockSize)
	tw := vNewTraceWriter(os.Getenv("VERIF_TRACES"))
	for _, s := range scns {
		// marker for attributing a crash of the process (or a race report) to a scenario
		fmt.Fprintf(os.Stderr, "VERIF-SCN %d\n", s.ID)
		for _, ev := range vcfsRunScenario(*s) {
			tw.Write(ev)
		}
	}
	tw.Close()
	fmt.Println("VERIF-DRIVER-DONE", len(scns))
	_ = bytes.MinRead
}
