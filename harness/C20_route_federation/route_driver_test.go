//go:build verif

// RUN stage of the routing part of C20 (specs/federation/FedRoute.tla): calls a method of the real
// federation.Conn by name (reflection over its method set, options struct filled in through its UUID /
// ClusterID field) and records which backend the requested method arrives at.
//   local backend     a recording arvadostest.APIStub
//   remotes R1, R2    real rpc.Conn (saltedTokenProvider) -> HTTP -> the real router -> a recording
//                     APIStub; the HTTP layer also captures what the remote cluster sees of the
//                     caller's token
// Judged by specs/federation/FedRouteTrace.tla.  The driver decides nothing.

package federation

import (
	"context"
	"crypto/hmac"
	"crypto/sha1"
	"fmt"
	"io"
	"math/rand"
	"net/http"
	"net/http/httptest"
	"net/url"
	"os"
	"reflect"
	"runtime"
	"sort"
	"strings"
	"sync"
	"testing"

	"git.arvados.org/arvados.git/lib/controller/router"
	"git.arvados.org/arvados.git/lib/controller/rpc"
	"git.arvados.org/arvados.git/sdk/go/arvados"
	"git.arvados.org/arvados.git/sdk/go/arvadostest"
	"git.arvados.org/arvados.git/sdk/go/auth"
	"git.arvados.org/arvados.git/sdk/go/ctxlog"
)

type vRouteScenario struct {
	ID     int      `json:"id"`
	Method string   `json:"method"`
	Mc     string   `json:"mc"`
	Pfx    string   `json:"pfx"`
	Known  []string `json:"known"`
	Login  string   `json:"login"`
	RSeed  int64    `json:"rseed"`
}

type vRouteRemote struct {
	id   string
	stub *arvadostest.APIStub
	url  *url.URL
	mu   sync.Mutex
	seen []string // what arrived over HTTP: request line, headers, body
	n    int      // stub calls already attributed
}

func (r *vRouteRemote) take() []string {
	r.mu.Lock()
	defer r.mu.Unlock()
	out := r.seen
	r.seen = nil
	return out
}

func vRouteMethodName(call arvadostest.APIStubCall) string {
	name := runtime.FuncForPC(reflect.ValueOf(call.Method).Pointer()).Name()
	name = strings.TrimSuffix(name, "-fm")
	return name[strings.LastIndex(name, ".")+1:]
}

func vRouteHMAC(secret, remote string) string {
	m := hmac.New(sha1.New, []byte(secret))
	io.WriteString(m, remote)
	return fmt.Sprintf("%x", m.Sum(nil))
}

var vRouteCluster = map[string]string{"local": "aaaaa", "R1": "bbbbb", "R2": "ccccc", "unknown": "zzzzz"}

func TestVerifC20Route(t *testing.T) {
	var scns []vRouteScenario
	vReadNDJSON(os.Getenv("VERIF_SCENARIOS"), func() interface{} { scns = append(scns, vRouteScenario{}); return &scns[len(scns)-1] })
	out := vNewTraceWriter(os.Getenv("VERIF_TRACES"))
	defer out.Close()

	// every method of arvados.API, for the check's "is every method classified" report
	apiT := reflect.TypeOf((*arvados.API)(nil)).Elem()
	var names []string
	for i := 0; i < apiT.NumMethod(); i++ {
		names = append(names, apiT.Method(i).Name)
	}
	sort.Strings(names)
	fmt.Println("VERIF-API-METHODS:", strings.Join(names, ","))

	remotes := map[string]*vRouteRemote{}
	for _, d := range []string{"R1", "R2"} {
		r := &vRouteRemote{id: vRouteCluster[d], stub: &arvadostest.APIStub{}}
		rtr := router.New(r.stub, nil)
		srv := httptest.NewServer(http.HandlerFunc(func(w http.ResponseWriter, req *http.Request) {
			body, _ := io.ReadAll(req.Body)
			req.Body = io.NopCloser(strings.NewReader(string(body)))
			var sb strings.Builder
			sb.WriteString(req.Method + " " + req.RequestURI + "\n")
			if u, err := url.QueryUnescape(req.RequestURI); err == nil {
				sb.WriteString(u + "\n")
			}
			for k, vs := range req.Header {
				sb.WriteString(k + ": " + strings.Join(vs, ",") + "\n")
			}
			sb.WriteString(string(body) + "\n")
			if u, err := url.QueryUnescape(string(body)); err == nil {
				sb.WriteString(u + "\n")
			}
			r.mu.Lock()
			r.seen = append(r.seen, sb.String())
			r.mu.Unlock()
			rtr.ServeHTTP(w, req)
		}))
		defer srv.Close()
		r.url, _ = url.Parse(srv.URL)
		remotes[d] = r
	}

	for _, scn := range scns {
		rng := rand.New(rand.NewSource(int64(scn.ID)*2654435761 + scn.RSeed))
		alnum := func(n int) string {
			b := make([]byte, n)
			for i := range b {
				b[i] = "0123456789abcdefghijklmnopqrstuvwxyz"[rng.Intn(36)]
			}
			return string(b)
		}
		local := &arvadostest.APIStub{}
		cluster := &arvados.Cluster{ClusterID: "aaaaa", RemoteClusters: map[string]arvados.RemoteCluster{}}
		if scn.Login != "none" {
			cluster.Login.LoginCluster = vRouteCluster[scn.Login]
		}
		conn := &Conn{cluster: cluster, local: local, remotes: map[string]backend{}}
		for _, d := range scn.Known {
			r := remotes[d]
			cluster.RemoteClusters[r.id] = arvados.RemoteCluster{Host: r.url.Host, Scheme: "http", Proxy: true}
			conn.remotes[r.id] = rpc.NewConn(r.id, r.url, true, saltedTokenProvider(local, r.id))
		}
		// the argument that names the object / cluster
		var id string
		switch scn.Pfx {
		case "empty":
			id = ""
		case "bogus":
			id = []string{"not-a-uuid", "bbbbb-4zz18", "bbbbbb", "bbbbb-4zz18-0000000000000000"}[rng.Intn(4)]
		default:
			id = vRouteCluster[scn.Pfx]
			if scn.Mc != "cluster" {
				id += "-" + []string{"4zz18", "dz642", "xvhdp", "j7d0g", "tpzed"}[rng.Intn(5)] + "-" + alnum(15)
			}
		}
		secret := alnum(50)
		tokUUID := "aaaaa-gj3su-" + alnum(15)
		token := "v2/" + tokUUID + "/" + secret
		ctx := auth.NewContext(ctxlog.Context(context.Background(), ctxlog.New(io.Discard, "text", "error")),
			&auth.Credentials{Tokens: []string{token}})

		out.Write(map[string]interface{}{"ev": "reset", "scn": scn.ID, "method": scn.Method, "mc": scn.Mc, "pfx": scn.Pfx,
			"known": scn.Known, "login": scn.Login, "arg": id})
		m := reflect.ValueOf(conn).MethodByName(scn.Method)
		if !m.IsValid() || m.Type().NumIn() != 2 {
			out.Write(map[string]interface{}{"ev": "nomethod"})
			continue
		}
		opts := reflect.New(m.Type().In(1)).Elem()
		field := "UUID"
		if scn.Mc == "cluster" {
			field = "ClusterID"
		}
		if f := opts.FieldByName(field); f.IsValid() && f.Kind() == reflect.String {
			f.SetString(id)
		}
		if f := opts.FieldByName("Attrs"); f.IsValid() && f.Kind() == reflect.Map {
			f.Set(reflect.ValueOf(map[string]interface{}{"runtime_token": "v2/aaaaa-gj3su-000000000000000/runtimetokenruntimetokenruntimetokenruntimetoken00"}))
		}
		for _, r := range remotes {
			r.take()
			r.n = len(r.stub.Calls(nil))
		}
		var callErr interface{}
		func() {
			defer func() {
				if rec := recover(); rec != nil {
					callErr = fmt.Sprint("panic: ", rec)
				}
			}()
			res := m.Call([]reflect.Value{reflect.ValueOf(ctx), opts})
			callErr = res[len(res)-1].Interface()
		}()
		// where did the requested method arrive?
		for _, c := range local.Calls(nil) {
			if name := vRouteMethodName(c); name == scn.Method {
				out.Write(map[string]interface{}{"ev": "call", "dest": "local", "tok": map[string]bool{"salted": false, "leak": false, "foreign": false, "uuid": false}})
			} else {
				out.Write(map[string]interface{}{"ev": "side", "dest": "local", "method": name})
			}
		}
		for _, d := range []string{"R1", "R2"} {
			r := remotes[d]
			seen := r.take()
			calls := r.stub.Calls(nil)[r.n:]
			other := "ccccc"
			if d == "R2" {
				other = "bbbbb"
			}
			for i, rq := range seen {
				tok := map[string]bool{
					"salted":  strings.Contains(rq, "v2/"+tokUUID+"/"+vRouteHMAC(secret, r.id)),
					"leak":    strings.Contains(rq, secret),
					"foreign": strings.Contains(rq, "v2/"+tokUUID+"/"+vRouteHMAC(secret, other)),
					"uuid":    strings.Contains(rq, tokUUID), // the token was forwarded in some form
				}
				name := "(no route)"
				if i < len(calls) {
					name = vRouteMethodName(calls[i])
				}
				// saltedTokenProvider makes no request of its own for a v2 token: whatever arrives
				// at a remote is the forwarded call (name = what the remote's router made of it)
				out.Write(map[string]interface{}{"ev": "call", "dest": d, "tok": tok, "as": name})
			}
		}
		out.Write(map[string]interface{}{"ev": "done", "ok": callErr == nil, "err": fmt.Sprint(callErr)})
	}
	fmt.Println("VERIF-DRIVER-DONE scenarios:", len(scns))
}
