//go:build verif

// Accessor added to lib/dispatchcloud/worker for the end-to-end binding of C15: the pool keeps
// "at quota" for a fixed minute (quotaErrorTTL, a constant) after a cloud.QuotaError.  The driver
// plays virtual time: VEndQuotaHoldOff makes that minute be over.  Nothing else is touched.

package worker

import "time"

// VEndQuotaHoldOff ends the hold-off that follows a quota error, as if quotaErrorTTL had passed.
func (wp *Pool) VEndQuotaHoldOff() {
	wp.mtx.Lock()
	if time.Now().Before(wp.atQuotaUntil) {
		wp.atQuotaUntil = time.Now().Add(-time.Second)
		go wp.notify()
	}
	wp.mtx.Unlock()
}
