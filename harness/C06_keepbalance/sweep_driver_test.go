//go:build verif

// RUN stage of C06 (c) (DESIGN.md section 6, C06): runs the real Balancer.Run against an in-process
// fake API server (keep_services, users/current, discovery document, collections list = vCollFake)
// and fake keepstore servers (mounts, per-mount index, PUT trash, PUT pull), with one request made
// to fail, and records the request log judged by specs/balance/SweepTrace.tla.
//
// Scenario fields (from Sweep.tla's Gen configuration, or made by checks/C06.py):
//   S, m2            keepstore servers 1..S with one mount each; m2: server 1 has a second mount
//   pages, lim       pages*lim collections with distinct timestamps, page size lim
//   ties             (random scenarios) all collections of a page share one timestamp
//   pulls, trash     RunOptions.CommitPulls / CommitTrash
//   clear            SafeRendezvousState differs, so ClearTrashLists runs
//   fk, ft           the request to fail: kind and target (server / mount / ordinal); "none"
//   fvar             how it fails: "s500" | "conn" | "trunc" (body cut: index without terminator,
//                    JSON cut in half) | "trunc2" (index cut mid-line)
//   bufs             BalanceCollectionBuffers
// Layout: every mount holds an old unreferenced block (-> trash list non-empty on every server);
// server 1 holds the only replica of the blocks every collection references with replication 2
// (-> pull lists non-empty when S >= 2).  The driver decides nothing.

package main

import (
	"encoding/json"
	"errors"
	"fmt"
	"io"
	"net/http"
	"os"
	"sort"
	"strconv"
	"strings"
	"sync"
	"testing"
	"time"

	"git.arvados.org/arvados.git/sdk/go/arvados"
	"github.com/prometheus/client_golang/prometheus"
	"github.com/sirupsen/logrus"
)

type vSweepScn struct {
	ID    int    `json:"id"`
	S     int    `json:"S"`
	M2    bool   `json:"m2"`
	Pages int    `json:"pages"`
	Lim   int    `json:"lim"`
	Ties  bool   `json:"ties"`
	Pulls bool   `json:"pulls"`
	Trash bool   `json:"trash"`
	Clear bool   `json:"clear"`
	FK    string `json:"fk"`
	FT    int    `json:"ft"`
	FVar  string `json:"fvar"`
	Bufs  int    `json:"bufs"`
}

type vSweepFake struct {
	mu      sync.Mutex
	scn     vSweepScn
	colls   *vCollFake
	events  []map[string]interface{}
	ncount  int
	npage   int
	mountOf map[int][]int // server -> mounts
	active  []int         // servers in the keep_services list (nil: 1..scn.S)
	run     int           // > 0: number of the run within a sequence (logged with every event)
}

func (f *vSweepFake) servers() []int {
	if f.active != nil {
		return f.active
	}
	var out []int
	for s := 1; s <= f.scn.S; s++ {
		out = append(out, s)
	}
	return out
}

func (f *vSweepFake) log(ev map[string]interface{}) {
	if f.run > 0 {
		ev["run"] = f.run
	}
	f.mu.Lock()
	f.events = append(f.events, ev)
	f.mu.Unlock()
}

func vSrvUUID(s int) string   { return fmt.Sprintf("zzzzz-bi6l4-%015d", s) }
func vMountUUID(m int) string { return fmt.Sprintf("zzzzz-ivpuk-%015d", m) }
func vSrvHost(s int) string   { return fmt.Sprintf("keep%d.verif", s) }

const vOldMtime = int64(1400000000) * 1e9

func vBlockA() string       { return fmt.Sprintf("%032x", 0xa) }
func vBlockB(u int) string  { return fmt.Sprintf("%016x%016x", 0xb, u) }
func vGarbage(m int) string { return fmt.Sprintf("%016x%016x", 0xc, m) }

type vErrBodyReader struct {
	data []byte
	err  error
}

func (b *vErrBodyReader) Read(p []byte) (int, error) {
	if len(b.data) == 0 {
		return 0, b.err
	}
	n := copy(p, b.data)
	b.data = b.data[n:]
	return n, nil
}
func (b *vErrBodyReader) Close() error { return nil }

// respond applies the failure variant (if this is the request to fail) to a normal 200 response.
func (f *vSweepFake) respond(req *http.Request, fail bool, isIndex bool, body []byte) (*http.Response, error) {
	if !fail {
		return vHTTPResp(req, 200, body), nil
	}
	switch f.scn.FVar {
	case "conn":
		return nil, errors.New("verif: connection reset by peer")
	case "trunc", "trunc2":
		cut := len(body) / 2
		if isIndex && f.scn.FVar == "trunc" {
			cut = len(body) - 1 // everything but the terminating empty line
		}
		if req.Method == "PUT" || len(body) == 0 {
			return vHTTPResp(req, 500, vErrBody("verif: injected failure")), nil
		}
		resp := vHTTPResp(req, 200, nil)
		resp.Body = &vErrBodyReader{data: append([]byte(nil), body[:cut]...), err: io.EOF}
		resp.ContentLength = -1
		return resp, nil
	default:
		return vHTTPResp(req, 500, vErrBody("verif: injected failure")), nil
	}
}

func (f *vSweepFake) RoundTrip(req *http.Request) (*http.Response, error) {
	if err := req.Context().Err(); err != nil {
		// the request was cancelled before it was sent: it never reaches a server
		if req.Body != nil {
			req.Body.Close()
		}
		return nil, err
	}
	host := req.URL.Host
	path := req.URL.Path
	fails := func(kind string, tgt int) bool { return f.scn.FK == kind && f.scn.FT == tgt }
	get := func(kind string, tgt int, isIndex bool, body []byte) (*http.Response, error) {
		fail := fails(kind, tgt)
		f.log(map[string]interface{}{"ev": "req", "kind": kind, "tgt": tgt, "failed": fail})
		return f.respond(req, fail, isIndex, body)
	}
	if host == "verif.invalid" {
		form := vParams(req)
		switch path {
		case "/arvados/v1/keep_services":
			var items []map[string]interface{}
			for _, s := range f.servers() {
				items = append(items, map[string]interface{}{"uuid": vSrvUUID(s), "service_host": vSrvHost(s),
					"service_port": 25107, "service_ssl_flag": false, "service_type": "disk", "read_only": false})
			}
			items = append(items, map[string]interface{}{"uuid": "zzzzz-bi6l4-h0a0xwut9qa6g3a", "service_host": "keepproxy.verif",
				"service_port": 25333, "service_ssl_flag": true, "service_type": "proxy", "read_only": false})
			b, _ := json.Marshal(map[string]interface{}{"items": items, "items_available": len(items)})
			return get("services", 0, false, b)
		case "/arvados/v1/users/current":
			return get("user", 0, false, []byte(`{"uuid":"zzzzz-tpzed-000000000000000","is_admin":true,"is_active":true}`))
		case "/discovery/v1/apis/arvados/v1/rest":
			return get("discovery", 0, false, []byte(`{"defaultCollectionReplication":2,"blobSignatureTtl":1209600}`))
		case "/arvados/v1/collections":
			kind, tgt := "collpage", 0
			f.mu.Lock()
			switch {
			case strings.Contains(form.Get("filters"), `"modified_at","=",null`):
				kind = "collnull"
			case form.Get("limit") == "0":
				kind = "collcount"
				f.ncount++
				tgt = f.ncount
			default:
				f.npage++
				tgt = f.npage
			}
			f.mu.Unlock()
			st, body := f.colls.serveList(form)
			if st != 200 {
				f.log(map[string]interface{}{"ev": "req", "kind": kind, "tgt": tgt, "failed": true, "status": st})
				return vHTTPResp(req, st, body), nil
			}
			return get(kind, tgt, false, body)
		}
		return vHTTPResp(req, 404, vErrBody("not found")), nil
	}
	srv := 0
	for _, s := range f.servers() {
		if host == fmt.Sprintf("%s:25107", vSrvHost(s)) {
			srv = s
		}
	}
	if srv == 0 {
		return nil, errors.New("verif: no such host " + host)
	}
	switch {
	case path == "/mounts" && req.Method == "GET":
		var ms []map[string]interface{}
		for _, m := range f.mountOf[srv] {
			ms = append(ms, map[string]interface{}{"uuid": vMountUUID(m), "device_id": fmt.Sprintf("dev-%d", m),
				"read_only": false, "replication": 1, "storage_classes": map[string]bool{"default": true}})
		}
		b, _ := json.Marshal(ms)
		return get("mounts", srv, false, b)
	case strings.HasPrefix(path, "/mounts/") && strings.HasSuffix(path, "/blocks") && req.Method == "GET":
		uuid := strings.TrimSuffix(strings.TrimPrefix(path, "/mounts/"), "/blocks")
		for _, m := range f.mountOf[srv] {
			if vMountUUID(m) == uuid {
				return get("index", m, true, f.indexOf(m))
			}
		}
		return vHTTPResp(req, 404, []byte("mount not found\n")), nil
	case strings.HasPrefix(path, "/index") && req.Method == "GET":
		var all []byte
		for _, m := range f.mountOf[srv] {
			b := f.indexOf(m)
			all = append(all, b[:len(b)-1]...)
		}
		return get("index", f.mountOf[srv][0], true, append(all, '\n'))
	case (path == "/trash" || path == "/pull") && req.Method == "PUT":
		what := strings.TrimPrefix(path, "/")
		n := -1
		if req.Body != nil {
			b, err := io.ReadAll(req.Body)
			req.Body.Close()
			var list []interface{}
			if err == nil && json.Unmarshal(b, &list) == nil {
				n = len(list)
			} else if err == nil && strings.TrimSpace(string(b)) == "null" {
				n = 0
			}
		}
		kind := what
		f.mu.Lock()
		clearing := what == "trash" && f.npage == 0 && f.ncount == 0
		f.mu.Unlock()
		if clearing {
			kind = "clear" // a trash list sent before the scan started
		}
		fail := fails(kind, srv)
		if n < 0 {
			n = 999999 // undecodable list: not known to be empty
		}
		f.log(map[string]interface{}{"ev": "put", "what": what, "tgt": srv, "n": n, "failed": fail, "phase": kind})
		return f.respond(req, fail, false, []byte("{}"))
	}
	return vHTTPResp(req, 400, []byte("bad request\n")), nil
}

func (f *vSweepFake) indexOf(m int) []byte {
	var sb strings.Builder
	fmt.Fprintf(&sb, "%s+3 %d\n", vGarbage(m), vOldMtime+int64(m))
	if m == 1 {
		fmt.Fprintf(&sb, "%s+3 %d\n", vBlockA(), vOldMtime)
		var us []int
		f.colls.mu.Lock()
		for u := range f.colls.tbl {
			us = append(us, u)
		}
		f.colls.mu.Unlock()
		sort.Ints(us)
		for _, u := range us {
			fmt.Fprintf(&sb, "%s+3 %d\n", vBlockB(u), vOldMtime+int64(u))
		}
	}
	sb.WriteString("\n")
	return []byte(sb.String())
}

func vRunSweepScenario(scn vSweepScn) []map[string]interface{} {
	if scn.Lim <= 0 {
		scn.Lim = 2
	}
	if scn.FVar == "" {
		scn.FVar = "s500"
	}
	colls := &vCollFake{tbl: map[int]*vColl{}, seen: map[int]bool{},
		base: time.Date(2021, 3, 4, 5, 6, 7, 0, time.UTC), unit: time.Second}
	for i := 1; i <= scn.Pages*scn.Lim; i++ {
		t := i
		if scn.Ties {
			t = 1 + (i-1)/scn.Lim
		}
		colls.tbl[i] = &vColl{u: i, t: t}
		colls.seen[i] = true
		colls.now = t
	}
	colls.budget = 60 + 6*len(colls.tbl)
	colls.manifest = func(u int) string { return fmt.Sprintf(". %s+3 %s+3 0:6:f\n", vBlockA(), vBlockB(u)) }
	colls.replDesired = func(u int) interface{} { return 2 }
	f := &vSweepFake{scn: scn, colls: colls, mountOf: map[int][]int{}}
	for s := 1; s <= scn.S; s++ {
		f.mountOf[s] = []int{s}
	}
	if scn.M2 {
		f.mountOf[1] = append(f.mountOf[1], scn.S+1)
	}
	f.log(map[string]interface{}{"ev": "reset", "scn": scn.ID, "part": "sweep", "S": scn.S, "m2": scn.M2, "pages": scn.Pages,
		"lim": scn.Lim, "pulls": scn.Pulls, "trash": scn.Trash, "clear": scn.Clear, "fk": scn.FK, "ft": scn.FT,
		"fvar": scn.FVar, "bufs": scn.Bufs, "ties": scn.Ties})

	logger := logrus.New()
	logger.Out = io.Discard
	client := &arvados.Client{Scheme: "http", APIHost: "verif.invalid", AuthToken: "xyzzy",
		Client: &http.Client{Transport: f}, Timeout: time.Minute}
	cluster := &arvados.Cluster{}
	cluster.Collections.BalanceTimeout = arvados.Duration(2 * time.Minute)
	cluster.Collections.BalanceCollectionBatch = scn.Lim
	cluster.Collections.BalanceCollectionBuffers = scn.Bufs
	opts := RunOptions{CommitPulls: scn.Pulls, CommitTrash: scn.Trash, Logger: logger}
	if !scn.Clear {
		var srvs []string
		for s := 1; s <= scn.S; s++ {
			srvs = append(srvs, fmt.Sprintf("%s (%s:%d, %s)", vSrvUUID(s), vSrvHost(s), 25107, "disk"))
		}
		sort.Strings(srvs)
		opts.SafeRendezvousState = strings.Join(srvs, "; ")
	}
	bal := &Balancer{Logger: logger, Metrics: newMetrics(prometheus.NewRegistry())}
	_, err := bal.Run(client, cluster, opts)
	ev := map[string]interface{}{"ev": "done", "ok": err == nil}
	if err != nil {
		ev["err"] = err.Error()
	}
	f.log(ev)
	f.mu.Lock()
	defer f.mu.Unlock()
	// events of the collections fake (page/count fidelity events) are not part of this trace
	return append([]map[string]interface{}(nil), f.events...)
}

func TestVerifC06Sweep(t *testing.T) {
	var scns []*vSweepScn
	vReadNDJSON(os.Getenv("VERIF_SCENARIOS"), func() interface{} {
		s := &vSweepScn{}
		scns = append(scns, s)
		return s
	})
	tw := vNewTraceWriter(os.Getenv("VERIF_TRACES"))
	for _, s := range scns {
		for _, ev := range vRunSweepScenario(*s) {
			tw.Write(ev)
		}
	}
	tw.Close()
	fmt.Println("VERIF-DRIVER-DONE sweep", len(scns), strconv.Itoa(0))
}
