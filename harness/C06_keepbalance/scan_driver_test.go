//go:build verif

// RUN stage of C06 (a) (DESIGN.md section 6, C06): drives the real EachCollection against an
// in-process fake of the collections list API whose table the scenario changes between list
// requests, and records the abstract trace judged by specs/balance/CollectionScanTrace.tla.
//
// The driver decides nothing.  Scenario fields (from CollectionScan.tla's Gen configuration, or
// "random" scenarios made by checks/C06.py):
//   tbl [[t,u]..], now0   initial table: modified_at rank t, uuid rank u; initial clock
//   lim                   page size passed to EachCollection (0 = server maximum)
//   env [{r,a,u,t}..]     change applied just before list request number r (0 = the first count):
//                         a = "mod" | "add" | "del"
//   mode "random"         instead: n collections with ranks 1..tmax, nenv changes drawn on line
//   cap                   the fake server's maximum page size (default: unlimited)
//   failreq, fvar         list request number failreq (initial count, a page or the final count) is
//                         answered with HTTP 500 / a transport error / a body cut short
//
// Concretisation (seeded): uuid rank u -> "zzzzz-4zz18-%015d"; time rank t -> base + t*unit with unit
// in {1ns, 1us, 1s, 1h}; each collection is ordinary, trashed or a past version (the latter two are
// listed only when the request says include_trash / include_old_versions).
// Abstraction: the inverse maps; requests outside the abstract vocabulary are served but not logged.

package main

import (
	"bytes"
	"context"
	"encoding/json"
	"errors"
	"fmt"
	"io"
	"math/rand"
	"net/http"
	"net/url"
	"os"
	"sort"
	"strconv"
	"strings"
	"sync"
	"testing"
	"time"

	"git.arvados.org/arvados.git/sdk/go/arvados"
)

type vScanEnv struct {
	R int    `json:"r"`
	A string `json:"a"`
	U int    `json:"u"`
	T int    `json:"t"`
}

type vScanScn struct {
	ID    int        `json:"id"`
	Tbl   [][]int    `json:"tbl"`
	Now0  int        `json:"now0"`
	Lim   int        `json:"lim"`
	Env   []vScanEnv `json:"env"`
	Mode  string     `json:"mode"`
	RSeed int64      `json:"rseed"`
	N     int        `json:"n"`
	TMax  int        `json:"tmax"`
	NEnv  int        `json:"nenv"`
	Cap   int        `json:"cap"`
	// FailReq: number of the list request (0 = the first count) that is made to fail; absent or < 0: none.
	FailReq *int   `json:"failreq"`
	FVar    string `json:"fvar"` // "s500" | "conn" | "trunc"
}

type vColl struct {
	u, t, kind int // kind 0 ordinary, 1 trashed, 2 past version
}

// vCollFake is a faithful in-memory implementation of GET arvados/v1/collections
// (filters, order, limit, count, select, include_trash, include_old_versions).
type vCollFake struct {
	mu     sync.Mutex
	tbl    map[int]*vColl
	seen   map[int]bool // uuid ranks that ever existed (a uuid is never reused)
	now    int
	base   time.Time
	unit   time.Duration
	cap    int
	budget int // > 0: list requests beyond this number are refused (a scan that never ends must not hang the driver)
	nreq   int
	events []map[string]interface{}
	// called with the lock held just before list request number nreq is answered
	before func(f *vCollFake, nreq int)
	// manifest of collection u
	manifest func(u int) string
	replDesired func(u int) interface{}
}

func (f *vCollFake) log(ev map[string]interface{}) { f.events = append(f.events, ev) }

func vUUID(u int) string { return fmt.Sprintf("zzzzz-4zz18-%015d", u) }

func vUUIDRank(s string) int {
	if len(s) != 27 || !strings.HasPrefix(s, "zzzzz-4zz18-") {
		return 0
	}
	n, err := strconv.Atoi(s[12:])
	if err != nil {
		return 0
	}
	return n
}

func (f *vCollFake) time(t int) time.Time { return f.base.Add(time.Duration(t) * f.unit) }

// rank of a time: exact inverse of time() where possible, otherwise the rank just below
func (f *vCollFake) rank(tm time.Time) int {
	if tm.IsZero() || tm.Before(f.base) {
		return 0
	}
	return int(tm.Sub(f.base) / f.unit)
}

type vFilter struct {
	attr, op string
	tm       time.Time
	s        string
	null     bool
}

func (f *vCollFake) apply(kind string, u, t, k int) {
	switch kind {
	case "mod":
		if c := f.tbl[u]; c != nil {
			c.t = t
			f.now = t
			f.log(map[string]interface{}{"ev": "mod", "u": u, "t": t})
		}
	case "add":
		if f.tbl[u] == nil && !f.seen[u] {
			f.seen[u] = true
			f.tbl[u] = &vColl{u: u, t: t, kind: k}
			f.now = t
			f.log(map[string]interface{}{"ev": "add", "u": u, "t": t, "k": k})
		}
	case "del":
		if f.tbl[u] != nil {
			delete(f.tbl, u)
			f.log(map[string]interface{}{"ev": "del", "u": u})
		}
	}
}

func vErrBody(msg string) []byte {
	b, _ := json.Marshal(map[string]interface{}{"errors": []string{msg}})
	return b
}

// serveList answers one list request.  form holds the request parameters.
func (f *vCollFake) serveList(form url.Values) (int, []byte) {
	f.mu.Lock()
	defer f.mu.Unlock()
	if f.before != nil {
		f.before(f, f.nreq)
	}
	f.nreq++
	if f.budget > 0 && f.nreq > f.budget {
		if f.nreq == f.budget+1 {
			f.log(map[string]interface{}{"ev": "overrun", "nreq": f.nreq})
		}
		return 503, vErrBody("verif: request budget exhausted")
	}

	var filters []vFilter
	abstract := true // request is within the abstract vocabulary
	var aflt [][]interface{}
	if s := form.Get("filters"); s != "" {
		var raw [][]interface{}
		if err := json.Unmarshal([]byte(s), &raw); err != nil {
			return 422, vErrBody("bad filters: " + err.Error())
		}
		for _, r := range raw {
			if len(r) != 3 {
				return 422, vErrBody("bad filter")
			}
			attr, _ := r[0].(string)
			op, _ := r[1].(string)
			switch op {
			case "=", "!=", "<", "<=", ">", ">=":
			default:
				return 422, vErrBody("unsupported operator " + op)
			}
			fl := vFilter{attr: attr, op: op}
			switch attr {
			case "modified_at":
				if r[2] == nil {
					fl.null = true
					abstract = false
				} else if s, ok := r[2].(string); !ok {
					return 422, vErrBody("bad operand")
				} else if tm, err := time.Parse(time.RFC3339Nano, s); err != nil {
					return 422, vErrBody("bad time operand")
				} else {
					fl.tm = tm
					if !tm.IsZero() && (tm.Before(f.base) || tm.Sub(f.base)%f.unit != 0) {
						abstract = false
					}
					aflt = append(aflt, []interface{}{attr, op, f.rank(tm)})
				}
			case "uuid":
				s, ok := r[2].(string)
				if !ok {
					return 422, vErrBody("bad operand")
				}
				fl.s = s
				if vUUID(vUUIDRank(s)) != s {
					abstract = false
				}
				aflt = append(aflt, []interface{}{attr, op, vUUIDRank(s)})
			default:
				return 422, vErrBody("unsupported filter attribute " + attr)
			}
			filters = append(filters, fl)
		}
	}
	it := form.Get("include_trash") == "true" || form.Get("include_trash") == "1"
	io_ := form.Get("include_old_versions") == "true" || form.Get("include_old_versions") == "1"

	type ordKey struct {
		field string
		desc  bool
	}
	var order []ordKey
	ordName := "other"
	if s := strings.TrimSpace(form.Get("order")); s == "" {
		order = []ordKey{{"modified_at", true}, {"uuid", true}}
		ordName = "desc"
	} else {
		if strings.HasPrefix(s, "[") {
			var parts []string
			if json.Unmarshal([]byte(s), &parts) == nil {
				s = strings.Join(parts, ",")
			}
		}
		for _, part := range strings.Split(s, ",") {
			w := strings.Fields(part)
			if len(w) == 0 || len(w) > 2 {
				return 422, vErrBody("bad order")
			}
			k := ordKey{field: strings.TrimPrefix(w[0], "collections.")}
			if k.field != "modified_at" && k.field != "uuid" {
				return 422, vErrBody("unsupported order column " + k.field)
			}
			if len(w) == 2 {
				switch strings.ToLower(w[1]) {
				case "asc":
				case "desc":
					k.desc = true
				default:
					return 422, vErrBody("bad order direction")
				}
			}
			order = append(order, k)
		}
		if len(order) == 2 && order[0].field == "modified_at" && order[1].field == "uuid" && order[0].desc == order[1].desc {
			ordName = map[bool]string{false: "asc", true: "desc"}[order[0].desc]
		}
	}
	// Rails appends the default order as tie breaker
	order = append(order, ordKey{"modified_at", true}, ordKey{"uuid", true})

	limit := 100
	if s := form.Get("limit"); s != "" {
		n, err := strconv.Atoi(s)
		if err != nil || n < 0 {
			return 422, vErrBody("bad limit")
		}
		limit = n
	}
	if f.cap > 0 && limit > f.cap {
		limit = f.cap
	}
	offset := 0
	if s := form.Get("offset"); s != "" {
		n, err := strconv.Atoi(s)
		if err != nil || n < 0 {
			return 422, vErrBody("bad offset")
		}
		offset = n
		if n != 0 {
			abstract = false
		}
	}
	count := form.Get("count")
	if count == "" {
		count = "exact"
	}
	if count != "exact" && count != "none" {
		return 422, vErrBody("bad count")
	}

	var match []*vColl
	for _, c := range f.tbl {
		if (c.kind == 1 && !it) || (c.kind == 2 && !io_) {
			continue
		}
		ok := true
		for _, fl := range filters {
			var cmp int
			switch fl.attr {
			case "modified_at":
				if fl.null {
					ok = false // no row has a null modified_at ("!=" null is not used)
					continue
				}
				tm := f.time(c.t)
				switch {
				case tm.Before(fl.tm):
					cmp = -1
				case tm.After(fl.tm):
					cmp = 1
				}
			case "uuid":
				cmp = strings.Compare(vUUID(c.u), fl.s)
			}
			switch fl.op {
			case "=":
				ok = ok && cmp == 0
			case "!=":
				ok = ok && cmp != 0
			case "<":
				ok = ok && cmp < 0
			case "<=":
				ok = ok && cmp <= 0
			case ">":
				ok = ok && cmp > 0
			case ">=":
				ok = ok && cmp >= 0
			}
		}
		if ok {
			match = append(match, c)
		}
	}
	sort.Slice(match, func(i, j int) bool {
		a, b := match[i], match[j]
		for _, k := range order {
			var x, y int
			if k.field == "modified_at" {
				x, y = a.t, b.t
			} else {
				x, y = a.u, b.u
			}
			if x != y {
				return (x < y) != k.desc
			}
		}
		return false
	})
	avail := len(match)
	if offset < len(match) {
		match = match[offset:]
	} else {
		match = nil
	}
	if len(match) > limit {
		match = match[:limit]
	}

	var sel map[string]bool
	if s := form.Get("select"); s != "" {
		var names []string
		if err := json.Unmarshal([]byte(s), &names); err != nil {
			return 422, vErrBody("bad select")
		}
		sel = map[string]bool{}
		for _, n := range names {
			sel[n] = true
		}
	}
	items := make([]map[string]interface{}, 0, len(match))
	aitems := make([][]int, 0, len(match))
	for _, c := range match {
		mt := ""
		if f.manifest != nil {
			mt = f.manifest(c.u)
		}
		all := map[string]interface{}{
			"uuid":                   vUUID(c.u),
			"modified_at":            f.time(c.t).UTC().Format("2006-01-02T15:04:05.000000000Z"),
			"created_at":             f.base.UTC().Format("2006-01-02T15:04:05.000000000Z"),
			"portable_data_hash":     arvados.PortableDataHash(mt),
			"manifest_text":          mt,
			"unsigned_manifest_text": mt,
			"replication_desired":    nil,
			"is_trashed":             c.kind == 1,
			"current_version_uuid":   vUUID(c.u),
			"kind":                   "arvados#collection",
		}
		if f.replDesired != nil {
			all["replication_desired"] = f.replDesired(c.u)
		}
		if c.kind == 2 {
			all["current_version_uuid"] = "zzzzz-4zz18-zzzzzzzzzzzzzzz"
		}
		item := map[string]interface{}{"kind": "arvados#collection"}
		for k, v := range all {
			if sel == nil || sel[k] {
				item[k] = v
			}
		}
		items = append(items, item)
		aitems = append(aitems, []int{c.t, c.u})
	}
	resp := map[string]interface{}{"kind": "arvados#collectionList", "items": items, "offset": offset, "limit": limit}
	if count == "exact" {
		resp["items_available"] = avail
	}
	if abstract {
		if aflt == nil {
			aflt = [][]interface{}{}
		}
		if limit == 0 {
			if count == "exact" {
				f.log(map[string]interface{}{"ev": "count", "flt": aflt, "it": it, "io": io_, "n": avail})
			}
		} else {
			f.log(map[string]interface{}{"ev": "page", "flt": aflt, "it": it, "io": io_, "ord": ordName,
				"limit": limit, "items": aitems})
		}
	}
	b, _ := json.Marshal(resp)
	return 200, b
}

// vParams collects query and form-body parameters the way Rails does.
func vParams(req *http.Request) url.Values {
	v := url.Values{}
	for k, vs := range req.URL.Query() {
		v[k] = vs
	}
	if req.Body != nil {
		b, _ := io.ReadAll(req.Body)
		req.Body.Close()
		if strings.HasPrefix(req.Header.Get("Content-Type"), "application/x-www-form-urlencoded") {
			if q, err := url.ParseQuery(string(b)); err == nil {
				for k, vs := range q {
					v[k] = vs
				}
			}
		}
	}
	return v
}

func vHTTPResp(req *http.Request, status int, body []byte) *http.Response {
	return &http.Response{
		StatusCode: status, Status: fmt.Sprintf("%d %s", status, http.StatusText(status)),
		Header: http.Header{"Content-Type": {"application/json"}},
		Body:   io.NopCloser(bytes.NewReader(body)), ContentLength: int64(len(body)), Request: req,
		Proto: "HTTP/1.1", ProtoMajor: 1, ProtoMinor: 1,
	}
}

type vScanTransport struct {
	f       *vCollFake
	failreq int // -1: none
	fvar    string
}

func (tr vScanTransport) RoundTrip(req *http.Request) (*http.Response, error) {
	form := vParams(req)
	if req.URL.Path != "/arvados/v1/collections" ||
		!(req.Method == "GET" || (req.Method == "POST" && req.Header.Get("X-Http-Method-Override") == "GET")) {
		return vHTTPResp(req, 404, vErrBody("not found")), nil
	}
	tr.f.mu.Lock()
	idx := tr.f.nreq
	tr.f.mu.Unlock()
	st, body := tr.f.serveList(form)
	if idx == tr.failreq && st == 200 {
		tr.f.mu.Lock()
		tr.f.log(map[string]interface{}{"ev": "reqfail", "nreq": idx, "fvar": tr.fvar})
		tr.f.mu.Unlock()
		switch tr.fvar {
		case "conn":
			return nil, errors.New("verif: connection reset by peer")
		case "trunc":
			return vHTTPResp(req, 200, body[:len(body)/2]), nil
		default:
			return vHTTPResp(req, 500, vErrBody("verif: injected failure")), nil
		}
	}
	return vHTTPResp(req, st, body), nil
}

var vUnits = []time.Duration{time.Nanosecond, time.Microsecond, time.Second, time.Hour}

func vRunScanScenario(scn vScanScn, seed int64) []map[string]interface{} {
	rng := rand.New(rand.NewSource(seed*1000003 + int64(scn.ID)*7919 + scn.RSeed))
	f := &vCollFake{
		tbl:  map[int]*vColl{},
		seen: map[int]bool{},
		base: time.Date(2021, 3, 4, 5, 6, 7, 0, time.UTC).Add(time.Duration(rng.Intn(1e9))),
		unit: vUnits[rng.Intn(len(vUnits))],
		cap:  scn.Cap,
	}
	if f.unit > time.Nanosecond {
		f.base = f.base.Truncate(time.Microsecond)
	}
	kindOf := func() int {
		switch x := rng.Intn(10); {
		case x < 2:
			return 1
		case x < 4:
			return 2
		}
		return 0
	}
	f.manifest = func(u int) string { return fmt.Sprintf(". %032x+3 0:3:f\n", u) }
	maxT := scn.Now0
	if scn.Mode == "random" {
		f.now = 1
		for u := 1; u <= scn.N; u++ {
			// leave gaps in the uuid ranks so that additions can land anywhere
			c := &vColl{u: 2 * u, t: 1 + rng.Intn(scn.TMax), kind: kindOf()}
			f.tbl[c.u] = c
			f.seen[c.u] = true
			if c.t > f.now {
				f.now = c.t
			}
		}
		envLeft := scn.NEnv
		f.before = func(f *vCollFake, nreq int) {
			for envLeft > 0 && rng.Intn(3) == 0 {
				envLeft--
				t := f.now + []int{0, 0, 1, 2}[rng.Intn(4)]
				var us []int
				for u := range f.tbl {
					us = append(us, u)
				}
				sort.Ints(us)
				switch x := rng.Intn(4); {
				case x <= 1 && len(us) > 0:
					f.apply("mod", us[rng.Intn(len(us))], t, 0)
				case x == 2 && len(us) > 0:
					f.apply("del", us[rng.Intn(len(us))], 0, 0)
				default:
					f.apply("add", 1+rng.Intn(2*scn.N+2), t, kindOf())
				}
			}
		}
	} else {
		f.now = scn.Now0
		for _, r := range scn.Tbl {
			f.tbl[r[1]] = &vColl{u: r[1], t: r[0], kind: kindOf()}
			f.seen[r[1]] = true
		}
		addKind := map[int]int{}
		for _, e := range scn.Env {
			if e.A == "add" {
				addKind[e.U] = kindOf()
			}
			if e.T > maxT {
				maxT = e.T
			}
		}
		f.before = func(f *vCollFake, nreq int) {
			for _, e := range scn.Env {
				if e.R == nreq {
					f.apply(e.A, e.U, e.T, addKind[e.U])
				}
			}
		}
	}
	// a complete scan needs at most ~3 requests per collection version (page size 1, mode changes)
	f.budget = 40 + 4*(len(f.tbl)+scn.NEnv+len(scn.Env))
	failreq := -1
	if scn.FailReq != nil {
		failreq = *scn.FailReq
	}
	reset := map[string]interface{}{"ev": "reset", "scn": scn.ID, "part": "scan", "failreq": failreq, "now": f.now, "lim": scn.Lim,
		"unit": f.unit.String()}
	tbl := [][]int{}
	trashed, oldver := []int{}, []int{}
	var us []int
	for u := range f.tbl {
		us = append(us, u)
	}
	sort.Ints(us)
	for _, u := range us {
		c := f.tbl[u]
		tbl = append(tbl, []int{c.t, c.u})
		if c.kind == 1 {
			trashed = append(trashed, u)
		} else if c.kind == 2 {
			oldver = append(oldver, u)
		}
	}
	reset["tbl"], reset["trashed"], reset["oldver"] = tbl, trashed, oldver
	f.log(reset)

	client := &arvados.Client{Scheme: "http", APIHost: "verif.invalid", AuthToken: "xyzzy",
		Client: &http.Client{Transport: vScanTransport{f: f, failreq: failreq, fvar: scn.FVar}}}
	err := EachCollection(context.Background(), client, scn.Lim, func(c arvados.Collection) error {
		f.mu.Lock()
		f.log(map[string]interface{}{"ev": "deliver", "u": vUUIDRank(c.UUID)})
		f.mu.Unlock()
		return nil
	}, nil)
	f.mu.Lock()
	defer f.mu.Unlock()
	ev := map[string]interface{}{"ev": "finish", "ok": err == nil}
	if err != nil {
		ev["err"] = err.Error()
	}
	f.log(ev)
	return f.events
}

func TestVerifC06Scan(t *testing.T) {
	seed, _ := strconv.ParseInt(os.Getenv("VERIF_SEED"), 10, 64)
	var scns []*vScanScn
	vReadNDJSON(os.Getenv("VERIF_SCENARIOS"), func() interface{} {
		s := &vScanScn{}
		scns = append(scns, s)
		return s
	})
	tw := vNewTraceWriter(os.Getenv("VERIF_TRACES"))
	for _, s := range scns {
		for _, ev := range vRunScanScenario(*s, seed) {
			tw.Write(ev)
		}
	}
	tw.Close()
	fmt.Println("VERIF-DRIVER-DONE scan", len(scns))
}
