//go:build verif

// RUN stage of the sweep-sequence part of C06: the real Balancer.Run is called several times in a row,
// each time with the RunOptions the previous call returned (as Server.runOnce does), while the set of
// keep services changes between the runs.  The fake keepstore servers of sweep_driver_test.go are reused;
// every PUT /trash they receive is logged with its length, so the judge
// (specs/balance/SweepSeqTrace.tla, SweepSeqContract) knows which list every server holds and for which
// service set it was computed.
//
// Scenario fields (from SweepSeq.tla's Gen configuration, or made by checks/C06.py):
//   stale [k..]       servers that hold a non-empty list of unknown origin before the first run
//   runs [{S:[k..], c:bool, fk, ft}..]   per run: service set, CommitTrash, the request to fail:
//                     "none" | "clear" (clearing PUT to server ft) | "scan" (index of server ft, or the
//                     first collection page if ft = 0) | "trash" (committing PUT to server ft)
//   pulls             CommitPulls in every run
// The driver decides nothing.

package main

import (
	"fmt"
	"io"
	"net/http"
	"os"
	"sort"
	"strings"
	"testing"
	"time"

	"git.arvados.org/arvados.git/sdk/go/arvados"
	"github.com/prometheus/client_golang/prometheus"
	"github.com/sirupsen/logrus"
)

type vSeqRun struct {
	S  []int  `json:"S"`
	C  bool   `json:"c"`
	FK string `json:"fk"`
	FT int    `json:"ft"`
}

type vSeqScn struct {
	ID    int       `json:"id"`
	Stale []int     `json:"stale"`
	Runs  []vSeqRun `json:"runs"`
	Pulls bool      `json:"pulls"`
	FVar  string    `json:"fvar"`
}

func vRunSweepSeqScenario(scn vSeqScn) []map[string]interface{} {
	stale := scn.Stale
	if stale == nil {
		stale = []int{}
	}
	events := []map[string]interface{}{{"ev": "reset", "scn": scn.ID, "part": "sweepseq", "stale": stale,
		"nruns": len(scn.Runs), "pulls": scn.Pulls}}
	logger := logrus.New()
	logger.Out = io.Discard
	opts := RunOptions{CommitPulls: scn.Pulls, Logger: logger} // SafeRendezvousState "" : a fresh process
	for i, r := range scn.Runs {
		servers := append([]int(nil), r.S...)
		sort.Ints(servers)
		maxS := 0
		for _, s := range servers {
			if s > maxS {
				maxS = s
			}
		}
		sub := vSweepScn{ID: scn.ID, S: maxS, Pages: 1, Lim: 2, Pulls: scn.Pulls, Trash: r.C, FVar: scn.FVar, Bufs: 1, FK: "none"}
		switch r.FK {
		case "clear", "trash":
			sub.FK, sub.FT = r.FK, r.FT
		case "scan":
			if r.FT > 0 {
				sub.FK, sub.FT = "index", r.FT
			} else {
				sub.FK, sub.FT = "collpage", 1
			}
		}
		if sub.FVar == "" {
			sub.FVar = "s500"
		}
		colls := &vCollFake{tbl: map[int]*vColl{}, seen: map[int]bool{},
			base: time.Date(2021, 3, 4, 5, 6, 7, 0, time.UTC), unit: time.Second}
		for u := 1; u <= 2; u++ {
			colls.tbl[u] = &vColl{u: u, t: u}
			colls.seen[u] = true
			colls.now = u
		}
		colls.budget = 60
		colls.manifest = func(u int) string { return fmt.Sprintf(". %s+3 %s+3 0:6:f\n", vBlockA(), vBlockB(u)) }
		colls.replDesired = func(u int) interface{} { return 2 }
		f := &vSweepFake{scn: sub, colls: colls, mountOf: map[int][]int{}, active: servers, run: i + 1}
		for _, s := range servers {
			f.mountOf[s] = []int{s}
		}
		f.log(map[string]interface{}{"ev": "runstart", "servers": servers, "commit": r.C, "fk": r.FK, "ft": r.FT,
			"safe": opts.SafeRendezvousState != ""})
		client := &arvados.Client{Scheme: "http", APIHost: "verif.invalid", AuthToken: "xyzzy",
			Client: &http.Client{Transport: f}, Timeout: time.Minute}
		cluster := &arvados.Cluster{}
		cluster.Collections.BalanceTimeout = arvados.Duration(2 * time.Minute)
		cluster.Collections.BalanceCollectionBatch = 2
		cluster.Collections.BalanceCollectionBuffers = 1
		opts.CommitTrash = r.C
		bal := &Balancer{Logger: logger, Metrics: newMetrics(prometheus.NewRegistry())}
		next, err := bal.Run(client, cluster, opts)
		ev := map[string]interface{}{"ev": "done", "ok": err == nil}
		if err != nil {
			ev["err"] = err.Error()
		}
		f.log(ev)
		f.mu.Lock()
		events = append(events, f.events...)
		f.mu.Unlock()
		// what Server.runOnce does: the returned options are used for the next run, error or not
		opts = next
	}
	return events
}

func TestVerifC06SweepSeq(t *testing.T) {
	var scns []*vSeqScn
	vReadNDJSON(os.Getenv("VERIF_SCENARIOS"), func() interface{} {
		s := &vSeqScn{}
		scns = append(scns, s)
		return s
	})
	tw := vNewTraceWriter(os.Getenv("VERIF_TRACES"))
	for _, s := range scns {
		for _, ev := range vRunSweepSeqScenario(*s) {
			tw.Write(ev)
		}
	}
	tw.Close()
	fmt.Println("VERIF-DRIVER-DONE sweepseq", len(scns), strings.Repeat("", 0))
}
