// instrument rewrites services/keepstore/unix_volume.go (DESIGN.md section 4.1): in every method of
// UnixVolume it inserts
//
//	verifPoint("<Method>.<callee>", v.Root)
//
// before each statement that contains a call which touches the filesystem or a lock, and wraps the
// destination of io.Copy in verifWriter("<Method>", v.Root, dst) so that every chunk written is a
// point too ("<Method>.Write#k").  The label set follows the source being instrumented:
//
//	primitive calls   v.os.X(..)  os.X(..)  ioutil.X(..)  syscall.X(..)  io.Copy  filepath.Walk
//	                  v.locker.X(..)
//	handle calls      h.X(..) where h was assigned from a primitive whose name says it returns a
//	                  file (Open*, Create*, TempFile)
//	method calls      v.M(..) where M is a UnixVolume method of this file that (transitively)
//	                  contains one of the above
//
// A statement gets ONE point, named after the first primitive call in it (else the first handle
// call, else the first method call).  defer and go statements are not instrumented themselves;
// function literals anywhere are instrumented like the method they appear in.  `else if` chains are
// rewritten to `else { if }` so that the inner header can get a point.
//
// Every instrumented method that (transitively) touches the filesystem also starts with
// verifEnter("<Method>", v.Root); defer verifExit("<Method>", v.Root).
//
// In a method that has a parameter named ctx the calls are verifPointCtx(ctx, ..) / verifWriterCtx(ctx, ..).
//
// verifPoint(Ctx) / verifWriter(Ctx) / verifEnter / verifExit are provided by the harness (//go:build verif).  Standard library only.
//
// usage: instrument -in unix_volume.go -out instrumented.go [-labels labels.json] [-type UnixVolume]
package main

import (
	"encoding/json"
	"flag"
	"fmt"
	"go/ast"
	"go/parser"
	"go/printer"
	"go/token"
	"os"
	"sort"
	"strconv"
	"strings"
)

var pureOS = map[string]bool{"IsNotExist": true, "IsExist": true, "IsPermission": true, "Getpid": true, "Getenv": true}

type instr struct {
	typeName string
	methods  map[string]*ast.FuncDecl // UnixVolume methods by name
	interest map[string]bool          // methods that transitively touch fs/locks
	labels   map[string][]string      // method -> labels inserted (in source order)
	nCopy    int
}

func recvOf(fd *ast.FuncDecl, typeName string) string {
	if fd.Recv == nil || len(fd.Recv.List) != 1 {
		return ""
	}
	t := fd.Recv.List[0].Type
	if st, ok := t.(*ast.StarExpr); ok {
		t = st.X
	}
	id, ok := t.(*ast.Ident)
	if !ok || id.Name != typeName {
		return ""
	}
	if len(fd.Recv.List[0].Names) != 1 || fd.Recv.List[0].Names[0].Name == "_" {
		return ""
	}
	return fd.Recv.List[0].Names[0].Name
}

// classify a call: kind 1 primitive, 2 handle, 3 method; name = callee label part.
func (in *instr) classify(call *ast.CallExpr, recv string, handles map[string]bool, useInterest bool) (int, string) {
	sel, ok := call.Fun.(*ast.SelectorExpr)
	if !ok {
		return 0, ""
	}
	switch x := sel.X.(type) {
	case *ast.Ident:
		switch {
		case x.Obj == nil && (x.Name == "os" || x.Name == "ioutil" || x.Name == "syscall"):
			if x.Name == "os" && pureOS[sel.Sel.Name] {
				return 0, ""
			}
			return 1, sel.Sel.Name
		case x.Obj == nil && x.Name == "io" && sel.Sel.Name == "Copy":
			return 1, "Copy"
		case x.Obj == nil && x.Name == "filepath" && sel.Sel.Name == "Walk":
			return 1, "Walk"
		case x.Name == recv:
			if _, ok := in.methods[sel.Sel.Name]; ok && (!useInterest || in.interest[sel.Sel.Name]) {
				return 3, sel.Sel.Name
			}
		case handles[x.Name]:
			return 2, x.Name + "." + sel.Sel.Name
		}
	case *ast.SelectorExpr:
		if id, ok := x.X.(*ast.Ident); ok && id.Name == recv {
			if x.Sel.Name == "os" {
				return 1, sel.Sel.Name
			}
			if x.Sel.Name == "locker" {
				return 1, sel.Sel.Name
			}
		}
	}
	return 0, ""
}

func returnsFile(name string) bool {
	return strings.HasPrefix(name, "Open") || strings.HasPrefix(name, "Create") || name == "TempFile"
}

// calls directly inside n, not descending into function literals.
func directCalls(n ast.Node, f func(*ast.CallExpr)) {
	if n == nil {
		return
	}
	ast.Inspect(n, func(m ast.Node) bool {
		switch c := m.(type) {
		case *ast.FuncLit:
			return false
		case *ast.CallExpr:
			f(c)
		}
		return true
	})
}

func funcLits(n ast.Node, f func(*ast.FuncLit)) {
	if n == nil {
		return
	}
	ast.Inspect(n, func(m ast.Node) bool {
		if fl, ok := m.(*ast.FuncLit); ok {
			f(fl)
			return false
		}
		return true
	})
}

func (in *instr) findHandles(fd *ast.FuncDecl, recv string) map[string]bool {
	h := map[string]bool{}
	ast.Inspect(fd.Body, func(n ast.Node) bool {
		as, ok := n.(*ast.AssignStmt)
		if !ok || len(as.Rhs) != 1 || len(as.Lhs) == 0 {
			return true
		}
		call, ok := as.Rhs[0].(*ast.CallExpr)
		if !ok {
			return true
		}
		if k, name := in.classify(call, recv, nil, false); k == 1 && returnsFile(name) {
			if id, ok := as.Lhs[0].(*ast.Ident); ok && id.Name != "_" {
				h[id.Name] = true
			}
		}
		return true
	})
	return h
}

func (in *instr) computeInterest() {
	in.interest = map[string]bool{}
	for changed := true; changed; {
		changed = false
		for name, fd := range in.methods {
			if in.interest[name] || fd.Body == nil {
				continue
			}
			recv := recvOf(fd, in.typeName)
			handles := in.findHandles(fd, recv)
			found := false
			ast.Inspect(fd.Body, func(n ast.Node) bool {
				if call, ok := n.(*ast.CallExpr); ok && !found {
					k, _ := in.classify(call, recv, handles, true)
					if k != 0 {
						found = true
					}
				}
				return !found
			})
			if found {
				in.interest[name] = true
				changed = true
			}
		}
	}
}

type ctx struct {
	method  string
	recv    string
	handles map[string]bool
	hasCtx  bool // the method has a parameter named ctx: points carry it (verifPointCtx), so that the
	// harness can tell two concurrent requests apart
}

func (in *instr) point(c *ctx, callee string) ast.Stmt {
	label := c.method + "." + callee
	in.labels[c.method] = append(in.labels[c.method], label)
	args := []ast.Expr{
		&ast.BasicLit{Kind: token.STRING, Value: strconv.Quote(label)},
		&ast.SelectorExpr{X: ast.NewIdent(c.recv), Sel: ast.NewIdent("Root")},
	}
	fn := "verifPoint"
	if c.hasCtx {
		fn = "verifPointCtx"
		args = append([]ast.Expr{ast.NewIdent("ctx")}, args...)
	}
	return &ast.ExprStmt{X: &ast.CallExpr{Fun: ast.NewIdent(fn), Args: args}}
}

// label for the header nodes of a statement ("" if none).
func (in *instr) headerLabel(c *ctx, hdr ...ast.Node) string {
	best, bestName := 0, ""
	for _, h := range hdr {
		if h == nil {
			continue
		}
		directCalls(h, func(call *ast.CallExpr) {
			k, name := in.classify(call, c.recv, c.handles, true)
			if k != 0 && (best == 0 || k < best) {
				best, bestName = k, name
			}
		})
	}
	return bestName
}

func (in *instr) wrapCopies(c *ctx, n ast.Node) {
	if n == nil {
		return
	}
	ast.Inspect(n, func(m ast.Node) bool {
		call, ok := m.(*ast.CallExpr)
		if !ok {
			return true
		}
		if k, name := in.classify(call, c.recv, c.handles, true); k == 1 && name == "Copy" && len(call.Args) == 2 {
			if inner, ok := call.Args[0].(*ast.CallExpr); ok {
				if id, ok := inner.Fun.(*ast.Ident); ok && (id.Name == "verifWriter" || id.Name == "verifWriterCtx") {
					return true
				}
			}
			wargs := []ast.Expr{
				&ast.BasicLit{Kind: token.STRING, Value: strconv.Quote(c.method)},
				&ast.SelectorExpr{X: ast.NewIdent(c.recv), Sel: ast.NewIdent("Root")},
				call.Args[0],
			}
			wfn := "verifWriter"
			if c.hasCtx {
				wfn = "verifWriterCtx"
				wargs = append([]ast.Expr{ast.NewIdent("ctx")}, wargs...)
			}
			call.Args[0] = &ast.CallExpr{Fun: ast.NewIdent(wfn), Args: wargs}
			in.nCopy++
		}
		return true
	})
}

func notNil(n ast.Node) bool {
	switch v := n.(type) {
	case nil:
		return false
	case ast.Stmt:
		return v != nil
	case ast.Expr:
		return v != nil
	}
	return true
}

func nodes(ns ...ast.Node) []ast.Node {
	var out []ast.Node
	for _, n := range ns {
		if n != nil && notNil(n) {
			out = append(out, n)
		}
	}
	return out
}

func stmtNode(s ast.Stmt) ast.Node {
	if s == nil {
		return nil
	}
	return s
}

func exprNode(e ast.Expr) ast.Node {
	if e == nil {
		return nil
	}
	return e
}

func (in *instr) block(c *ctx, b *ast.BlockStmt) {
	if b == nil {
		return
	}
	b.List = in.list(c, b.List)
}

func (in *instr) list(c *ctx, list []ast.Stmt) []ast.Stmt {
	var out []ast.Stmt
	for _, s := range list {
		if lbl := in.stmt(c, s); lbl != "" {
			out = append(out, in.point(c, lbl))
		}
		out = append(out, s)
	}
	return out
}

// stmt instruments inside s and returns the label of the point to put before s ("" if none).
func (in *instr) stmt(c *ctx, s ast.Stmt) string {
	var hdr []ast.Node
	switch st := s.(type) {
	case *ast.BlockStmt:
		in.block(c, st)
		return ""
	case *ast.LabeledStmt:
		return in.stmt(c, st.Stmt)
	case *ast.IfStmt:
		hdr = nodes(stmtNode(st.Init), exprNode(st.Cond))
		in.block(c, st.Body)
		switch e := st.Else.(type) {
		case *ast.IfStmt:
			blk := &ast.BlockStmt{List: []ast.Stmt{e}}
			st.Else = blk
			in.block(c, blk)
		case *ast.BlockStmt:
			in.block(c, e)
		}
	case *ast.ForStmt:
		hdr = nodes(stmtNode(st.Init), exprNode(st.Cond), stmtNode(st.Post))
		in.block(c, st.Body)
	case *ast.RangeStmt:
		hdr = nodes(exprNode(st.X))
		in.block(c, st.Body)
	case *ast.SwitchStmt:
		hdr = nodes(stmtNode(st.Init), exprNode(st.Tag))
		for _, cc := range st.Body.List {
			cl := cc.(*ast.CaseClause)
			cl.Body = in.list(c, cl.Body)
		}
	case *ast.TypeSwitchStmt:
		hdr = nodes(stmtNode(st.Init), stmtNode(st.Assign))
		for _, cc := range st.Body.List {
			cl := cc.(*ast.CaseClause)
			cl.Body = in.list(c, cl.Body)
		}
	case *ast.SelectStmt:
		for _, cc := range st.Body.List {
			cl := cc.(*ast.CommClause)
			cl.Body = in.list(c, cl.Body)
		}
	case *ast.DeferStmt, *ast.GoStmt:
		// not a point: the call happens later / elsewhere; literals inside are handled below
	default:
		hdr = nodes(s)
	}
	// function literals in the header (or in a defer/go call) are instrumented as part of the method
	lits := hdr
	switch st := s.(type) {
	case *ast.DeferStmt:
		lits = nodes(st.Call)
	case *ast.GoStmt:
		lits = nodes(st.Call)
	}
	for _, h := range lits {
		funcLits(h, func(fl *ast.FuncLit) { in.deepLit(c, fl) })
	}
	for _, h := range hdr {
		in.wrapCopies(c, h)
	}
	return in.headerLabel(c, hdr...)
}

func (in *instr) deepLit(c *ctx, fl *ast.FuncLit) {
	in.block(c, fl.Body)
}

func main() {
	inPath := flag.String("in", "", "source file")
	outPath := flag.String("out", "", "instrumented file")
	labelsPath := flag.String("labels", "", "write the label inventory (json) here")
	typeName := flag.String("type", "UnixVolume", "receiver type to instrument")
	flag.Parse()
	if *inPath == "" || *outPath == "" {
		flag.Usage()
		os.Exit(2)
	}
	fset := token.NewFileSet()
	f, err := parser.ParseFile(fset, *inPath, nil, parser.ParseComments)
	if err != nil {
		fmt.Fprintln(os.Stderr, "instrument:", err)
		os.Exit(1)
	}
	// keep only leading comments that are build constraints; positions of the others would be
	// scrambled by the inserted statements
	var keep []*ast.CommentGroup
	for _, cg := range f.Comments {
		if cg.End() < f.Package && strings.Contains(cg.Text(), "go:build") {
			keep = append(keep, cg)
		}
	}
	f.Comments = keep
	f.Doc = nil
	ast.Inspect(f, func(n ast.Node) bool {
		switch d := n.(type) {
		case *ast.FuncDecl:
			d.Doc = nil
		case *ast.GenDecl:
			d.Doc = nil
		case *ast.Field:
			d.Doc, d.Comment = nil, nil
		case *ast.ValueSpec:
			d.Doc, d.Comment = nil, nil
		case *ast.TypeSpec:
			d.Doc, d.Comment = nil, nil
		}
		return true
	})
	in := &instr{typeName: *typeName, methods: map[string]*ast.FuncDecl{}, labels: map[string][]string{}}
	for _, d := range f.Decls {
		if fd, ok := d.(*ast.FuncDecl); ok && fd.Body != nil && recvOf(fd, *typeName) != "" {
			in.methods[fd.Name.Name] = fd
		}
	}
	in.computeInterest()
	var names []string
	for n := range in.methods {
		names = append(names, n)
	}
	sort.Strings(names)
	for _, n := range names {
		fd := in.methods[n]
		recv := recvOf(fd, *typeName)
		c := &ctx{method: n, recv: recv, handles: in.findHandles(fd, recv)}
		for _, f := range fd.Type.Params.List {
			for _, nm := range f.Names {
				if nm.Name == "ctx" {
					c.hasCtx = true
				}
			}
		}
		in.block(c, fd.Body)
		if in.interest[n] {
			// verifEnter("M", v.Root); defer verifExit("M", v.Root): lets the harness wait until no
			// call of M is in progress (WriteBlock runs in a goroutine that outlives a cancelled request)
			call := func(fn string) *ast.CallExpr {
				return &ast.CallExpr{Fun: ast.NewIdent(fn), Args: []ast.Expr{
					&ast.BasicLit{Kind: token.STRING, Value: strconv.Quote(n)},
					&ast.SelectorExpr{X: ast.NewIdent(recv), Sel: ast.NewIdent("Root")},
				}}
			}
			fd.Body.List = append([]ast.Stmt{
				&ast.ExprStmt{X: call("verifEnter")},
				&ast.DeferStmt{Call: call("verifExit")},
			}, fd.Body.List...)
		}
	}
	out, err := os.Create(*outPath)
	if err != nil {
		fmt.Fprintln(os.Stderr, "instrument:", err)
		os.Exit(1)
	}
	fmt.Fprintf(out, "// Code generated by verif/tools/instrument from %s; DO NOT EDIT.\n\n", *inPath)
	cfg := printer.Config{Mode: printer.UseSpaces | printer.TabIndent, Tabwidth: 8}
	if err := cfg.Fprint(out, fset, f); err != nil {
		fmt.Fprintln(os.Stderr, "instrument:", err)
		os.Exit(1)
	}
	out.Close()
	if *labelsPath != "" {
		var interesting []string
		for n := range in.interest {
			interesting = append(interesting, n)
		}
		sort.Strings(interesting)
		b, _ := json.MarshalIndent(map[string]interface{}{
			"labels":      in.labels,
			"methods":     names,
			"interesting": interesting,
			"copies":      in.nCopy,
		}, "", " ")
		if err := os.WriteFile(*labelsPath, b, 0644); err != nil {
			fmt.Fprintln(os.Stderr, "instrument:", err)
			os.Exit(1)
		}
	}
}
