module verif/instrument

go 1.23
