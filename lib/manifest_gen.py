#!/usr/bin/env python3
"""Regenerates /verif/MANIFEST.json from the table below (python3 lib/manifest_gen.py)."""
import json
import os

VERIF = os.path.dirname(os.path.dirname(os.path.abspath(__file__)))

BASELINE_OFF = ("cd /repo && GOFLAGS=-mod=mod GOPROXY=off GOSUMDB=off GOTOOLCHAIN=local "
                "go test -json -vet=off -count=1 -timeout 25m ./...")

def load_checks():
    """checks/<ID>.manifest.json (written next to each check) for every check that exists."""
    out = {}
    cd = os.path.join(VERIF, "checks")
    with open(os.path.join(cd, "REGISTERED")) as fh:
        registered = set(fh.read().split())
    for f in sorted(os.listdir(cd)):
        if f.split(".")[0] in registered and f.endswith(".manifest.json") and os.path.exists(os.path.join(cd, f.split(".")[0] + ".py")):
            with open(os.path.join(cd, f)) as fh:
                m = json.load(fh)
            out[f.split(".")[0]] = (m["category"], m["technique"], m["text"], m["note"], m.get("design_ref", ""))
    return out


CHECKS = load_checks()

NOT_YET = {}

ALL = ["C%02d" % i for i in range(1, 21)]


def main():
    checks = []
    for pid in ALL:
        if pid not in CHECKS:
            continue
        cat, tech, text, note, ref = CHECKS[pid]
        checks.append({
            "property_id": pid,
            "quick_cmd": "bin/vcheck %s --tier quick" % pid,
            "thorough_cmd": "bin/vcheck %s --tier thorough" % pid,
            "evidence_file": "evidence/%s.json" % pid,
            "replay_cmd_template": "bin/vcheck replay %s {path}" % pid,
            "engine": "tlc+go",
            "level_claimed": {"category": cat, "text": text, "design_ref": ref},
            "level_note": note,
            "technique": tech,
        })
    na = []
    for pid in ALL:
        if pid not in CHECKS:
            na.append({"property_id": pid,
                       "reason": NOT_YET.get(pid, "check not built yet in this round (planned, see DESIGN.md section 6); "
                                                  "no claim is made")})
    man = {
        "version": 1,
        "setup_cmd": "bin/setup",
        "hooks": {
            "guard": "verif",
            "enable": "go test -tags verif -overlay <generated per run by lib/vlib.py> (drivers are injected from "
                      "/verif/harness; no hook is committed to /repo)",
            "baseline_off_cmd": BASELINE_OFF,
            "source_commits": [],
            "add_only": True,
        },
        "engines": [
            {"name": "tlc+go", "path": "lib/vlib.py",
             "serves_properties": sorted(CHECKS),
             "kind_free_text": "GEN: TLC on implementation-shaped TLA+ specs (exhaustive + scenario emission); RUN: Go "
                               "drivers injected into the real packages by go test -overlay; JUDGE: TLC trace "
                               "validation against contract specs"},
        ],
        "checks": checks,
        "not_applicable": na,
        "notes": "All verdicts come from TLC rejecting a trace recorded from the real code (DESIGN.md section 3). "
                 "Exit 2 = infrastructure trouble, never a violation. All 20 properties are claimed; the following CLAUSES "
                 "lie below the abstraction boundary of the technique and are covered only through the trusted "
                 "concretisers named in each level_note: C07 byte-equality with the Rails implementation (reference "
                 "HMAC written from blob.rb; Ruby cannot run here); C10 'no parser panics or hangs on ANY input string' "
                 "(only single-token and numeric-extreme mutations of generated manifests); C12 the MD5 weight formula "
                 "itself (reference computation in the driver) and uuids of other lengths than 27; C01/C03 'all block "
                 "contents' (content classes under seeded concretisation); C15 liveness on real code only within a "
                 "wall-clock bound (TLC liveness on the model); C17 large files / special files. Clauses of the specs that go "
                 "beyond a property statement are reported as DRIFT only (DESIGN.md section 10.7). Known findings: "
                 "KNOWN_FINDINGS.md; seeded breakages and who catches them: DESIGN.md section 10.5.",
    }
    with open(os.path.join(VERIF, "MANIFEST.json"), "w") as f:
        json.dump(man, f, indent=1)
        f.write("\n")


if __name__ == "__main__":
    main()
