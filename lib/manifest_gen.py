#!/usr/bin/env python3
"""Regenerates /verif/MANIFEST.json from the table below (python3 lib/manifest_gen.py)."""
import json
import os

VERIF = os.path.dirname(os.path.dirname(os.path.abspath(__file__)))

BASELINE_OFF = ("cd /repo && GOFLAGS=-mod=mod GOPROXY=off GOSUMDB=off GOTOOLCHAIN=local "
                "go test -json -vet=off -count=1 -timeout 25m ./...")

# id -> (category, technique, text, note, design_ref)
CHECKS = {
    "C11": ("model_checking",
            "TLA+ impl-shaped model of putReplicas checked by TLC (refinement of contract, liveness); every model path "
            "replayed into the real keepclient through a gated fake HTTPClient; recorded traces judged by TLC against "
            "the contract spec",
            "TLC exhaustively checks KeepPut.tla (putReplicas step by step) refines KeepPutContract for all outcome "
            "assignments and completion orders within small bounds, then every one of those paths plus seeded random "
            "ones beyond the bounds is executed against the real PutB/PutHR and the recorded request/response/return "
            "trace is validated by TLC against the contract. Exhaustive fault-sequence coverage at the abstract level is "
            "the right level: the property is about counting and retry rules under all response orders.",
            "Trusted: fake HTTPClient, trace recorder, numbering of servers by the client's own rendezvous order. "
            "'Slow response' = completion order only. A 200 reply with unreadable body is outside the generated outcomes.",
            "DESIGN.md section 6 C11"),
}

NOT_YET = {}

ALL = ["C%02d" % i for i in range(1, 21)]


def main():
    checks = []
    for pid in ALL:
        if pid not in CHECKS:
            continue
        cat, tech, text, note, ref = CHECKS[pid]
        checks.append({
            "property_id": pid,
            "quick_cmd": "bin/vcheck %s --tier quick" % pid,
            "thorough_cmd": "bin/vcheck %s --tier thorough" % pid,
            "evidence_file": "evidence/%s.json" % pid,
            "replay_cmd_template": "bin/vcheck replay %s {path}" % pid,
            "engine": "tlc+go",
            "level_claimed": {"category": cat, "text": text, "design_ref": ref},
            "level_note": note,
            "technique": tech,
        })
    na = []
    for pid in ALL:
        if pid not in CHECKS:
            na.append({"property_id": pid,
                       "reason": NOT_YET.get(pid, "check not built yet in this round (planned, see DESIGN.md section 6); "
                                                  "no claim is made")})
    man = {
        "version": 1,
        "setup_cmd": "bin/setup",
        "hooks": {
            "guard": "verif",
            "enable": "go test -tags verif -overlay <generated per run by lib/vlib.py> (drivers are injected from "
                      "/verif/harness; no hook is committed to /repo)",
            "baseline_off_cmd": BASELINE_OFF,
            "source_commits": [],
            "add_only": True,
        },
        "engines": [
            {"name": "tlc+go", "path": "lib/vlib.py",
             "serves_properties": sorted(CHECKS),
             "kind_free_text": "GEN: TLC on implementation-shaped TLA+ specs (exhaustive + scenario emission); RUN: Go "
                               "drivers injected into the real packages by go test -overlay; JUDGE: TLC trace "
                               "validation against contract specs"},
        ],
        "checks": checks,
        "not_applicable": na,
        "notes": "All verdicts come from TLC rejecting a trace recorded from the real code (DESIGN.md section 3). "
                 "Exit 2 = infrastructure trouble, never a violation.",
    }
    with open(os.path.join(VERIF, "MANIFEST.json"), "w") as f:
        json.dump(man, f, indent=1)
        f.write("\n")


if __name__ == "__main__":
    main()
