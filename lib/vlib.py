#!/usr/bin/env python3
"""Common machinery of the GEN -> RUN -> JUDGE pipeline (see DESIGN.md section 2).

  GEN    Ctx.tlc()/Ctx.gen()  : TLC on an implementation-shaped spec (exhaustive MC config and a
                                scenario-emitting Gen config)
  RUN    Ctx.go_test()        : a Go driver injected into the real package with `go test -overlay`
                                (tag `verif`), driven by scenarios, recording abstract traces
  JUDGE  Ctx.judge()          : TLC validates every recorded trace against the contract spec

Verdict policy (DESIGN.md section 3): exit 1 + VIOLATION only when the contract rejects a trace
recorded from the real code and no known finding matches; infrastructure trouble is exit 2.
"""
import atexit
import json
import os
import re
import shutil
import subprocess
import sys
import tempfile
import time

VERIF = os.path.dirname(os.path.dirname(os.path.abspath(__file__)))
REPO = os.environ.get("VERIF_REPO", "/repo")
MODULE = "git.arvados.org/arvados.git"
TLA_CP = "/opt/veriftools/tla/tla2tools.jar:/opt/veriftools/tla/CommunityModules-deps.jar"
NCPU = os.cpu_count() or 4

GOENV = {
    "GOFLAGS": "-mod=mod",
    "GOPROXY": "off",
    "GOSUMDB": "off",
    "GOTOOLCHAIN": "local",
    "ARVADOS_API_HOST": "localhost:9",
}


class InfraError(Exception):
    """Anything that is not a verdict about the property: exit 2."""


class TlcResult:
    def __init__(self, rc, out, wall):
        self.rc = rc
        self.out = out
        self.wall = wall
        m = re.findall(r"(\d+) states generated, (\d+) distinct states found", out)
        self.generated = int(m[-1][0]) if m else 0
        self.distinct = int(m[-1][1]) if m else 0
        m = re.search(r"Invariant (\S+) is violated", out)
        self.violated = m.group(1) if m else None
        if self.violated is None:
            m = re.search(r"Action property (\S+) is violated", out)
            if m:
                self.violated = m.group(1)
            elif "Temporal properties were violated" in out:
                self.violated = "<temporal>"
        self.deadlock = "Deadlock reached" in out
        self.ok = rc == 0 and "Model checking completed. No error has been found" in out
        self.sim_ok = rc == 0 or "Simulation" in out

    def tail(self, n=40):
        return "\n".join(self.out.splitlines()[-n:])


class Ctx:
    def __init__(self, pid, argv=None):
        argv = sys.argv[1:] if argv is None else argv
        self.pid = pid
        self.tier = os.environ.get("VERIF_TIER", "quick")
        self.replay = None
        i = 0
        while i < len(argv):
            if argv[i] == "--tier":
                self.tier = argv[i + 1]
                i += 1
            elif argv[i] == "--replay":
                self.replay = argv[i + 1]
                i += 1
            i += 1
        if self.tier not in ("quick", "thorough"):
            self.tier = "quick"
        # --replay <file written by add_violation>: re-run RUN + JUDGE on that one scenario
        self.replay_scn = None
        if self.replay:
            with open(self.replay) as f:
                rp = json.load(f)
            self.replay_scn = (rp.get("subject") or {}).get("scenario")
            self.tier = rp.get("tier", self.tier)
        try:
            self.seed = int(os.environ.get("VERIF_SEED", "1"))
        except ValueError:
            self.seed = 1
        self.t0 = time.time()
        self.scratch = tempfile.mkdtemp(prefix="verif-%s-" % pid)
        atexit.register(lambda: shutil.rmtree(self.scratch, ignore_errors=True))
        self.nrun = 0
        self.states = 0
        self.transitions = 0
        self.traces_validated = 0
        self.evaluations = 0
        self.samples = []
        self.extra = {}
        self.assumptions = []
        self.trusted_base = []
        self.violations = []       # list of dict(replay=path, what=str)
        self.known_seen = []       # list of (kfid, what)
        self.drift = []
        self.mc_runs = []
        self.rule = ""
        self.exhaustive = False
        self.kf = [k for k in load_known_findings() if k.get("property") == pid]
        os.makedirs(os.path.join(VERIF, "evidence"), exist_ok=True)
        os.makedirs(os.path.join(VERIF, "replays"), exist_ok=True)

    thorough = property(lambda self: self.tier == "thorough")

    def log(self, *a):
        print("[%s %6.1fs]" % (self.pid, time.time() - self.t0), *a, flush=True)

    # ------------------------------------------------------------------ TLC
    def _stage(self, specdirs):
        self.nrun += 1
        d = os.path.join(self.scratch, "tlc%d" % self.nrun)
        os.makedirs(d)
        for sd in ["specs/common"] + list(specdirs):
            sd = os.path.join(VERIF, sd)
            for f in os.listdir(sd):
                if f.endswith(".tla") or f.endswith(".cfg"):
                    shutil.copy(os.path.join(sd, f), d)
        return d

    def tlc(self, specdirs, module, cfg, env=None, workers=None, timeout=900, simulate=None,
            depth=None, extra=(), heap="8g", count=True, dfs=False, must_pass=True, label=None):
        """Run TLC. specdirs: directories under /verif whose .tla/.cfg files are staged."""
        if isinstance(specdirs, str):
            specdirs = [specdirs]
        d = self._stage(specdirs)
        workers = workers or int(os.environ.get("VERIF_TLC_WORKERS", min(NCPU, 8)))
        jopts = ["-XX:+UseParallelGC", "-Xmx" + heap, "-Xss64m"]
        if dfs:
            jopts.append("-Dtlc2.tool.queue.IStateQueue=StateDeque")
        cmd = ["java"] + jopts + ["-cp", TLA_CP, "tlc2.TLC", "-workers", str(workers),
                                  "-metadir", os.path.join(d, "meta"), "-config", cfg]
        if simulate:
            cmd += ["-simulate", simulate]
            if depth:
                cmd += ["-depth", str(depth)]
            cmd += ["-seed", str(self.seed)]
        cmd += list(extra) + [module]
        e = dict(os.environ)
        e.update(env or {})
        t = time.time()
        try:
            p = subprocess.run(cmd, cwd=d, env=e, stdout=subprocess.PIPE, stderr=subprocess.STDOUT,
                               timeout=timeout, text=True, errors="replace")
        except subprocess.TimeoutExpired:
            raise InfraError("TLC timeout (%ds) on %s/%s" % (timeout, module, cfg))
        r = TlcResult(p.returncode, p.stdout, time.time() - t)
        r.dir = d
        if count:
            self.states += r.distinct
            self.transitions += r.generated
            self.mc_runs.append({"module": module, "cfg": cfg, "distinct": r.distinct,
                                 "generated": r.generated, "wall_s": round(r.wall, 1),
                                 "label": label or ""})
        if must_pass and not (r.ok or (simulate and r.rc == 0)):
            # A registered model configuration passes by construction; failure = broken spec files.
            raise InfraError("TLC %s/%s did not pass (rc=%d, violated=%s):\n%s"
                             % (module, cfg, r.rc, r.violated, r.tail()))
        return r

    def gen(self, specdirs, module, cfg, env=None, **kw):
        """Run a scenario-emitting configuration; returns the list of emitted records."""
        out = os.path.join(self.scratch, "gen%d.ndjson" % (self.nrun + 1))
        e = dict(env or {})
        e["VERIF_OUT"] = out
        kw.setdefault("workers", 1)
        r = self.tlc(specdirs, module, cfg, env=e, **kw)
        recs = read_ndjson(out) if os.path.exists(out) else []
        return recs, r

    # ------------------------------------------------------------------ Go
    def overlay(self, mapping):
        """mapping: {path under /repo (or absolute): source file}. Returns overlay json path."""
        rep = {}
        for dst, src in mapping.items():
            if not os.path.isabs(dst):
                dst = os.path.join(REPO, dst)
            if not os.path.isabs(src):
                src = os.path.join(VERIF, src)
            rep[dst] = src
        self.nrun += 1
        p = os.path.join(self.scratch, "overlay%d.json" % self.nrun)
        with open(p, "w") as f:
            json.dump({"Replace": rep}, f)
        return p

    def harness_overlay(self, pkg, harness_dir, extra=None):
        """Inject every .go file of /verif/<harness_dir> into /repo/<pkg> as zz_verif_<name>."""
        m = {}
        hd = os.path.join(VERIF, harness_dir)
        pkgname = None
        for f in sorted(os.listdir(hd)):
            if f.endswith(".go"):
                m[os.path.join(pkg, "zz_verif_" + f)] = os.path.join(hd, f)
                if pkgname is None:
                    mm = re.search(r"^package (\w+)", open(os.path.join(hd, f)).read(), re.M)
                    pkgname = mm.group(1) if mm else None
        if pkgname:
            self.nrun += 1
            vio = os.path.join(self.scratch, "vio%d_test.go" % self.nrun)
            with open(os.path.join(VERIF, "harness/common/vio_test.go.tmpl")) as f:
                src = f.read().replace("PKGNAME", pkgname)
            with open(vio, "w") as f:
                f.write(src)
            m[os.path.join(pkg, "zz_verif_vio_test.go")] = vio
        m.update(extra or {})
        return m

    def go_test(self, pkg, overlay_map, run, env=None, timeout=1200, race=False, extra=(),
                tags="verif"):
        ov = self.overlay(overlay_map)
        cmd = ["go", "test", "-tags", tags, "-overlay", ov, "-vet=off", "-count=1", "-v",
               "-run", run, "-timeout", "%ds" % timeout]
        if race:
            cmd.append("-race")
        cmd += list(extra) + ["./" + pkg]
        e = dict(os.environ)
        e.update(GOENV)
        e["VERIF_SEED"] = str(self.seed)
        e["VERIF_TIER"] = self.tier
        e["VERIF_SCRATCH"] = self.scratch
        e.update(env or {})
        t = time.time()
        try:
            p = subprocess.run(cmd, cwd=REPO, env=e, stdout=subprocess.PIPE, stderr=subprocess.STDOUT,
                               timeout=timeout + 120, text=True, errors="replace")
        except subprocess.TimeoutExpired:
            raise InfraError("go test timeout on %s %s" % (pkg, run))
        self.log("go test %s -run %s: rc=%d in %.1fs" % (pkg, run, p.returncode, time.time() - t))
        return p.returncode, p.stdout

    def go_run_driver(self, pkg, overlay_map, run, scenarios, env=None, **kw):
        """Standard RUN stage: write scenarios, run the driver, read back traces.

        The driver reads $VERIF_SCENARIOS (ndjson) and writes $VERIF_TRACES (ndjson). The driver
        never decides anything; a non-zero exit of `go test` is an infrastructure error unless the
        driver wrote traces and printed 'VERIF-DRIVER-DONE'."""
        self.nrun += 1
        sp = os.path.join(self.scratch, "scn%d.ndjson" % self.nrun)
        tp = os.path.join(self.scratch, "trace%d.ndjson" % self.nrun)
        write_ndjson(sp, scenarios)
        e = dict(env or {})
        e["VERIF_SCENARIOS"] = sp
        e["VERIF_TRACES"] = tp
        rc, out = self.go_test(pkg, overlay_map, run, env=e, **kw)
        if "VERIF-DRIVER-DONE" not in out or not os.path.exists(tp):
            raise InfraError("driver %s %s did not complete (rc=%d):\n%s"
                             % (pkg, run, rc, "\n".join(out.splitlines()[-60:])))
        return read_ndjson(tp), out

    # ------------------------------------------------------------------ JUDGE
    def judge_as_drift(self, label, *a, **kw):
        """Judge traces of a part of the spec that goes beyond the property statement: a rejection
        is reported as DRIFT (exit code unaffected), never as a violation of the property."""
        nv, nk = len(self.violations), len(self.known_seen)
        n = self.judge(*a, **kw)
        for v in self.violations[nv:]:
            self.drift.append("%s: %s (replay %s)" % (label, v["what"][:200], v["replay"]))
        self.extra[label + "_rejections"] = len(self.violations) - nv
        del self.violations[nv:]
        del self.known_seen[nk:]
        return n

    def judge(self, specdirs, module, cfg, events, scenario_of=None, env=None, timeout=900,
              max_rejects=25, known=None, heap="8g", dfs=True):
        """Validate recorded traces against a contract trace spec.

        events: list of dicts; each trace starts with an event {"ev":"reset","scn":<id>,...}.
        Rejected traces are classified (known finding / violation), removed, and the rest is
        judged again, so one rejection does not leave the remaining traces unexamined.
        Returns number of accepted traces."""
        traces = split_traces(events)
        total = len(traces)
        rejected = []
        while True:
            if not traces:
                break
            flat = [ev for t in traces for ev in t]
            self.nrun += 1
            tp = os.path.join(self.scratch, "judge%d.ndjson" % self.nrun)
            write_ndjson(tp, flat)
            e = dict(env or {})
            e["VERIF_TRACE"] = tp
            r = self.tlc(specdirs, module, cfg, env=e, workers=1, timeout=timeout, count=False,
                         must_pass=False, heap=heap, dfs=dfs)
            if r.ok:
                break
            line, why = judge_rejection(r, len(flat))
            if line is None:
                raise InfraError("judge %s/%s failed without a rejection point (rc=%d):\n%s"
                                 % (module, cfg, r.rc, r.tail(60)))
            # map line -> trace index
            n = 0
            idx = None
            for i, t in enumerate(traces):
                if n < line <= n + len(t):
                    idx = i
                    off = line - n
                    break
                n += len(t)
            if idx is None:
                raise InfraError("judge: rejected line %d outside trace file (%d lines)" % (line, len(flat)))
            t = traces.pop(idx)
            rejected.append({"trace": t, "offset": off, "why": why})
            if len(rejected) >= max_rejects:
                self.log("judge: %d rejections, not examining further traces" % len(rejected))
                total -= len(traces)
                traces = []
                break
        accepted = total - len(rejected)
        self.traces_validated += accepted
        for rj in rejected:
            self.classify(rj, scenario_of)
        return accepted

    def classify(self, rj, scenario_of=None):
        t = rj["trace"]
        head = t[0]
        scn = None
        if scenario_of is not None:
            scn = scenario_of(head) if callable(scenario_of) else scenario_of.get(head.get("scn"))
        ev = t[rj["offset"] - 1] if 0 < rj["offset"] <= len(t) else None
        subject = {"scenario": scn, "reset": head, "rejected_event": ev, "why": rj["why"], "trace": t}
        for k in self.kf:
            if k.get("status") == "known" and kf_matches(k.get("match", {}), subject):
                self.known_seen.append((k["id"], k.get("what", "")))
                return
        self.add_violation("contract rejected trace at event %d (%s): %s"
                           % (rj["offset"], rj["why"], json.dumps(ev)[:300]), subject)

    def add_violation(self, what, subject):
        n = len(self.violations) + 1
        path = os.path.join(VERIF, "replays", "%s-%s-seed%d-%d.json" % (self.pid, self.tier, self.seed, n))
        with open(path, "w") as f:
            json.dump({"property": self.pid, "tier": self.tier, "seed": self.seed, "what": what,
                       "subject": subject}, f, indent=1, default=str)
        self.violations.append({"replay": path, "what": what})

    def known_finding_or_violation(self, what, subject):
        """For verdicts computed from a judged predicate outside the trace loop."""
        for k in self.kf:
            if k.get("status") == "known" and kf_matches(k.get("match", {}), subject):
                self.known_seen.append((k["id"], k.get("what", "")))
                return
        self.add_violation(what, subject)

    # ------------------------------------------------------------------ finish
    def finish(self, level="model_checking"):
        wall = round(time.time() - self.t0, 1)
        seen = {}
        for kid, what in self.known_seen:
            seen.setdefault(kid, [0, what])[0] += 1
        for kid, (n, what) in sorted(seen.items()):
            print("KNOWN-FINDING: property=%s %s (%d traces) %s" % (self.pid, kid, n, what), flush=True)
        cov = {
            "states": self.states,
            "transitions": self.transitions,
            "traces_validated_against_impl": self.traces_validated,
            "samples": self.samples[:6] or ["(none)"],
            "evaluations": max(self.evaluations, self.traces_validated),
            "distinct_nontrivial": int(self.extra.get("distinct_nontrivial", 0)),
            "rule": self.rule,
            "exhaustive": self.exhaustive,
            "trusted_base": self.trusted_base,
            "tlc_runs": self.mc_runs,
            "known_findings_seen": {k: v[0] for k, v in seen.items()},
            "drift_events": self.drift[:20],
        }
        for k, v in self.extra.items():
            cov.setdefault(k, v)
        ev = {
            "property_id": self.pid,
            "tier": self.tier,
            "seed": self.seed,
            "level": level,
            "coverage": cov,
            "assumptions": self.assumptions,
            "wall_s": wall,
            "violations": len(self.violations),
        }
        # evidence is only written by runs against /repo itself (not replays, not scratch-worktree runs)
        if not self.replay and REPO == "/repo" and not os.environ.get("VERIF_NO_EVIDENCE"):
            with open(os.path.join(VERIF, "evidence", "%s.json" % self.pid), "w") as f:
                json.dump(ev, f, indent=1, default=str)
        for d in self.drift[:10]:
            print("DRIFT property=%s %s" % (self.pid, d), flush=True)
        for v in self.violations:
            print("VIOLATION property=%s replay=%s" % (self.pid, v["replay"]), flush=True)
            print("  " + v["what"][:400], flush=True)
        self.log("done: states=%d transitions=%d traces_validated=%d violations=%d known=%d wall=%.1fs"
                 % (self.states, self.transitions, self.traces_validated, len(self.violations),
                    len(self.known_seen), wall))
        return 1 if self.violations else 0


def judge_rejection(r, nlines):
    """Extract (line number (1-based) of the first event no behaviour could consume, reason)."""
    m = re.search(r"REJECTED_AT\D+(\d+)", r.out)
    if m:
        return int(m.group(1)), "event not allowed by the contract"
    if r.violated:
        # the counterexample's last state has l = index of the next unread line
        ls = re.findall(r"^/?\\?\s*l = (\d+)", r.out, re.M)
        if ls:
            return int(ls[-1]) - 1, "contract invariant %s violated" % r.violated
    return None, None


def split_traces(events):
    traces = []
    for ev in events:
        if ev.get("ev") == "reset" or not traces:
            traces.append([])
        traces[-1].append(ev)
    return traces


def kf_matches(match, subject):
    """match: {dotted.path: value | [values] | {"contains": x}}; all must hold."""
    for path, want in match.items():
        cur = subject
        for part in path.split("."):
            if isinstance(cur, dict) and part in cur:
                cur = cur[part]
            else:
                cur = None
                break
        if isinstance(want, dict) and "contains" in want:
            if cur is None or want["contains"] not in (cur if isinstance(cur, (list, str)) else [cur]):
                return False
        elif isinstance(want, dict) and "contains_seq" in want:
            seq = want["contains_seq"]
            if not isinstance(cur, list):
                return False
            it = iter(cur)
            if not all(any(x == y for y in it) for x in seq):
                return False
        elif isinstance(want, list):
            if cur not in want:
                return False
        elif cur != want:
            return False
    return True


def load_known_findings():
    """known_findings.json plus known_findings.d/*.json (same format), all committed, read-only."""
    out = []
    paths = [os.path.join(VERIF, "known_findings.json")]
    d = os.path.join(VERIF, "known_findings.d")
    if os.path.isdir(d):
        paths += [os.path.join(d, f) for f in sorted(os.listdir(d)) if f.endswith(".json")]
    for p in paths:
        if os.path.exists(p):
            with open(p) as f:
                out += json.load(f).get("findings", [])
    return out


def read_ndjson(path):
    out = []
    with open(path) as f:
        for ln in f:
            ln = ln.strip()
            if ln:
                out.append(json.loads(ln))
    return out


def write_ndjson(path, recs):
    with open(path, "w") as f:
        for r in recs:
            f.write(json.dumps(r, separators=(",", ":")) + "\n")


def main(pid, fn, level="model_checking"):
    """Entry point of checks/Cxx.py: fn(ctx) performs GEN/RUN/JUDGE."""
    ctx = Ctx(pid)
    try:
        fn(ctx)
        rc = ctx.finish(level)
    except InfraError as e:
        print("ERROR property=%s infrastructure: %s" % (pid, e), flush=True)
        rc = 2
    except Exception as e:  # noqa
        import traceback
        traceback.print_exc()
        print("ERROR property=%s internal: %r" % (pid, e), flush=True)
        rc = 2
    sys.exit(rc)
